//go:build verif

// vx is the explorer binary built inside the instrumented mirror.
package main

import (
	"encoding/json"
	"fmt"
	"io"
	"os"
	"runtime/debug"
	"runtime/pprof"
	"strconv"
	"time"

	crand "crypto/rand"
	_ "github.com/cbeuw/Cloak/internal/ckclient"
	_ "github.com/cbeuw/Cloak/internal/ckserver"
	_ "github.com/cbeuw/Cloak/internal/client"
	_ "github.com/cbeuw/Cloak/internal/common"
	_ "github.com/cbeuw/Cloak/internal/multiplex"
	_ "github.com/cbeuw/Cloak/internal/server"
	_ "github.com/cbeuw/Cloak/internal/server/usermanager"
	_ "github.com/cbeuw/Cloak/internal/vref"
	"github.com/cbeuw/Cloak/internal/vrt"
	_ "github.com/cbeuw/Cloak/internal/vself"
	"github.com/cbeuw/Cloak/internal/vx"
	log "github.com/sirupsen/logrus"
)

// runCatching turns a panic that escapes a free-running (enumeration) scenario into a "no-panic"
// violation: Cloak code called directly from the harness crashed on the case being evaluated.
func runCatching(sc *vx.Scenario, c *vx.Ctx) (rep *vx.Report) {
	defer func() {
		if r := recover(); r != nil {
			rep = &vx.Report{Job: c.Job, Engine: "enum", States: 1, Transitions: 1, Executions: 1, Outcomes: map[string]int64{"PANIC": 1}, CapHit: "panic"}
			rep.Violations = append(rep.Violations, vx.Violation{Clause: "no-panic", Sig: vx.Sig(c.Job, "no-panic"), Msg: fmt.Sprintf("panic: %v\n%s", r, debug.Stack())})
			rep.Samples = append(rep.Samples, "panic")
		}
	}()
	return sc.Run(c)
}

func main() {
	crand.Reader = vrt.DetReader{} // un-instrumented libraries (uTLS) draw from the owned randomness too
	log.SetOutput(io.Discard)
	log.SetLevel(log.PanicLevel)
	log.StandardLogger().ExitFunc = func(int) { panic("log.Fatal called") }
	if len(os.Args) < 2 {
		fmt.Println("usage: vx jobs <prop> <tier> | run <job-json> | replay <file> | list")
		os.Exit(2)
	}
	seed := uint64(1)
	if v := os.Getenv("VERIF_SEED"); v != "" {
		if n, err := strconv.ParseInt(v, 10, 64); err == nil {
			seed = uint64(n)
		}
	}
	if pf := os.Getenv("VERIF_CPUPROFILE"); pf != "" {
		f, _ := os.Create(pf)
		pprof.StartCPUProfile(f)
		defer pprof.StopCPUProfile()
	}
	switch os.Args[1] {
	case "list":
		for _, n := range vx.Names() {
			fmt.Println(n)
		}
	case "jobs":
		jobs := vx.Jobs(os.Args[2], os.Args[3])
		b, _ := json.Marshal(jobs)
		if jobs == nil {
			b = []byte("[]")
		}
		os.Stdout.Write(b)
	case "run":
		var j vx.Job
		if err := json.Unmarshal([]byte(os.Args[2]), &j); err != nil {
			fmt.Fprintln(os.Stderr, "bad job:", err)
			os.Exit(2)
		}
		sc := vx.Lookup(j.Scenario)
		if sc == nil {
			fmt.Fprintln(os.Stderr, "unknown scenario", j.Scenario)
			os.Exit(2)
		}
		c := &vx.Ctx{Job: j, Seed: seed}
		if j.BudgetS > 0 {
			c.Deadline = time.Now().Add(time.Duration(j.BudgetS) * time.Second)
		}
		start := time.Now()
		rep := runCatching(sc, c)
		if rep.WallS == 0 {
			rep.WallS = time.Since(start).Seconds()
		}
		vx.Emit(rep)
	case "replay":
		b, err := os.ReadFile(os.Args[2])
		if err != nil {
			fmt.Fprintln(os.Stderr, err)
			os.Exit(2)
		}
		var rf struct {
			Property  string       `json:"property"`
			Job       vx.Job       `json:"job"`
			Violation vx.Violation `json:"violation"`
			Seed      uint64       `json:"seed"`
		}
		if err := json.Unmarshal(b, &rf); err != nil {
			fmt.Fprintln(os.Stderr, err)
			os.Exit(2)
		}
		sc := vx.Lookup(rf.Job.Scenario)
		if sc == nil {
			fmt.Fprintln(os.Stderr, "unknown scenario", rf.Job.Scenario)
			os.Exit(2)
		}
		if rf.Seed == 0 {
			rf.Seed = seed
		}
		c := &vx.Ctx{Job: rf.Job, Seed: rf.Seed, Replay: &rf.Violation}
		rep := runCatching(sc, c)
		if len(rep.Violations) > 0 {
			v := rep.Violations[0]
			fmt.Printf("replay reproduces: clause=%s sig=%s\n%s\n", v.Clause, v.Sig, v.Msg)
			for _, ev := range v.Trace {
				fmt.Printf("  [%6dms] %-28s %-18s %-14s %s\n", ev.VT, ev.Thread, ev.Op, ev.Obj, ev.Site)
			}
			fmt.Printf("VIOLATION property=%s replay=%s\n", rf.Property, os.Args[2])
			os.Exit(1)
		}
		fmt.Println("replay: no violation on this tree")
	default:
		fmt.Fprintln(os.Stderr, "unknown command")
		os.Exit(2)
	}
}
