//go:build verif

package client

import (
	"encoding/base64"
	"encoding/json"
	"fmt"
	"os"
	"reflect"
	"sort"
	"strings"
	"time"

	"github.com/cbeuw/Cloak/internal/common"
	mux "github.com/cbeuw/Cloak/internal/multiplex"
	"github.com/cbeuw/Cloak/internal/vx"
)

// C20: client configuration, both syntaxes, against a table transcribed from README.md.

type cfgCase map[string]any // key -> value (string, int, bool, []string, []byte)

var c20Mandatory = []string{"ServerName", "ProxyMethod", "EncryptionMethod", "UID", "PublicKey", "LocalHost", "LocalPort", "RemoteHost", "RemotePort"}
var c20Optional = []string{"NumConn", "AlternativeNames", "UDP", "BrowserSig", "Transport", "CDNOriginHost", "CDNWsUrlPath", "StreamTimeout", "KeepAlive"}

func c20Base() cfgCase {
	uid := []byte{0xfb, 0xef, 0xbe, 1, 2, 3, 4, 5, 6, 7, 8, 9, 10, 11, 12, 0xff} // base64 with + / and = padding
	pub := make([]byte, 32)
	for i := range pub {
		pub[i] = byte(200 + i)
	}
	return cfgCase{
		"ServerName": "www.bing.com", "ProxyMethod": "shadowsocks", "EncryptionMethod": "aes-gcm", "UID": uid, "PublicKey": pub,
		"LocalHost": "127.0.0.1", "LocalPort": "1984", "RemoteHost": "203.0.113.7", "RemotePort": "443",
	}
}

func c20OptionalCanon() cfgCase {
	return cfgCase{
		"NumConn": 4, "AlternativeNames": []string{"cloudflare.com", "github.com"}, "UDP": true, "BrowserSig": "firefox", "Transport": "CDN",
		"CDNOriginHost": "origin.example.org", "CDNWsUrlPath": "/ws", "StreamTimeout": 120, "KeepAlive": 15,
	}
}

func (c cfgCase) clone() cfgCase {
	n := cfgCase{}
	for k, v := range c {
		n[k] = v
	}
	return n
}

func (c cfgCase) keys() []string {
	var ks []string
	for k := range c {
		ks = append(ks, k)
	}
	sort.Strings(ks)
	return ks
}

func (c cfgCase) toJSON() []byte {
	m := map[string]any{}
	for k, v := range c {
		m[k] = v // []byte marshals as base64, as Cloak expects
	}
	b, _ := json.Marshal(m)
	return b
}

// toSSV renders the plugin-option syntax; '=' inside values is written as `\=` as plugin hosts do.
func (c cfgCase) toSSV() string { return c.toSSVOrder(c.keys(), true) }

// ssvVariants: the same options in other legal renderings - without the trailing ';' and with each
// base64-valued option (whose value ends in escaped '=' signs) moved to the end of the string.
func (c cfgCase) ssvVariants() []string {
	ks := c.keys()
	out := []string{c.toSSVOrder(ks, false)}
	for _, last := range []string{"UID", "PublicKey"} {
		if _, ok := c[last]; !ok {
			continue
		}
		var o []string
		for _, k := range ks {
			if k != last {
				o = append(o, k)
			}
		}
		o = append(o, last)
		out = append(out, c.toSSVOrder(o, false), c.toSSVOrder(o, true))
	}
	return out
}

func (c cfgCase) toSSVOrder(keys []string, trailing bool) string {
	var parts []string
	esc := func(s string) string { return strings.ReplaceAll(s, "=", `\=`) }
	for _, k := range keys {
		switch v := c[k].(type) {
		case string:
			parts = append(parts, k+"="+esc(v))
		case int:
			parts = append(parts, fmt.Sprintf("%s=%d", k, v))
		case bool:
			parts = append(parts, fmt.Sprintf("%s=%v", k, v))
		case []byte:
			parts = append(parts, k+"="+esc(base64.StdEncoding.EncodeToString(v)))
		case []string:
			parts = append(parts, k+"="+strings.Join(v, ","))
		}
	}
	if !trailing {
		return strings.Join(parts, ";")
	}
	return strings.Join(parts, ";") + ";"
}

type c20Result struct {
	Err   bool
	Panic string
	Local LocalConnConfig
	Rem   RemoteConnConfig
	UID   []byte
	Proxy string
	Enc   byte
	Unord bool
	Mock  string
	Pub   [32]byte
}

func catchC20(f func()) (msg string) {
	defer func() {
		if r := recover(); r != nil {
			msg = fmt.Sprint(r)
		}
	}()
	f()
	return ""
}

func c20Run(conf string) (res c20Result) {
	defer func() {
		if r := recover(); r != nil {
			res.Panic = fmt.Sprint(r)
		}
	}()
	raw, err := ParseConfig(conf)
	if err != nil {
		res.Err = true
		return
	}
	local, remote, auth, err := raw.ProcessRawConfig(common.RealWorldState)
	if err != nil {
		res.Err = true
		return
	}
	res.Local, res.Rem = local, remote
	res.UID, res.Proxy, res.Enc, res.Unord, res.Mock = auth.UID, auth.ProxyMethod, auth.EncryptionMethod, auth.Unordered, auth.MockDomain
	if p, ok := auth.ServerPubKey.(*[32]byte); ok && p != nil {
		res.Pub = *p
	}
	return
}

// c20Expect is the documented meaning of a configuration.
func c20Expect(c cfgCase) (want c20Result) {
	for _, k := range c20Mandatory {
		v, ok := c[k]
		empty := !ok
		if s, isS := v.(string); isS && s == "" {
			empty = true
		}
		if b, isB := v.([]byte); isB && len(b) == 0 {
			empty = true
		}
		if empty {
			want.Err = true
			return
		}
	}
	str := func(k string) string { s, _ := c[k].(string); return s }
	num := func(k string) int { n, _ := c[k].(int); return n }
	switch strings.ToLower(str("EncryptionMethod")) {
	case "plain":
		want.Enc = mux.EncryptionMethodPlain
	case "aes-gcm", "aes-256-gcm":
		want.Enc = mux.EncryptionMethodAES256GCM
	case "aes-128-gcm":
		want.Enc = mux.EncryptionMethodAES128GCM
	case "chacha20-poly1305":
		want.Enc = mux.EncryptionMethodChaha20Poly1305
	default:
		want.Err = true
		return
	}
	if len(c["PublicKey"].([]byte)) != 32 {
		want.Err = true
		return
	}
	copy(want.Pub[:], c["PublicKey"].([]byte))
	want.UID = c["UID"].([]byte)
	want.Proxy = str("ProxyMethod")
	want.Mock = str("ServerName")
	want.Unord, _ = c["UDP"].(bool)
	var names []string
	if an, ok := c["AlternativeNames"].([]string); ok {
		for _, n := range an {
			if n != "" {
				names = append(names, n)
			}
		}
	}
	want.Local.MockDomainList = append(names, str("ServerName"))
	// host:port, an IPv6 literal (anything containing a colon: also zone-scoped and IPv4-mapped forms) in brackets
	hostPort := func(h, p string) string {
		if strings.Contains(h, ":") {
			return "[" + h + "]:" + p
		}
		return h + ":" + p
	}
	want.Local.LocalAddr = hostPort(str("LocalHost"), str("LocalPort"))
	if st := num("StreamTimeout"); st == 0 {
		want.Local.Timeout = 300 * time.Second
	} else {
		want.Local.Timeout = time.Duration(st) * time.Second
	}
	want.Rem.RemoteAddr = hostPort(str("RemoteHost"), str("RemotePort"))
	if n := num("NumConn"); n <= 0 {
		want.Rem.NumConn, want.Rem.Singleplex = 1, true
	} else {
		want.Rem.NumConn = n
	}
	if ka := num("KeepAlive"); ka > 0 {
		want.Rem.KeepAlive = time.Duration(ka) * time.Second
	} else {
		want.Rem.KeepAlive = -1 // disabled
	}
	if strings.ToLower(str("Transport")) == "cdn" {
		host := str("CDNOriginHost")
		if host == "" {
			host = str("RemoteHost")
		}
		path := str("CDNWsUrlPath")
		if path == "" {
			path = "/"
		}
		want.Rem.Transport = TransportConfig{mode: "cdn", wsUrl: "ws://" + hostPort(host, str("RemotePort")) + path}
	} else {
		b := browser(chrome)
		switch strings.ToLower(str("BrowserSig")) {
		case "firefox":
			b = firefox
		case "safari":
			b = safari
		}
		want.Rem.Transport = TransportConfig{mode: "direct", browser: b}
	}
	return
}

func c20Diff(got, want c20Result) string {
	if got.Panic != "" {
		return "panic: " + got.Panic
	}
	if got.Err != want.Err {
		return fmt.Sprintf("error=%v, documented: error=%v", got.Err, want.Err)
	}
	if want.Err {
		return ""
	}
	var d []string
	chk := func(name string, g, w any) {
		if !reflect.DeepEqual(g, w) {
			d = append(d, fmt.Sprintf("%s = %v, documented %v", name, g, w))
		}
	}
	chk("KeepAlive", got.Rem.KeepAlive, want.Rem.KeepAlive)
	chk("NumConn", got.Rem.NumConn, want.Rem.NumConn)
	chk("Singleplex", got.Rem.Singleplex, want.Rem.Singleplex)
	chk("RemoteAddr", got.Rem.RemoteAddr, want.Rem.RemoteAddr)
	chk("Transport", got.Rem.Transport, want.Rem.Transport)
	chk("LocalAddr", got.Local.LocalAddr, want.Local.LocalAddr)
	chk("StreamTimeout", got.Local.Timeout, want.Local.Timeout)
	chk("MockDomainList", fmt.Sprint(got.Local.MockDomainList), fmt.Sprint(want.Local.MockDomainList))
	chk("UID", got.UID, want.UID)
	chk("ProxyMethod", got.Proxy, want.Proxy)
	chk("EncryptionMethod", got.Enc, want.Enc)
	chk("UDP", got.Unord, want.Unord)
	chk("ServerName", got.Mock, want.Mock)
	chk("PublicKey", got.Pub, want.Pub)
	return strings.Join(d, "; ")
}

func init() {
	vx.Register(&vx.Scenario{Name: "cfg.matrix", Prop: "C20", Run: func(c *vx.Ctx) *vx.Report {
		rep := &vx.Report{Job: c.Job, Engine: "enum", Outcomes: map[string]int64{}, Exhaustive: true}
		mode := c.P("mode", "optional-subsets")
		path := fmt.Sprintf("/dev/shm/vx-c20-%d.json", os.Getpid())
		defer os.Remove(path)
		var cases []cfgCase
		canon := c20OptionalCanon()
		switch mode {
		case "optional-subsets":
			for mask := 0; mask < 1<<len(c20Optional); mask++ {
				cs := c20Base()
				for i, k := range c20Optional {
					if mask>>i&1 == 1 {
						cs[k] = canon[k]
					}
				}
				cases = append(cases, cs)
			}
		case "all-subsets":
			all := append(append([]string{}, c20Mandatory...), c20Optional...)
			full := c20Base()
			for k, v := range canon {
				full[k] = v
			}
			lo, hi := c.PI("lo", 0), c.PI("hi", 1<<len(all))
			for mask := lo; mask < hi; mask++ {
				cs := cfgCase{}
				for i, k := range all {
					if mask>>i&1 == 1 {
						cs[k] = full[k]
					}
				}
				if len(cs) < 2 {
					continue // a single option is not recognised as an option string (needs ';' and '=')
				}
				cases = append(cases, cs)
			}
		case "missing":
			for i := range c20Mandatory {
				cs := c20Base()
				delete(cs, c20Mandatory[i])
				cases = append(cases, cs)
				for j := i + 1; j < len(c20Mandatory); j++ {
					c2 := cs.clone()
					delete(c2, c20Mandatory[j])
					cases = append(cases, c2)
				}
				if _, isStr := c20Base()[c20Mandatory[i]].(string); isStr {
					c3 := c20Base()
					c3[c20Mandatory[i]] = ""
					cases = append(cases, c3)
				}
			}
		case "values":
			vals := map[string][]any{
				"NumConn":          {-1, 0, 1, 4, 8},
				"KeepAlive":        {-1, 0, 1, 15, 3600},
				"StreamTimeout":    {0, 1, 300, 86400},
				"BrowserSig":       {"chrome", "firefox", "safari", "Chrome", "FIREFOX", "Safari", "opera", ""},
				"Transport":        {"direct", "CDN", "cdn", "Direct", "DIRECT", "Cdn", ""},
				"EncryptionMethod": {"plain", "aes-gcm", "aes-256-gcm", "aes-128-gcm", "chacha20-poly1305", "AES-GCM", "Plain", "ChaCha20-Poly1305", "rot13", "aes-256-gcm "},
				"AlternativeNames": {[]string{"a.com"}, []string{"a.com", "", "b.com"}, []string{"a.com", "b.com", "c.com"}, []string{"", ""}, []string{"a.com", "", ""}, []string{"", "", "a.com"}, []string{"", "a.com", "", "", "b.com", ""}, []string{""}},
				"UDP":              {true, false},
				"CDNOriginHost":    {"origin.example.org", ""},
				"CDNWsUrlPath":     {"/ws", "/", "/a/b", "", "/cloak?ed=2048", "/my%20tunnel/ws", "/a#b", "/x y"},
				"ServerName":       {"www.bing.com", "random", "a.b.c.d.example"},
				"RemoteHost":       {"203.0.113.5", "example.net", "::1", "2001:db8::1", "fe80::1%eth0", "::ffff:192.0.2.7"},
				"LocalHost":        {"127.0.0.1", "::1", "fe80::1%lo", "::ffff:127.0.0.1"},
				"ProxyMethod":      {"shadowsocks", "openvpn", "x"},
				"PublicKey":        {make([]byte, 32), make([]byte, 31), make([]byte, 33)},
				"UID":              {[]byte{1, 2, 3, 4, 5, 6, 7, 8, 9, 10, 11, 12, 13, 14, 15, 16}, []byte{0xff, 0xfe, 0xfd, 0xfc, 0xfb, 0xfa, 0xf9, 0xf8, 0xf7, 0xf6, 0xf5, 0xf4, 0xf3, 0xf2, 0xf1, 0xf0}},
			}
			var ks []string
			for k := range vals {
				ks = append(ks, k)
			}
			sort.Strings(ks)
			for _, k := range ks {
				for _, v := range vals[k] {
					for _, cdn := range []bool{false, true} {
						cs := c20Base()
						if cdn {
							cs["Transport"] = "CDN"
						}
						cs[k] = v
						cases = append(cases, cs)
					}
				}
			}
		}
		distinct := map[string]bool{}
		for _, cs := range cases {
			want := c20Expect(cs)
			os.WriteFile(path, cs.toJSON(), 0o600)
			gotJ := c20Run(path)
			ssv := cs.toSSV()
			gotS := c20Run(ssv)
			rep.Executions += 2
			rep.Transitions += 2
			msg := ""
			if d := c20Diff(gotJ, want); d != "" {
				msg = "JSON file: " + d
			} else if d := c20Diff(gotS, want); d != "" {
				msg = "option string: " + d
			}
			if msg == "" && len(cs) > 1 {
				for _, v := range cs.ssvVariants() {
					rep.Executions++
					rep.Transitions++
					if d := c20Diff(c20Run(v), want); d != "" {
						msg = "option string (other rendering): " + d
						ssv = v
						break
					}
				}
			}
			// the ssv front end cannot express an empty-string element inside AlternativeNames differently
			// from JSON; equality between the two is implied by both matching the table
			if msg != "" {
				field := strings.SplitN(strings.SplitN(msg, ": ", 2)[1], " ", 2)[0]
				sig := "cfg.matrix{}|config-honoured:" + field
				rep.Violations = append(rep.Violations, vx.Violation{Clause: "config-honoured", Sig: sig, Msg: fmt.Sprintf("%s  [config: %s]", msg, ssv), Case: map[string]any{"ssv": ssv, "json": string(cs.toJSON())}})
				rep.Exhaustive = false
				if len(rep.Violations) >= 3 {
					rep.CapHit = "stopped after 3 violations"
					break
				}
			}
			distinct[fmt.Sprintf("%v/%+v/%+v", gotJ.Err, gotJ.Rem, gotJ.Local)] = true
			if len(rep.Samples) < 2 && len(cs) > 12 {
				rep.Samples = append(rep.Samples, map[string]any{"ssv": ssv})
			}
		}
		rep.States = int64(len(cases))
		rep.Outcomes["cases"] = int64(len(cases))
		rep.Outcomes["distinct-processed-configs"] = int64(len(distinct))
		if len(rep.Samples) == 0 && len(cases) > 0 {
			rep.Samples = append(rep.Samples, map[string]any{"ssv": cases[len(cases)-1].toSSV()})
		}
		return rep
	}})

	// the one anchored line in cmd/ck-client: the dialer is given the processed keep-alive
	vx.Register(&vx.Scenario{Name: "cfg.dialer", Prop: "C20", Run: func(c *vx.Ctx) *vx.Report {
		rep := &vx.Report{Job: c.Job, Engine: "enum", Outcomes: map[string]int64{}, Exhaustive: true, States: 1, Transitions: 1, Executions: 1}
		repo := os.Getenv("VERIF_REPO")
		if repo == "" {
			repo = "/repo"
		}
		b, err := os.ReadFile(repo + "/cmd/ck-client/ck-client.go")
		src := strings.Join(strings.Fields(string(b)), " ")
		if err != nil || !strings.Contains(src, "net.Dialer{") || !strings.Contains(src, "KeepAlive: remoteConfig.KeepAlive") {
			rep.Violations = append(rep.Violations, vx.Violation{Clause: "keepalive-reaches-dialer", Sig: vx.Sig(c.Job, "keepalive-reaches-dialer"), Msg: "cmd/ck-client/ck-client.go no longer hands remoteConfig.KeepAlive to the net.Dialer"})
			rep.Exhaustive = false
		}
		rep.Outcomes["checked"] = 1
		rep.Samples = append(rep.Samples, "cmd/ck-client/ck-client.go: net.Dialer{..., KeepAlive: remoteConfig.KeepAlive}")
		return rep
	}})

	// configuration files that are valid JSON (or not) but not a configuration object: each is rejected
	// with an error - by ParseConfig or by ProcessRawConfig - and never yields something ck-client would
	// dereference or run with
	vx.Register(&vx.Scenario{Name: "cfg.documents", Prop: "C20", Run: func(c *vx.Ctx) *vx.Report {
		rep := &vx.Report{Job: c.Job, Engine: "enum", Outcomes: map[string]int64{}, Exhaustive: true}
		docs := []string{"", " ", "null", "[]", "{}", "42", "true", `"ServerName=x"`, "{", `{"UID":`, `{"UID":null}`, `[{"ServerName":"x"}]`, "null\n", " null ", `{"ServerName":null,"UID":null,"PublicKey":null}`, `{"NumConn":"4"}`, `{"AlternativeNames":"a.com"}`, `{"AlternativeNames":null}`}
		// a complete, valid configuration followed by something: not a configuration file either
		good := string(c20Base().toJSON())
		trailing := []string{good + "}", good + "\n{", good + " trailing", good + good, good + "\n" + `{"NumConn":9}`, good + "]", good + ","}
		nTrailing := len(trailing)
		docs = append(docs, trailing...)
		for i, doc := range docs {
			path := fmt.Sprintf("/dev/shm/vx-%d-cfgdoc-%d.json", os.Getpid(), i)
			if err := os.WriteFile(path, []byte(doc), 0o600); err != nil {
				rep.HarnessError = err.Error()
				return rep
			}
			var raw *RawConfig
			var perr, procErr error
			msg := catchC20(func() {
				raw, perr = ParseConfig(path)
				if perr == nil && raw != nil {
					_, _, _, procErr = raw.ProcessRawConfig(common.RealWorldState)
				}
			})
			os.Remove(path)
			rep.Executions++
			rep.Transitions++
			switch {
			case i >= len(docs)-nTrailing && msg == "" && perr == nil:
				rep.Violations = append(rep.Violations, vx.Violation{Clause: "rejected-not-crashed", Sig: vx.Sig(c.Job, "trailing-data-accepted"), Msg: fmt.Sprintf("a configuration file holding a complete configuration followed by %q was accepted (whatever follows the first JSON value is ignored)", doc[len(good):])})
			case msg != "":
				rep.Violations = append(rep.Violations, vx.Violation{Clause: "rejected-not-crashed", Sig: vx.Sig(c.Job, "rejected-not-crashed"), Msg: fmt.Sprintf("configuration file containing %q: panic: %s", doc, msg)})
			case perr == nil && raw == nil:
				rep.Violations = append(rep.Violations, vx.Violation{Clause: "rejected-not-crashed", Sig: vx.Sig(c.Job, "rejected-not-crashed"), Msg: fmt.Sprintf("configuration file containing %q: ParseConfig reports no error and returns a nil configuration, which ck-client goes on to dereference (a crash instead of an error)", doc)})
			case perr == nil && procErr == nil:
				rep.Violations = append(rep.Violations, vx.Violation{Clause: "rejected-not-crashed", Sig: vx.Sig(c.Job, "incomplete-accepted"), Msg: fmt.Sprintf("configuration file containing %q (no server name, UID or key) was accepted", doc)})
			default:
				rep.Outcomes["rejected"]++
			}
		}
		if len(rep.Violations) > 0 {
			rep.Exhaustive = false
		}
		rep.States = rep.Executions
		return rep
	}})

	vx.RegisterJobs("C20", func(tier string) []vx.Job {
		jobs := []vx.Job{
			{Scenario: "cfg.matrix", Params: vx.P("mode", "optional-subsets"), Weight: 5},
			{Scenario: "cfg.matrix", Params: vx.P("mode", "missing"), Weight: 2},
			{Scenario: "cfg.matrix", Params: vx.P("mode", "values"), Weight: 2},
			{Scenario: "cfg.dialer", Weight: 1},
			{Scenario: "cfg.documents", Weight: 1},
		}
		// the configured browser signature on the wire, through connection failures
		for _, br := range []string{"chrome", "firefox", "safari"} {
			jobs = append(jobs, vx.Job{Scenario: "cfg.wire", Params: vx.P("browser", br, "roles", "reset,ok", "numconn", "1"), Bound: 0, BudgetS: 100, Weight: 3},
				vx.Job{Scenario: "cfg.wire", Params: vx.P("browser", br, "roles", "refuse,ok", "numconn", "1"), Bound: 0, BudgetS: 100, Weight: 3},
				vx.Job{Scenario: "cfg.wire", Params: vx.P("browser", br, "roles", "reset,refuse,ok,ok,ok", "numconn", "3"), Bound: 1, BudgetS: 100, Weight: 5})
		}
		// Transport=CDN: the handshake reaches the origin through a TLS-terminating edge, to which the client
		// presents the configured ServerName (the driver is shared with C06; it compares the name the edge saw)
		jobs = append(jobs, vx.Job{Scenario: "hs.agree", Params: vx.P("transport", "cdn", "browser", "chrome", "product", "star", "seeds", "1"), Weight: 4})
		// the program itself: every subset of the overriding command-line options against a configuration file
		jobs = append(jobs, vx.Job{Scenario: "climain.flags", Weight: 4})
		if tier == "thorough" {
			const total = 1 << 18
			const shards = 16
			for i := 0; i < shards; i++ {
				jobs = append(jobs, vx.Job{Scenario: "cfg.matrix", Params: vx.P("mode", "all-subsets", "lo", fmt.Sprint(i*total/shards), "hi", fmt.Sprint((i+1)*total/shards)), Weight: 9})
			}
		}
		return jobs
	})
}
