//go:build verif

package multiplex

import (
	"github.com/cbeuw/Cloak/internal/vrt"
	"github.com/cbeuw/Cloak/internal/vrt/sync"
	"github.com/cbeuw/Cloak/internal/vrt/time"
	"github.com/cbeuw/Cloak/internal/vx"
)

// C13 driver (b): a stream id is used once per session. The accepting side answers on stream S and
// closes it while another stream keeps the session alive; a frame of the peer for S that was still in
// flight arrives `wait` seconds later (an explorer choice among several delays around the inactivity
// timeout). Whatever the application does with what arrives, this endpoint never again sends a
// message numbered (S, 0): every (stream id, sequence number) on the wire stays unique.
func init() {
	vx.Register(&vx.Scenario{Name: "mux.lateframe", Prop: "C13", Run: func(c *vx.Ctx) *vx.Report {
		sc := &vrt.Scenario{
			Opt:      vrt.Options{RandInt: chooseConnOpt(), Delay: true, HorizonNs: int64(600 * time.Second), StepCap: 20000000},
			Classify: deadlockIs("liveness: blocked forever"),
			Main: func() {
				inact := 10 * time.Second
				r := newMuxRig(rigCfg{conns: 1, unit: 256, inactivity: inact})
				keeper, _ := r.cli.OpenStream()
				keeper.Write([]byte{1})
				var wg sync.WaitGroup
				served := 0
				lateSent := false
				wg.Add(1)
				vrt.Go("server-app", func() {
					defer wg.Done()
					for {
						conn, err := r.srv.Accept()
						if err != nil {
							return
						}
						st := conn.(*Stream)
						if st.id == keeper.id {
							continue // stays open
						}
						if lateSent && c.P("strict", "0") == "1" {
							// C12's reading: a frame for a stream both sides have closed must not bring a stream into
							// being (it would be counted as active although neither side has it open)
							vrt.Fail("count-equals-open-streams", "a late frame for stream %d, which both sides closed, re-created it: the accepting side now counts %d active streams", st.id, r.srv.streamCount())
						}
						served++
						wg.Add(1)
						vrt.Go("serve", func() {
							defer wg.Done()
							// like a relay whose other end speaks first and hangs up: write, then close
							st.Write([]byte("answer"))
							st.Close()
						})
					}
				})
				// cycles: that many request/answer/close exchanges on streams of their own come first (a
				// long-lived session; bookkeeping that is only tidied every so many closures)
				cycles := c.PI("cycles", 0)
				r.net.NoTap = cycles > 0
				buf := make([]byte, 16)
				var cycleIDs []uint32
				for i := 0; i < cycles; i++ {
					st, err := r.cli.OpenStream()
					if err != nil {
						vrt.Fail("harness", "OpenStream %d: %v", i, err)
					}
					cycleIDs = append(cycleIDs, st.id)
					st.Write([]byte("request"))
					for {
						if _, err := st.Read(buf); err != nil {
							break
						}
					}
					st.Close()
				}
				r.net.NoTap = false
				s, _ := r.cli.OpenStream()
				s.Write([]byte("request"))
				quiesce()
				delays := []time.Duration{time.Second, inact - time.Second, inact + time.Second, 3 * inact}
				if cycles > 0 {
					delays = delays[3:] // long histories vary the stream the late frame belongs to instead
				}
				time.Sleep(delays[vrt.Choose(len(delays), "late-by")])
				// the frame that was still in flight when the stream was closed (built by hand: the client's
				// own stream object already knows about the close)
				o, _ := MakeObfuscator(EncryptionMethodPlain, rigKey)
				// which closed stream the late frame belongs to: the last one, or (long histories) one closed
				// around a round number of closures ago - where periodic tidying would have touched it
				target := s.id
				if cycles > 0 {
					var cands []uint32
					ks := []int{1, cycles / 2, 1023, 1024, 1025, 2047, 2048, 2049, 4094, 4095, 4096, 4097, cycles}
					if c.P("targets", "all") == "few" {
						ks = []int{1, 1024, 4096, cycles}
					}
					for _, k := range ks {
						if k >= 1 && k <= cycles {
							cands = append(cands, cycleIDs[k-1])
						}
					}
					cands = append(cands, s.id)
					target = cands[vrt.Choose(len(cands), "late-frame-of")]
				}
				late := c11Encode(&o, target, 1, 0, []byte("late data"), 0)
				lateSent = true
				r.ca[0].Write(late)
				quiesce()
				time.Sleep(time.Second)
				frames, err := decodeTap(r.net, "b>a", EncryptionMethodPlain)
				if err != nil {
					vrt.Fail("wire-format", "%v", err)
				}
				type ss struct {
					id  uint32
					seq uint64
				}
				seen := map[ss]int{}
				for i, f := range frames {
					k := ss{f.StreamID, f.Seq}
					if j, dup := seen[k]; dup {
						vrt.Fail("unique-seq", "messages %d and %d sent by the accepting side both carry (stream %d, seq %d): after stream %d was closed a late frame re-created it and its numbering restarted (nonce reuse)", j, i, f.StreamID, f.Seq, f.StreamID)
					}
					seen[k] = i
				}
				vrt.Observe("served=%d frames=%d", served, len(frames))
				r.cli.Close()
				wg.Wait()
			},
		}
		return vx.RunSched(c, sc, sigOf("C13"))
	}})
}
