//go:build verif

package multiplex

import (
	"github.com/cbeuw/Cloak/internal/vrt"
	"github.com/cbeuw/Cloak/internal/vrt/sync"
	"github.com/cbeuw/Cloak/internal/vrt/time"
	"github.com/cbeuw/Cloak/internal/vx"
)

// C13 driver (b): a stream id is used once per session. The accepting side answers on stream S and
// closes it while another stream keeps the session alive; a frame of the peer for S that was still in
// flight arrives `wait` seconds later (an explorer choice among several delays around the inactivity
// timeout). Whatever the application does with what arrives, this endpoint never again sends a
// message numbered (S, 0): every (stream id, sequence number) on the wire stays unique.
func init() {
	vx.Register(&vx.Scenario{Name: "mux.lateframe", Prop: "C13", Run: func(c *vx.Ctx) *vx.Report {
		sc := &vrt.Scenario{
			Opt:      vrt.Options{RandInt: chooseConnOpt(), Delay: true, HorizonNs: int64(600 * time.Second)},
			Classify: deadlockIs("liveness: blocked forever"),
			Main: func() {
				inact := 10 * time.Second
				r := newMuxRig(rigCfg{conns: 1, unit: 256, inactivity: inact})
				keeper, _ := r.cli.OpenStream()
				keeper.Write([]byte{1})
				s, _ := r.cli.OpenStream()
				s.Write([]byte("request"))
				var wg sync.WaitGroup
				served := 0
				wg.Add(1)
				vrt.Go("server-app", func() {
					defer wg.Done()
					for {
						conn, err := r.srv.Accept()
						if err != nil {
							return
						}
						st := conn.(*Stream)
						if st.id == keeper.id {
							continue // stays open
						}
						served++
						wg.Add(1)
						vrt.Go("serve", func() {
							defer wg.Done()
							// like a relay whose other end speaks first and hangs up: write, then close
							st.Write([]byte("answer"))
							st.Close()
						})
					}
				})
				quiesce()
				delays := []time.Duration{time.Second, inact - time.Second, inact + time.Second, 3 * inact}
				time.Sleep(delays[vrt.Choose(len(delays), "late-by")])
				// the frame that was still in flight when the stream was closed (built by hand: the client's
				// own stream object already knows about the close)
				o, _ := MakeObfuscator(EncryptionMethodPlain, rigKey)
				late := c11Encode(&o, s.id, 1, 0, []byte("late data"), 0)
				r.ca[0].Write(late)
				quiesce()
				time.Sleep(time.Second)
				frames, err := decodeTap(r.net, "b>a", EncryptionMethodPlain)
				if err != nil {
					vrt.Fail("wire-format", "%v", err)
				}
				type ss struct {
					id  uint32
					seq uint64
				}
				seen := map[ss]int{}
				for i, f := range frames {
					k := ss{f.StreamID, f.Seq}
					if j, dup := seen[k]; dup {
						vrt.Fail("unique-seq", "messages %d and %d sent by the accepting side both carry (stream %d, seq %d): after stream %d was closed a late frame re-created it and its numbering restarted (nonce reuse)", j, i, f.StreamID, f.Seq, f.StreamID)
					}
					seen[k] = i
				}
				vrt.Observe("served=%d frames=%d", served, len(frames))
				r.cli.Close()
				wg.Wait()
			},
		}
		return vx.RunSched(c, sc, sigOf("C13"))
	}})
}
