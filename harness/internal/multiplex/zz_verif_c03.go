//go:build verif

package multiplex

import (
	"bytes"
	"errors"

	"github.com/cbeuw/Cloak/internal/vrt"
	"github.com/cbeuw/Cloak/internal/vrt/sync"
	"github.com/cbeuw/Cloak/internal/vx"
)

// C03 driver: one ordered stream; side A (the client) writes `data` bytes and closes; the server
// side reads. Variants: mode=plain (server only reads), simul (server writes `sdata` bytes and closes
// concurrently), local (server closes locally once the client's bytes have arrived, then reads),
// singleplex=1.
func init() {
	vx.Register(&vx.Scenario{Name: "mux.close", Prop: "C03", Run: func(c *vx.Ctx) *vx.Report {
		nconn := c.PI("conns", 2)
		nd, nsd := c.PI("data", 5), c.PI("sdata", 5)
		mode := c.P("mode", "plain")
		rbuf := c.PI("rbuf", 1000)
		method := methodOf(c.P("method", "plain"))
		singleplex := c.P("singleplex", "0") == "1"
		sc := &vrt.Scenario{
			Opt:      vrt.Options{RandInt: chooseConnDraws(c.P("draws", "prf")), Delay: c.P("delay", "0") == "1"},
			Classify: deadlockIs("blocked-calls-return: a Read/Write/Close/Accept never returned"),
			Main: func() {
				r := newMuxRig(rigCfg{conns: nconn, method: method, unit: 256, singleplex: singleplex, wlimit: c.PI("wlimit", 0)})
				data := patternBytes(0, 0, 0, nd)
				sdata := patternBytes(0, 1, 0, nsd)
				var wg sync.WaitGroup
				readAll := func(s *Stream) ([]byte, error) {
					var acc []byte
					b := make([]byte, rbuf)
					for {
						n, err := s.Read(b)
						acc = append(acc, b[:n]...)
						if err != nil {
							return acc, err
						}
						if n == 0 {
							vrt.Fail("read-progress", "Read returned 0, nil")
						}
					}
				}
				var cs *Stream
				cs, err := r.cli.OpenStream()
				if err != nil {
					vrt.Fail("harness", "OpenStream: %v", err)
				}
				if nd == 0 && mode != "plain0" {
					// a stream only exists at the peer once a frame was sent; with no data the closing frame
					// itself opens and closes it
				}
				if mode == "srvinit" {
					// the accepting side writes and closes; the opening side (which only sent one byte) reads
					wg.Add(2)
					vrt.Go("srv-writer", func() {
						defer wg.Done()
						conn, err := r.srv.Accept()
						if err != nil {
							vrt.Fail("harness", "Accept: %v", err)
						}
						ss := conn.(*Stream)
						b := make([]byte, 4)
						ss.Read(b)
						if nd > 0 {
							if n, err := ss.Write(data); err != nil || n != nd {
								vrt.Fail("write-before-close", "server Write(%d) = %d, %v", nd, n, err)
							}
						}
						if err := ss.Close(); err != nil {
							vrt.Fail("close-ok", "server Close returned %v", err)
						}
						if n, err := ss.Write([]byte{0xff}); err == nil {
							vrt.Fail("write-after-close-fails", "Write after Close returned %d, nil", n)
						}
					})
					quiesce()
					vrt.Go("cli-reader", func() {
						defer wg.Done()
						if _, err := cs.Write([]byte{0x42}); err != nil {
							vrt.Fail("harness", "client first write: %v", err)
						}
						got, err := readAll(cs)
						if !errors.Is(err, ErrBrokenStream) {
							vrt.Fail("end-of-stream-error", "client Read ended with %v, want ErrBrokenStream", err)
						}
						if !bytes.Equal(got, data) {
							vrt.Fail("all-bytes-before-eof", "client read %d bytes before end-of-stream, the server wrote %d bytes before Close", len(got), nd)
						}
						if n, err := cs.Write([]byte{1}); err == nil {
							vrt.Fail("write-after-peer-close-fails", "Write after the peer's close was observed returned %d, nil", n)
						}
						vrt.Observe("cli-got=%d", len(got))
					})
					wg.Wait()
					vrt.Observe("srv-initiated")
					return
				}
				startClient := func() {
					wg.Add(1)
					vrt.Go("cli-writer", func() {
						defer wg.Done()
						if c.P("emptywrite", "0") == "1" && nd > 0 {
							// "all payload lengths (including zero bytes)": a zero-length Write writes nothing and uses nothing up
							if n, err := cs.Write(nil); n != 0 || err != nil {
								vrt.Fail("write-before-close", "a zero-length Write returned %d, %v", n, err)
							}
						}
						if nd > 0 {
							n, err := cs.Write(data)
							if c.P("emptywrite", "0") == "1" && err == nil {
								if n0, err0 := cs.Write([]byte{}); n0 != 0 || err0 != nil {
									vrt.Fail("write-before-close", "a zero-length Write after the data returned %d, %v", n0, err0)
								}
							}
							if err != nil || n != nd {
								if mode == "simul" && errors.Is(err, ErrBrokenStream) {
									// the peer's close may legitimately overtake our write
									vrt.Observe("cli-write-refused")
									return
								}
								vrt.Fail("write-before-close", "client Write(%d) = %d, %v", nd, n, err)
							}
						}
						cerr := cs.Close()
						if cerr != nil && !(mode == "simul" && errors.Is(cerr, errRepeatStreamClosing)) {
							vrt.Fail("close-ok", "client Close returned %v", cerr)
						}
						// once a side has closed the stream its writes fail
						if n, err := cs.Write([]byte{0xff}); err == nil {
							vrt.Fail("write-after-close-fails", "Write after Close returned %d, nil", n)
						}
					})
					if mode == "simul" {
						wg.Add(1)
						vrt.Go("cli-reader", func() {
							defer wg.Done()
							got, err := readAll(cs)
							if !errors.Is(err, ErrBrokenStream) {
								vrt.Fail("end-of-stream-error", "client Read ended with %v", err)
							}
							if !bytes.HasPrefix(sdata, got) {
								vrt.Fail("prefix-on-simultaneous-close", "client read %x which is not a prefix of %x", got, sdata)
							}
							vrt.Observe("cli-got=%d", len(got))
						})
					}
				}
				wg.Add(1)
				vrt.Go("srv", func() {
					defer wg.Done()
					conn, err := r.srv.Accept()
					if err != nil {
						vrt.Fail("all-bytes-before-eof", "Accept refused (%v) the stream on which the client wrote %d bytes before Close: they are lost", err, nd)
					}
					ss := conn.(*Stream)
					switch mode {
					case "plain":
						got, err := readAll(ss)
						if !errors.Is(err, ErrBrokenStream) {
							vrt.Fail("end-of-stream-error", "server Read ended with %v, want ErrBrokenStream", err)
						}
						if !bytes.Equal(got, data) {
							vrt.Fail("all-bytes-before-eof", "server read %d bytes %x before end-of-stream, the client wrote %d bytes before Close", len(got), trunc(got), nd)
						}
						// having processed the peer's close, writes fail
						if n, err := ss.Write([]byte{1}); err == nil {
							vrt.Fail("write-after-peer-close-fails", "Write after the peer's close was observed returned %d, nil", n)
						}
						vrt.Observe("srv-got=%d", len(got))
					case "simul":
						wg.Add(1)
						vrt.Go("srv-writer", func() {
							defer wg.Done()
							if nsd > 0 {
								if _, err := ss.Write(sdata); err != nil && !errors.Is(err, ErrBrokenStream) {
									vrt.Fail("write-before-close", "server Write: %v", err)
								}
							}
							if err := ss.Close(); err != nil && !errors.Is(err, errRepeatStreamClosing) {
								vrt.Fail("close-ok", "server Close returned %v", err)
							}
							if n, err := ss.Write([]byte{0xff}); err == nil {
								vrt.Fail("write-after-close-fails", "Write after Close returned %d, nil", n)
							}
						})
						got, err := readAll(ss)
						if !errors.Is(err, ErrBrokenStream) {
							vrt.Fail("end-of-stream-error", "server Read ended with %v", err)
						}
						if !bytes.HasPrefix(data, got) {
							vrt.Fail("prefix-on-simultaneous-close", "server read %x which is not a prefix of %x", trunc(got), trunc(data))
						}
						vrt.Observe("srv-got=%d", len(got))
					case "local":
						// wait until whatever the client sent has arrived, note how much is buffered, close
						// locally: what had already arrived must remain readable
						quiesce()
						sb := ss.recvBuf.(*streamBuffer)
						buffered := append([]byte{}, sb.buf.buf.Bytes()...)
						cerr := ss.Close()
						if cerr != nil && !errors.Is(cerr, errRepeatStreamClosing) {
							vrt.Fail("close-ok", "server Close returned %v", cerr)
						}
						got, err := readAll(ss)
						if !errors.Is(err, ErrBrokenStream) {
							vrt.Fail("end-of-stream-error", "server Read ended with %v", err)
						}
						if !bytes.Equal(got, buffered) {
							vrt.Fail("buffered-bytes-survive-local-close", "%d bytes had arrived before the local Close, %d were readable afterwards", len(buffered), len(got))
						}
						vrt.Observe("srv-local-got=%d", len(got))
					}
				})
				// by default the server's accept loop is already waiting when traffic starts; lateaccept=1
				// lets the scheduler run the whole client side (data, closing frame, and in singleplex mode
				// the session-closing notice) before the first Accept: the stream and its bytes must still
				// be handed out (finding F15)
				if c.P("lateaccept", "0") != "1" {
					quiesce()
				}
				startClient()
				wg.Wait()
				quiesce()
				if mode != "srvinit" {
					// a singleplex session closes with its single stream; a multiplexed one stays up
					if singleplex && (!r.cli.IsClosed() || !r.srv.IsClosed()) {
						vrt.Fail("singleplex-closes-with-its-stream", "singleplex: after the stream was closed, client session closed=%v, server session closed=%v", r.cli.IsClosed(), r.srv.IsClosed())
					}
					if !singleplex && (r.cli.IsClosed() || r.srv.IsClosed()) {
						vrt.Fail("session-survives-stream-close", "closing one stream closed a multiplexed session: client=%v (%q) server=%v (%q)", r.cli.IsClosed(), r.cli.TerminalMsg(), r.srv.IsClosed(), r.srv.TerminalMsg())
					}
				}
				vrt.Observe("cliClosed=%v srvClosed=%v", r.cli.IsClosed(), r.srv.IsClosed())
			},
		}
		return vx.RunSched(c, sc, sigOf("C03"))
	}})

	vx.RegisterJobs("C03", func(tier string) []vx.Job {
		q := tier == "quick"
		b := func(quick, thorough int) int {
			if q {
				return quick
			}
			return thorough
		}
		jobs := []vx.Job{
			{Scenario: "mux.close", Params: vx.P("data", "0"), Bound: b(2, 3), Weight: 3},
			{Scenario: "mux.close", Params: vx.P("data", "5"), Bound: b(2, 3), Weight: 5},
			{Scenario: "mux.close", Params: vx.P("data", "5", "emptywrite", "1"), Bound: b(1, 2), Weight: 4},
			{Scenario: "mux.close", Params: vx.P("data", "300", "conns", "3", "emptywrite", "1", "delay", "1"), Bound: b(1, 2), Weight: 6},
			{Scenario: "mux.close", Params: vx.P("data", "600", "rbuf", "100"), Bound: b(1, 2), Weight: 9},
			{Scenario: "mux.close", Params: vx.P("data", "300", "conns", "3", "delay", "1"), Bound: b(2, 3), Weight: 8},
			{Scenario: "mux.close", Params: vx.P("data", "300", "conns", "1"), Bound: b(2, 3), Weight: 4},
			{Scenario: "mux.close", Params: vx.P("data", "300", "conns", "2", "pool", "recycle", "delay", "1"), Bound: b(2, 3), Weight: 5},
			{Scenario: "mux.close", Params: vx.P("data", "300", "conns", "2", "wlimit", "1", "mode", "simul", "sdata", "300", "delay", "1"), Bound: b(1, 2), Weight: 8},
			{Scenario: "mux.close", Params: vx.P("data", "5", "conns", "1", "crosscheck", "1"), Bound: 1, Weight: 4},
			{Scenario: "mux.close", Params: vx.P("data", "5", "sdata", "5", "mode", "simul", "delay", "1"), Bound: b(2, 3), Weight: 9},
			{Scenario: "mux.close", Params: vx.P("data", "5", "sdata", "5", "mode", "simul", "conns", "1"), Bound: b(1, 2), Weight: 9},
			{Scenario: "mux.close", Params: vx.P("data", "300", "sdata", "0", "mode", "simul", "delay", "1"), Bound: b(2, 3), Weight: 8},
			{Scenario: "mux.close", Params: vx.P("data", "300", "mode", "local"), Bound: b(1, 2), Weight: 6},
			{Scenario: "mux.close", Params: vx.P("data", "5", "singleplex", "1", "conns", "1"), Bound: b(2, 3), Weight: 4},
			{Scenario: "mux.close", Params: vx.P("data", "300", "method", "aes-128-gcm"), Bound: b(1, 2), Weight: 5},
			{Scenario: "mux.close", Params: vx.P("data", "5", "draws", "max"), Bound: b(1, 2), Weight: 4},
			{Scenario: "mux.close", Params: vx.P("data", "5", "draws", "min", "method", "aes-256-gcm"), Bound: b(1, 2), Weight: 4},
			{Scenario: "mux.close", Params: vx.P("data", "5", "sdata", "5", "mode", "simul", "draws", "max", "conns", "1"), Bound: b(1, 2), Weight: 5},
			{Scenario: "mux.close", Params: vx.P("data", "5", "singleplex", "1", "conns", "1", "lateaccept", "1"), Bound: b(2, 3), Weight: 5},
			{Scenario: "mux.close", Params: vx.P("data", "300", "conns", "2", "lateaccept", "1", "delay", "1"), Bound: b(2, 3), Weight: 6},
			{Scenario: "e2e.route", Params: vx.P("numconn", "0", "apps", "1", "sizes", "5", "forget", "1"), Bound: b(2, 2), Weight: 9},
			{Scenario: "e2e.route", Params: vx.P("numconn", "2", "apps", "2", "sizes", "5,3", "forget", "1"), Bound: b(1, 2), Weight: 9},
			{Scenario: "mux.wclose", Params: vx.P("writers", "2", "len", "5", "conns", "1"), Bound: b(2, 3), Weight: 8},
			{Scenario: "mux.wclose", Params: vx.P("writers", "2", "len", "5", "conns", "2", "delay", "1"), Bound: b(2, 3), Weight: 6},
			{Scenario: "mux.wclose", Params: vx.P("writers", "1", "len", "600", "conns", "2"), Bound: b(1, 2), Weight: 8},
			// a Close (or a Write) that is the first operation to meet a connection fault: parked readers return
			{Scenario: "mux.faultsend", Params: vx.P("conns", "2"), Bound: b(1, 2), Weight: 5},
			{Scenario: "mux.readfromclose", Params: vx.P("conns", "1"), Bound: b(2, 4), Weight: 3},
			// several Reads parked on one stream when it is closed (by the peer, locally, with the session): all return
			{Scenario: "mux.parkedreaders", Params: vx.P("readers", "3"), Bound: b(1, 2), Weight: 3},
			// "never a lost tail ... whichever connections the data and the closing notice travel on": a connection lagging by thousands of frames
			{Scenario: "sesh.lag", Bound: 0, Weight: 3},
			// a local close of a stream holding 20 MiB unread returns (and its closing frame goes out)
			{Scenario: "mux.backlog", Params: vx.P("mb", "20", "close", "1"), Bound: b(0, 1), Weight: 4},
			{Scenario: "mux.readfromclose", Params: vx.P("conns", "2"), Bound: b(2, 3), Weight: 3},
			{Scenario: "mux.stalledwriter", Params: vx.P("via", "write"), Bound: b(2, 3), Weight: 2},
			{Scenario: "mux.stalledwriter", Params: vx.P("via", "readfrom"), Bound: b(2, 3), Weight: 2},
			{Scenario: "mux.close", Params: vx.P("data", "300", "mode", "srvinit"), Bound: b(2, 3), Weight: 6},
			{Scenario: "mux.close", Params: vx.P("data", "0", "mode", "srvinit", "conns", "3", "delay", "1"), Bound: b(2, 3), Weight: 6},
		}
		for i := range jobs {
			jobs[i].BudgetS = b(100, 900)
		}
		return jobs
	})
}

func trunc(b []byte) []byte {
	if len(b) > 24 {
		return b[:24]
	}
	return b
}
