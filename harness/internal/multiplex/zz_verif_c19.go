//go:build verif

package multiplex

import (
	"fmt"

	"github.com/cbeuw/Cloak/internal/vnet"
	"github.com/cbeuw/Cloak/internal/vrt"
	"github.com/cbeuw/Cloak/internal/vrt/sync"
	"github.com/cbeuw/Cloak/internal/vrt/time"
	"github.com/cbeuw/Cloak/internal/vx"
)

// recValve records, on the virtual clock, when the limiter let bytes through (after rxWait / txWait
// returned): that is the instant the server accepts / is about to send them.
type recValve struct {
	*LimitedValve
	rx, tx []rateEv
}
type rateEv struct {
	at int64
	n  int
}

func (v *recValve) rxWait(n int) {
	v.LimitedValve.rxWait(n)
	if n > 0 {
		v.rx = append(v.rx, rateEv{vrt.NowNs(), n})
	}
}
func (v *recValve) txWait(n int) {
	v.LimitedValve.txWait(n)
	v.tx = append(v.tx, rateEv{vrt.NowNs(), n})
}

// checkEnvelope: for every pair of events the bytes let through in (t_i, t_j] stay within
// 1.01*rate*(t_j-t_i) + rate; and from the start within 1.01*rate*t_j + rate.
func checkEnvelope(dir string, evs []rateEv, rate int64) {
	// a single message is atomic: the largest one is granted on top of the burst
	maxMsg := int64(0)
	for _, e := range evs {
		if int64(e.n) > rate && int64(e.n) > maxMsg {
			maxMsg = int64(e.n)
		}
	}
	for i := -1; i < len(evs); i++ {
		var t0 int64
		if i >= 0 {
			t0 = evs[i].at
		}
		sum := int64(0)
		for j := i + 1; j < len(evs); j++ {
			sum += int64(evs[j].n)
			dt := float64(evs[j].at-t0) / 1e9
			limit := 1.01*float64(rate)*dt + float64(rate) + float64(maxMsg) + 1
			if float64(sum) > limit {
				vrt.Fail("rate-envelope", "%s: %d bytes passed the limiter in an interval of %.4fs (events %d..%d), limit %.0f at rate %d B/s", dir, sum, dt, i+1, j, limit, rate)
			}
		}
	}
}

// C19 driver: `senders` threads, each with its own session, connection and stream, all sharing one
// LimitedValve, push `count` messages of `size` payload bytes. dir=tx: the limited (server) side
// sends; dir=rx: the peers send and the limited side receives.
func init() {
	vx.Register(&vx.Scenario{Name: "mux.rate", Prop: "C19", Run: func(c *vx.Ctx) *vx.Report {
		senders, count, size := c.PI("senders", 2), c.PI("count", 3), c.PI("size", 100)
		rate := int64(c.PI("rate", 1000))
		dir := c.P("dir", "tx")
		sc := &vrt.Scenario{
			Opt:      vrt.Options{HorizonNs: int64(600 * time.Second), Delay: c.P("delay", "0") == "1"},
			Classify: deadlockIs("work-conserving: a sender never finished"),
			Main: func() {
				// the two directions get different rates: the other one is four times as fast, so a valve that
				// feeds a direction from the wrong bucket shows in the envelope or in the finishing time
				rxRate, txRate := rate, rate
				if c.P("asym", "0") == "1" {
					if dir == "rx" {
						txRate = 4 * rate
					} else {
						rxRate = 4 * rate
					}
				}
				valve := &recValve{LimitedValve: MakeValve(rxRate, txRate)}
				net := vnet.New()
				var wg sync.WaitGroup
				var finish int64
				totalPayload := 0
				for k := 0; k < senders; k++ {
					k := k
					o, _ := MakeObfuscator(EncryptionMethodPlain, rigKey)
					srv := MakeSession(uint32(k), SessionConfig{Obfuscator: o, Valve: valve, InactivityTimeout: 1000 * time.Hour})
					cli := MakeSession(uint32(k), SessionConfig{Obfuscator: o, InactivityTimeout: 1000 * time.Hour})
					a, b := net.Pair(fmt.Sprintf("s%d", k), true)
					srv.AddConnection(b)
					cli.AddConnection(a)
					from, to := srv, cli
					if dir == "rx" {
						from, to = cli, srv
					}
					totalPayload += count * size
					wg.Add(2)
					vrt.Go(fmt.Sprintf("sender%d", k), func() {
						defer wg.Done()
						st, err := from.OpenStream()
						if err != nil {
							vrt.Fail("harness", "OpenStream: %v", err)
						}
						for i := 0; i < count; i++ {
							if _, err := st.Write(make([]byte, size)); err != nil {
								vrt.Fail("no-error", "Write: %v", err)
							}
						}
					})
					vrt.Go(fmt.Sprintf("receiver%d", k), func() {
						defer wg.Done()
						cn, err := to.Accept()
						if err != nil {
							vrt.Fail("harness", "Accept: %v", err)
						}
						got := 0
						buf := make([]byte, 4096)
						for got < count*size {
							n, err := cn.Read(buf)
							if err != nil {
								vrt.Fail("no-error", "Read: %v", err)
							}
							got += n
						}
						if t := vrt.NowNs(); t > finish {
							finish = t
						}
					})
				}
				wg.Wait()
				// tx: the instants bytes actually leave towards the client (network tap); rx: the instants the
				// limiter lets received bytes through to the session
				var evs []rateEv
				if dir == "rx" {
					evs = valve.rx
				} else {
					for _, t := range net.Tap {
						if t.Dir == "b>a" {
							evs = append(evs, rateEv{t.VT, len(t.Data)})
						}
					}
				}
				checkEnvelope(dir, evs, rate)
				// what the limiter counted is what crossed the network in that direction
				wire := int64(0)
				want := "b>a"
				if dir == "rx" {
					want = "a>b"
				}
				for _, t := range net.Tap {
					if t.Dir == want {
						wire += int64(len(t.Data))
					}
				}
				passed := int64(0)
				for _, e := range evs {
					passed += int64(e.n)
				}
				if passed != wire {
					vrt.Fail("all-bytes-metered", "%d bytes crossed the network (%s) but %d passed the limiter", wire, want, passed)
				}
				// work conservation: N bytes are through by (N-burst)/(0.99 rate) plus one message time
				maxT := (float64(wire)-float64(rate))/(0.99*float64(rate)) + float64(size+300)/float64(rate) + 0.02
				if size > int(rate) {
					maxT += float64(size+300) / float64(rate) // the last oversized message also waits for its own debt
				}
				if maxT < 0.02 {
					maxT = 0.02
				}
				if float64(finish)/1e9 > maxT {
					vrt.Fail("work-conserving", "%d bytes at %d B/s took %.3fs of virtual time, more than the %.3fs a backlogged sender needs", wire, rate, float64(finish)/1e9, maxT)
				}
				vrt.Observe("wire=%d t=%.2fs", wire, float64(finish)/1e9)
			},
		}
		return vx.RunSched(c, sc, nil)
	}})

	vx.RegisterJobs("C19", func(tier string) []vx.Job {
		q := tier == "quick"
		b := func(quick, thorough int) int {
			if q {
				return quick
			}
			return thorough
		}
		var jobs []vx.Job
		for _, dir := range []string{"tx", "rx"} {
			jobs = append(jobs,
				vx.Job{Scenario: "mux.rate", Params: vx.P("dir", dir, "senders", "1", "count", "6", "size", "300", "rate", "1000"), Bound: b(2, 3), Weight: 4},
				vx.Job{Scenario: "mux.rate", Params: vx.P("dir", dir, "senders", "2", "count", "3", "size", "300", "rate", "1000"), Bound: b(1, 2), Weight: 9},
				vx.Job{Scenario: "mux.rate", Params: vx.P("dir", dir, "senders", "2", "count", "4", "size", "400", "rate", "4096", "delay", "1"), Bound: b(2, 3), Weight: 8},
				vx.Job{Scenario: "mux.rate", Params: vx.P("dir", dir, "senders", "3", "count", "2", "size", "1", "rate", "1000", "delay", "1"), Bound: b(2, 3), Weight: 8},
				vx.Job{Scenario: "mux.rate", Params: vx.P("dir", dir, "senders", "2", "count", "3", "size", "16000", "rate", "1000000", "delay", "1"), Bound: b(2, 3), Weight: 7},
			)
		}
		for _, dir := range []string{"tx", "rx"} {
			// messages larger than one second's allowance: the long-run rate must still hold
			jobs = append(jobs, vx.Job{Scenario: "mux.rate", Params: vx.P("dir", dir, "senders", "1", "count", "4", "size", "3000", "rate", "1000"), Bound: b(1, 2), Weight: 5})
			jobs = append(jobs, vx.Job{Scenario: "mux.rate", Params: vx.P("dir", dir, "senders", "2", "count", "3", "size", "300", "rate", "1000", "asym", "1"), Bound: b(1, 2), Weight: 6})
			jobs = append(jobs, vx.Job{Scenario: "mux.rate", Params: vx.P("dir", dir, "senders", "2", "count", "2", "size", "16000", "rate", "4000", "delay", "1"), Bound: b(1, 2), Weight: 6})
			// rates that are not a round number, with a backlog of several seconds
			jobs = append(jobs, vx.Job{Scenario: "mux.rate", Params: vx.P("dir", dir, "senders", "1", "count", "12", "size", "2000", "rate", "4096"), Bound: b(1, 2), Weight: 4})
			jobs = append(jobs, vx.Job{Scenario: "mux.rate", Params: vx.P("dir", dir, "senders", "2", "count", "5", "size", "600", "rate", "1200", "delay", "1"), Bound: b(1, 2), Weight: 4})
		}
		jobs = append(jobs, vx.Job{Scenario: "panel.valve", Weight: 1})
		jobs = append(jobs, vx.Job{Scenario: "panel.valve.sched", Bound: b(2, 3), Weight: 4})
		jobs = append(jobs, vx.Job{Scenario: "panel.valve.sched", Params: vx.P("round", "1", "conns", "2"), Bound: b(2, 3), Weight: 5})
		jobs = append(jobs, vx.Job{Scenario: "panel.valve.sched", Params: vx.P("lastclose", "1", "conns", "2"), Bound: b(2, 3), Weight: 5})
		jobs = append(jobs, vx.Job{Scenario: "panel.valve.sched", Params: vx.P("lastclose", "1", "conns", "3"), Bound: b(1, 2), Weight: 6})
		for i := range jobs {
			jobs[i].BudgetS = b(100, 900)
		}
		return jobs
	})
}

// VerifValveRates exposes a limited valve's bucket parameters to the server-side harness.
func VerifValveRates(v Valve) (rxRate, txRate float64, rxCap, txCap int64, ok bool) {
	lv, is := v.(*LimitedValve)
	if !is {
		return 0, 0, 0, 0, false
	}
	return lv.rxtb.Rate(), lv.txtb.Rate(), lv.rxtb.Capacity(), lv.txtb.Capacity(), true
}
