//go:build verif

package multiplex

import (
	"bytes"
	"fmt"

	"github.com/cbeuw/Cloak/internal/common"
	"github.com/cbeuw/Cloak/internal/vrt"
	"github.com/cbeuw/Cloak/internal/vrt/sync"
	"github.com/cbeuw/Cloak/internal/vrt/time"
	"github.com/cbeuw/Cloak/internal/vx"
)

// addTLSPair attaches one more connection whose two ends are TLSConn wrappers over a vnet byte
// stream (so that a fault can land inside a record).
func (r *muxRig) addTLSPair() {
	a, b := r.net.Pair(fmt.Sprintf("c%d", len(r.ca)), false)
	r.ca = append(r.ca, a)
	r.sa = append(r.sa, b)
	r.srv.AddConnection(common.NewTLSConn(b))
	r.cli.AddConnection(common.NewTLSConn(a))
}

// C12 driver (a): a fault (connection reset, in-record EOF, or Session.Close by either side) hits a
// session pair during open/transfer/close. After every harness thread has returned (a thread that
// never returns is the DEADLOCK outcome) the teardown clauses are checked.
//
// params: conns, streams, frames (frames written per stream), fault = reset<i> | cut<i>:<k> |
// cliclose | srvclose, closer=1 (writers close their stream after writing), tls=1.
func init() {
	vx.Register(&vx.Scenario{Name: "mux.fault", Prop: "C12", Run: func(c *vx.Ctx) *vx.Report {
		nconn, nstream, nframes := c.PI("conns", 2), c.PI("streams", 1), c.PI("frames", 2)
		fault := c.P("fault", "reset0")
		closer := c.P("closer", "0") == "1"
		tls := c.P("tls", "0") == "1"
		late := c.P("lateopen", "0") == "1"
		srvFrames := c.PI("srvwrite", 0) // the accepting side also writes this many frames on each stream: either side's send may be the first to meet the fault
		sc := &vrt.Scenario{
			Opt:      vrt.Options{RandInt: chooseConnOpt(), Delay: c.P("delay", "0") == "1"},
			Classify: deadlockIs("blocked-calls-return: a Read/Write/Accept/Close never returned after the fault"),
			Main: func() {
				r := newMuxRig(rigCfg{conns: 0, unit: 256, wlimit: c.PI("wlimit", 0)})
				for i := 0; i < nconn; i++ {
					if tls {
						r.addTLSPair()
					} else {
						r.addPair()
					}
				}
				var wg sync.WaitGroup
				total := nframes * 256
				got := map[int][]byte{}
				readToErr := func(s *Stream) []byte {
					var acc []byte
					b := make([]byte, 300)
					for {
						n, err := s.Read(b)
						acc = append(acc, b[:n]...)
						if err != nil {
							return acc
						}
					}
				}
				wg.Add(1)
				vrt.Go("srv-accept", func() {
					defer wg.Done()
					for {
						conn, err := r.srv.Accept()
						if err != nil {
							return
						}
						s := conn.(*Stream)
						if srvFrames > 0 {
							wg.Add(1)
							vrt.Go("srv-write", func() {
								defer wg.Done()
								for k := 0; k < srvFrames; k++ {
									if _, err := s.Write(patternBytes(0, 1, k*256, 256)); err != nil {
										return
									}
								}
							})
						}
						wg.Add(1)
						vrt.Go("srv-read", func() {
							defer wg.Done()
							acc := readToErr(s)
							if len(acc) > 0 {
								idx := int(acc[0] >> 6)
								if _, dup := got[idx]; dup {
									vrt.Fail("stream-isolation", "two accepted streams start with the tag of client stream %d", idx)
								}
								got[idx] = acc
							}
						})
					}
				})
				quiesce()
				for i := 0; i < nstream; i++ {
					i := i
					wg.Add(1)
					vrt.Go(fmt.Sprintf("cli-write%d", i), func() {
						defer wg.Done()
						s, err := r.cli.OpenStream()
						if err != nil {
							return
						}
						wg.Add(1)
						vrt.Go(fmt.Sprintf("cli-read%d", i), func() {
							defer wg.Done()
							if acc := readToErr(s); !bytes.HasPrefix(patternBytes(0, 1, 0, srvFrames*256), acc) {
								vrt.Fail("prefix-only", "client stream %d read %d bytes that are not a prefix of the %d the server wrote", i, len(acc), srvFrames*256)
							}
						})
						for k := 0; k < nframes; k++ {
							if _, err := s.Write(patternBytes(i, 0, k*256, 256)); err != nil {
								break
							}
						}
						if closer {
							s.Close()
						}
					})
				}
				wg.Add(1)
				vrt.Go("fault:"+fault, func() {
					defer wg.Done()
					var i, k int
					switch {
					case fault == "cliclose":
						r.cli.Close()
					case fault == "srvclose":
						r.srv.Close()
					case fault == "none":
					default:
						if fault == "reset01" {
							// two connections fail one after the other (a third stays healthy)
							r.sa[0].Reset()
							r.sa[1].Reset()
						} else if n, _ := fmt.Sscanf(fault, "reset%d", &i); n == 1 {
							r.sa[i].Reset()
						} else if n, _ := fmt.Sscanf(fault, "cut%d:%d", &i, &k); n == 2 {
							r.sa[i].CutAfter(k)
						} else {
							panic("bad fault " + fault)
						}
					}
				})
				wg.Wait()
				quiesce()
				if fault == "none" {
					vrt.Observe("no fault")
					return
				}
				// --- teardown clauses
				for i := 0; i < nstream; i++ {
					want := patternBytes(i, 0, 0, total)
					if !bytes.HasPrefix(want, got[i]) {
						vrt.Fail("prefix-only", "server stream %d read %d bytes that are not a prefix of what was written", i, len(got[i]))
					}
				}
				if !r.cli.IsClosed() || !r.srv.IsClosed() {
					vrt.Fail("both-sessions-closed", "after %s: client closed=%v server closed=%v", fault, r.cli.IsClosed(), r.srv.IsClosed())
				}
				for _, sess := range []*Session{r.cli, r.srv} {
					if s, err := sess.OpenStream(); err == nil {
						vrt.Fail("new-streams-refused", "OpenStream on a torn-down session returned stream %d, nil", s.id)
					}
					if _, err := sess.Accept(); err == nil {
						vrt.Fail("new-streams-refused", "Accept on a torn-down session returned a stream")
					}
				}
				for _, cn := range append(append([]*vnetConn{}, r.ca...), r.sa...) {
					if !cn.IsClosed() {
						vrt.Fail("all-conns-closed", "connection end %s is still open after teardown", cn.Name)
					}
				}
				if late {
					_ = time.Second
				}
				n := 0
				for _, g := range got {
					n += len(g)
				}
				vrt.Observe("delivered=%d/%d cli=%q srv=%q", n, total*nstream, r.cli.TerminalMsg(), r.srv.TerminalMsg())
			},
		}
		return vx.RunSched(c, sc, sigOf("C12"))
	}})

	// driver (a2): the fault is met by senders first. One connection is reset while both sides are idle;
	// before any receive loop has run, one side or both (every order) write on their stream, and the
	// switchboard may pick the dead connection (explorer choice). However the failure is noticed, both
	// sessions end up closed, every connection end closed, and the parked readers return.
	vx.Register(&vx.Scenario{Name: "mux.faultsend", Prop: "C12", Run: func(c *vx.Ctx) *vx.Report {
		nconn := c.PI("conns", 2)
		sc := &vrt.Scenario{
			Opt:      vrt.Options{RandInt: chooseConnOpt(), Delay: true},
			Classify: deadlockIs("blocked-calls-return: a Read never returned after the fault"),
			Main: func() {
				r := newMuxRig(rigCfg{conns: nconn, unit: 256})
				cs, err := r.cli.OpenStream()
				if err != nil {
					vrt.Fail("harness", "OpenStream: %v", err)
				}
				cs.Write([]byte{1})
				conn, err := r.srv.Accept()
				if err != nil {
					vrt.Fail("harness", "Accept: %v", err)
				}
				ss := conn.(*Stream)
				var wg sync.WaitGroup
				for _, st := range []*Stream{cs, ss} {
					st := st
					wg.Add(1)
					vrt.Go("reader", func() {
						defer wg.Done()
						b := make([]byte, 64)
						for {
							if _, err := st.Read(b); err != nil {
								return
							}
						}
					})
				}
				quiesce()
				k := vrt.Choose(nconn, "which-connection-fails")
				order := vrt.Choose(8, "who-sends")
				r.sa[k].Reset()
				switch order {
				case 4:
					// the first operation to meet the fault is a stream Close (its closing frame cannot be written)
					cs.Close()
				case 5:
					ss.Close()
					cs.Write([]byte{2})
				case 6:
					// the application closes the session before any receive loop has noticed the fault
					r.cli.Close()
				case 7:
					r.srv.Close()
					r.cli.Close()
				case 0:
					cs.Write([]byte{2})
					ss.Write([]byte{3})
				case 1:
					ss.Write([]byte{3})
					cs.Write([]byte{2})
				case 2:
					cs.Write([]byte{2})
				case 3:
					ss.Write([]byte{3})
				}
				wg.Wait()
				quiesce()
				if !r.cli.IsClosed() || !r.srv.IsClosed() {
					vrt.Fail("both-sessions-closed", "connection %d reset, senders %d: client closed=%v server closed=%v", k, order, r.cli.IsClosed(), r.srv.IsClosed())
				}
				for _, cn := range append(append([]*vnetConn{}, r.ca...), r.sa...) {
					if !cn.IsClosed() {
						vrt.Fail("all-conns-closed", "connection %d reset and first met by a sender (order %d): connection end %s is still open after teardown", k, order, cn.Name)
					}
				}
				vrt.Observe("k=%d order=%d cli=%q srv=%q", k, order, r.cli.TerminalMsg(), r.srv.TerminalMsg())
			},
		}
		return vx.RunSched(c, sc, sigOf("C12"))
	}})

	// driver (b): Session.Close racing OpenStream / Stream ops on the same side; orphan detection
	vx.Register(&vx.Scenario{Name: "mux.closerace", Prop: "C12", Run: func(c *vx.Ctx) *vx.Report {
		op := c.P("op", "open")
		sc := &vrt.Scenario{
			Opt:      vrt.Options{RandInt: chooseConnOpt(), Delay: c.P("delay", "0") == "1"},
			Classify: deadlockIs("blocked-calls-return: a call never returned after Session.Close"),
			Main: func() {
				r := newMuxRig(rigCfg{conns: c.PI("conns", 1), unit: 256})
				var wg sync.WaitGroup
				var pre *Stream
				if op != "open" {
					var err error
					pre, err = r.cli.OpenStream()
					if err != nil {
						vrt.Fail("harness", "OpenStream: %v", err)
					}
					pre.Write(patternBytes(0, 0, 0, 10))
					quiesce()
				}
				wg.Add(2)
				vrt.Go("closer", func() {
					defer wg.Done()
					r.cli.Close()
				})
				vrt.Go("op:"+op, func() {
					defer wg.Done()
					switch op {
					case "open":
						s, err := r.cli.OpenStream()
						if err != nil {
							vrt.Observe("open-refused")
							return
						}
						// a stream handed out must not be orphaned: its Read has to return once the
						// session is closed
						b := make([]byte, 8)
						_, rerr := s.Read(b)
						_, werr := s.Write([]byte{1})
						vrt.Observe("open-ok read=%v write=%v", rerr, werr != nil)
					case "read":
						b := make([]byte, 8)
						_, err := pre.Read(b)
						vrt.Observe("read=%v", err)
					case "write":
						_, err := pre.Write(patternBytes(0, 0, 10, 300))
						vrt.Observe("write-err=%v", err != nil)
					case "sclose":
						err := pre.Close()
						vrt.Observe("sclose-err=%v", err != nil)
					}
				})
				wg.Wait()
				quiesce()
				if !r.cli.IsClosed() || !r.srv.IsClosed() {
					vrt.Fail("both-sessions-closed", "client closed=%v server closed=%v", r.cli.IsClosed(), r.srv.IsClosed())
				}
				// (the stream counter is only specified for live sessions; nothing is asked of it here)
				for _, cn := range append(append([]*vnetConn{}, r.ca...), r.sa...) {
					if !cn.IsClosed() {
						vrt.Fail("all-conns-closed", "connection end %s is still open after teardown", cn.Name)
					}
				}
			},
		}
		return vx.RunSched(c, sc, sigOf("C12"))
	}})

	// driver (c): the stream counter at quiescent moments of a live session
	vx.Register(&vx.Scenario{Name: "mux.count", Prop: "C12", Run: func(c *vx.Ctx) *vx.Report {
		sc := &vrt.Scenario{
			Opt:      vrt.Options{RandInt: chooseConnDraws(c.P("draws", "prf")), Delay: c.P("delay", "0") == "1"},
			Classify: deadlockIs("blocked-calls-return"),
			Main: func() {
				r := newMuxRig(rigCfg{conns: c.PI("conns", 2), unit: 256})
				var wg sync.WaitGroup
				// three client streams: A stays open, B is closed by the client, C is closed by the server;
				// the closes race with each other and with data
				open := map[string]bool{}
				var srvStreams []*Stream
				wg.Add(1)
				vrt.Go("srv-accept", func() {
					defer wg.Done()
					for k := 0; k < 3; k++ {
						conn, err := r.srv.Accept()
						if err != nil {
							vrt.Fail("no-error-on-healthy-session", "Accept: %v", err)
						}
						s := conn.(*Stream)
						srvStreams = append(srvStreams, s)
						b := make([]byte, 4)
						n, _ := s.Read(b)
						if n > 0 && b[0]>>6 == 2 {
							s.Close() // server closes stream C
						}
					}
				})
				quiesce()
				for i, name := range []string{"A", "B", "C"} {
					i, name := i, name
					wg.Add(1)
					vrt.Go("cli-"+name, func() {
						defer wg.Done()
						s, err := r.cli.OpenStream()
						if err != nil {
							vrt.Fail("no-error-on-healthy-session", "OpenStream: %v", err)
						}
						s.Write(patternBytes(i, 0, 0, 3))
						open[name] = true
						if name == "B" {
							s.Close()
							open[name] = false
						}
					})
				}
				wg.Wait()
				quiesce()
				// expected: A open on both sides; B, C closed on both sides
				for _, x := range []struct {
					name string
					s    *Session
				}{{"client", r.cli}, {"server", r.srv}} {
					if x.s.IsClosed() {
						vrt.Fail("session-stays-up", "%s session closed: %q", x.name, x.s.TerminalMsg())
					}
					live := 0
					x.s.streamsM.Lock()
					for _, st := range x.s.streams {
						if st != nil && !st.isClosed() {
							live++
						}
					}
					x.s.streamsM.Unlock()
					if cnt := int(x.s.streamCount()); cnt != live || live != 1 {
						vrt.Fail("stream-count", "%s: activeStreamCount=%d, streams actually open=%d, expected 1", x.name, cnt, live)
					}
				}
				vrt.Observe("ok")
			},
		}
		return vx.RunSched(c, sc, sigOf("C12"))
	}})

	// driver (d): inactivity timer racing the opening / accepting / closing of the last stream
	vx.Register(&vx.Scenario{Name: "mux.timeout", Prop: "C12", Run: func(c *vx.Ctx) *vx.Report {
		op := c.P("op", "open")
		sc := &vrt.Scenario{
			Opt:      vrt.Options{RandInt: chooseConnDraws(c.P("draws", "prf")), HorizonNs: int64(100 * time.Second)},
			Classify: deadlockIs("blocked-calls-return"),
			Main: func() {
				T := 10 * time.Second
				r := newMuxRig(rigCfg{conns: 1, unit: 256, inactivity: T})
				var wg sync.WaitGroup
				var s *Stream
				var oerr error
				openedAt, closedSeen := int64(-1), false
				wg.Add(1)
				vrt.Go("user", func() {
					defer wg.Done()
					switch op {
					case "open":
						time.Sleep(T) // due at the same instant as the timer
						s, oerr = r.cli.OpenStream()
						if oerr == nil {
							openedAt = vrt.NowNs()
							closedSeen = r.cli.IsClosed()
							s.Write([]byte{1, 2, 3})
						}
					case "reopen":
						// open and close a stream early: the close re-arms the timer at t1+T; a new stream is
						// opened exactly when that timer fires
						time.Sleep(3 * time.Second)
						s0, err := r.cli.OpenStream()
						if err != nil {
							vrt.Fail("no-error-on-healthy-session", "OpenStream: %v", err)
						}
						s0.Write([]byte{9})
						s0.Close()
						time.Sleep(T)
						s, oerr = r.cli.OpenStream()
						if oerr == nil {
							openedAt = vrt.NowNs()
							s.Write([]byte{1, 2, 3})
						}
					case "accept":
						// the accepting side is idle (the client's only open stream has never carried a frame);
						// the first frame of a new stream reaches it at the very instant its timer fires
						keeper, err := r.cli.OpenStream()
						if err != nil {
							vrt.Fail("no-error-on-healthy-session", "OpenStream: %v", err)
						}
						_ = keeper
						time.Sleep(T)
						st, err := r.cli.OpenStream()
						if err != nil {
							return // the idle accepting side timed out first and told the client: nothing to judge
						}
						st.Write([]byte{1, 2, 3})
					case "idle":
					}
				})
				var accepted *Stream
				var acceptedAt int64
				if op == "accept" {
					vrt.Go("acceptor", func() {
						if conn, err := r.srv.Accept(); err == nil {
							accepted, acceptedAt = conn.(*Stream), vrt.NowNs()
						}
					})
				}
				wg.Wait()
				time.Sleep(T / 2) // well before any later timer
				if op == "accept" {
					if accepted != nil && r.srv.IsClosed() && r.srv.TerminalMsg() == "timeout" {
						vrt.Fail("timeout-only-without-streams", "Accept handed out a stream at t=%v that its user never closed, yet the session closed itself with reason \"timeout\"", time.Duration(acceptedAt))
					}
					vrt.Observe("accepted=%v srvClosed=%v msg=%q", accepted != nil, r.srv.IsClosed(), r.srv.TerminalMsg())
					return
				}
				cliTimedOut := r.cli.IsClosed() && r.cli.TerminalMsg() == "timeout"
				if op == "idle" {
					time.Sleep(T)
					if !r.cli.IsClosed() {
						vrt.Fail("idle-session-times-out", "a session without streams is still open after %v", T+T/2)
					}
					// closing on the timer is a close like any other: the peer is told and every connection ends up closed
					if !r.srv.IsClosed() {
						vrt.Fail("both-sessions-closed", "the idle session closed itself on its timer but the peer's session is still open (no closing notice reached it)")
					}
					for _, cn := range append(append([]*vnetConn{}, r.ca...), r.sa...) {
						if !cn.IsClosed() {
							vrt.Fail("all-conns-closed", "the idle session closed itself on its timer; connection end %s is still open", cn.Name)
						}
					}
					vrt.Observe("idle closed msg=%q", r.cli.TerminalMsg())
					return
				}
				if oerr == nil && s != nil && cliTimedOut {
					// the user never closed s: it was open when the inactivity timer closed the session
					vrt.Fail("timeout-only-without-streams", "OpenStream succeeded at t=%v and the stream was never closed by its user, yet the session closed itself with reason \"timeout\"", time.Duration(openedAt))
				}
				if oerr == nil && s != nil && r.cli.IsClosed() {
					// a stream on a closed session must at least have been torn down with it
					b := make([]byte, 4)
					if _, err := s.Read(b); err == nil {
						vrt.Fail("prefix-only", "Read on a stream of a closed session returned data")
					}
				}
				_ = closedSeen
				vrt.Observe("open-err=%v closed=%v msg=%q", oerr != nil, r.cli.IsClosed(), r.cli.TerminalMsg())
			},
		}
		return vx.RunSched(c, sc, sigOf("C12"))
	}})

	vx.RegisterJobs("C12", func(tier string) []vx.Job {
		q := tier == "quick"
		b := func(quick, thorough int) int {
			if q {
				return quick
			}
			return thorough
		}
		var jobs []vx.Job
		for _, f := range []string{"reset0", "reset1", "cliclose", "srvclose"} {
			jobs = append(jobs, vx.Job{Scenario: "mux.fault", Params: vx.P("fault", f, "frames", "2", "delay", "1"), Bound: b(2, 3), Weight: 8})
			f1 := f
			if f == "reset1" {
				f1 = "reset0"
			}
			jobs = append(jobs, vx.Job{Scenario: "mux.fault", Params: vx.P("fault", f1, "frames", "1", "conns", "1", "closer", "1"), Bound: b(1, 2), Weight: 8})
			jobs = append(jobs, vx.Job{Scenario: "mux.fault", Params: vx.P("fault", f, "frames", "1", "closer", "1", "delay", "1"), Bound: b(2, 3), Weight: 8})
		}
		jobs = append(jobs, vx.Job{Scenario: "mux.fault", Params: vx.P("fault", "reset1", "streams", "2", "frames", "1", "delay", "1"), Bound: b(2, 3), Weight: 9})
		jobs = append(jobs, vx.Job{Scenario: "mux.fault", Params: vx.P("fault", "reset0", "frames", "1", "srvwrite", "1", "delay", "1"), Bound: b(2, 3), Weight: 9})
		jobs = append(jobs, vx.Job{Scenario: "mux.fault", Params: vx.P("fault", "reset0", "frames", "2", "wlimit", "1", "srvwrite", "1", "delay", "1"), Bound: b(1, 2), Weight: 9})
		jobs = append(jobs, vx.Job{Scenario: "mux.fault", Params: vx.P("fault", "reset01", "frames", "1", "conns", "3", "delay", "1"), Bound: b(2, 3), Weight: 8})
		// teardown while a write is parked by back-pressure on a connection the peer no longer drains
		jobs = append(jobs, vx.Job{Scenario: "mux.stalledclose", Params: vx.P("tls", "0"), Bound: b(2, 4), Weight: 4})
		jobs = append(jobs, vx.Job{Scenario: "mux.stalledclose", Params: vx.P("tls", "1"), Bound: b(2, 4), Weight: 4})
		jobs = append(jobs, vx.Job{Scenario: "mux.lateadd", Bound: b(2, 4), Weight: 3})
		jobs = append(jobs, vx.Job{Scenario: "mux.parkedreaders", Params: vx.P("readers", "3"), Bound: b(1, 2), Weight: 3},
			vx.Job{Scenario: "mux.parkedreaders", Params: vx.P("readers", "2", "unordered", "1"), Bound: b(1, 2), Weight: 3})
		// a stream with 20 MiB unread (a stalled consumer) when it is given up: the close returns, the session lives on
		jobs = append(jobs, vx.Job{Scenario: "mux.backlog", Params: vx.P("mb", "20", "close", "1"), Bound: b(0, 1), Weight: 4})
		// record-layer connections with back-pressure: a write parked on one connection while another fails
		jobs = append(jobs, vx.Job{Scenario: "mux.fault", Params: vx.P("fault", "reset1", "frames", "2", "tls", "1", "conns", "2", "wlimit", "1", "delay", "1"), Bound: b(1, 2), Weight: 8})
		// long-lived sessions: a frame for a long-closed stream after thousands of stream closures
		jobs = append(jobs, vx.Job{Scenario: "mux.lateframe", Params: vx.P("strict", "1"), Bound: b(1, 2), Weight: 3})
		jobs = append(jobs, vx.Job{Scenario: "mux.lateframe", Params: vx.P("strict", "1", "cycles", "4200", "targets", map[bool]string{true: "few", false: "all"}[q]), Bound: 0, Weight: 9})
		jobs = append(jobs, vx.Job{Scenario: "mux.faultsend", Params: vx.P("conns", "2"), Bound: b(1, 2), Weight: 5})
		jobs = append(jobs, vx.Job{Scenario: "mux.faultsend", Params: vx.P("conns", "3"), Bound: b(0, 1), Weight: 6})
		for _, k := range []string{"0", "3", "5", "100", "274"} {
			jobs = append(jobs, vx.Job{Scenario: "mux.fault", Params: vx.P("fault", "cut0:"+k, "frames", "2", "tls", "1", "conns", "1", "delay", "1"), Bound: b(2, 3), Weight: 6})
		}
		jobs = append(jobs, vx.Job{Scenario: "mux.fault", Params: vx.P("fault", "cut1:7", "frames", "2", "tls", "1", "conns", "2", "delay", "1"), Bound: b(2, 3), Weight: 7})
		for _, op := range []string{"open", "read", "write", "sclose"} {
			jobs = append(jobs, vx.Job{Scenario: "mux.closerace", Params: vx.P("op", op), Bound: b(2, 3), Weight: 5})
		}
		jobs = append(jobs, vx.Job{Scenario: "mux.closerace", Params: vx.P("op", "open", "conns", "2"), Bound: b(1, 2), Weight: 5})
		jobs = append(jobs, vx.Job{Scenario: "mux.count", Params: vx.P("delay", "1"), Bound: b(1, 3), Weight: 9})
		jobs = append(jobs, vx.Job{Scenario: "mux.count", Params: vx.P("conns", "1"), Bound: b(1, 2), Weight: 9})
		// the stream closes of the count driver with the padding draws pinned to their extremes
		jobs = append(jobs, vx.Job{Scenario: "mux.count", Params: vx.P("conns", "1", "draws", "max"), Bound: b(0, 1), Weight: 5},
			vx.Job{Scenario: "mux.count", Params: vx.P("conns", "1", "draws", "min"), Bound: b(0, 1), Weight: 5})
		for _, d := range []string{"min", "max"} {
			jobs = append(jobs, vx.Job{Scenario: "mux.timeout", Params: vx.P("op", "idle", "draws", d), Bound: b(1, 2), Weight: 3})
		}
		for _, op := range []string{"open", "reopen", "idle", "accept"} {
			bd := b(2, 3)
			if op == "accept" {
				bd = b(1, 2)
			}
			jobs = append(jobs, vx.Job{Scenario: "mux.timeout", Params: vx.P("op", op), Bound: bd, Weight: 4})
		}
		for i := range jobs {
			jobs[i].BudgetS = b(100, 900)
		}
		return jobs
	})
}
