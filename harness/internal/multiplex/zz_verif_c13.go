//go:build verif

package multiplex

import (
	"bytes"
	"fmt"
	"io"
	"sort"
	"strings"

	"github.com/cbeuw/Cloak/internal/vnet"
	"github.com/cbeuw/Cloak/internal/vref"
	"github.com/cbeuw/Cloak/internal/vrt"
	"github.com/cbeuw/Cloak/internal/vrt/sync"
	"github.com/cbeuw/Cloak/internal/vx"
)

// decodeTap decodes everything one side sent, with the reference codec.
func decodeTap(n *vnet.Net, dir string, method byte) ([]vref.RefFrame, error) {
	var out []vref.RefFrame
	for _, t := range n.Tap {
		if t.Dir != dir {
			continue
		}
		f, err := vref.Decode(method, rigKey, t.Data)
		if err != nil {
			return nil, fmt.Errorf("tap message %d does not decode with the reference codec: %v", t.Idx, err)
		}
		out = append(out, f)
	}
	return out, nil
}

// chunkReader yields its chunks one Read at a time (an io.Reader for Stream.ReadFrom).
type chunkReader struct {
	chunks [][]byte
	i      int
}

func (c *chunkReader) Read(b []byte) (int, error) {
	vrt.Yield("chunkReader.Read")
	if c.i >= len(c.chunks) {
		return 0, io.EOF
	}
	n := copy(b, c.chunks[c.i])
	if n < len(c.chunks[c.i]) {
		c.chunks[c.i] = c.chunks[c.i][n:]
	} else {
		c.i++
	}
	return n, nil
}

// C13 driver: concurrent Write / ReadFrom / Close on the same stream (and a second stream), the
// sender-side wire tap decoded with the reference codec.
//
// params: ops = comma list of thread programs on stream 0, each "w<size>[+<size>..]" (Write calls),
// "r<size>[+<size>]" (one ReadFrom over those chunks) or "c" (Close); second=1 adds an
// independent writer on a second stream; failconn=1 resets connection 1 from a fault thread.
func init() {
	vx.Register(&vx.Scenario{Name: "mux.seq", Prop: "C13", Run: func(c *vx.Ctx) *vx.Report {
		progs := splitNonEmpty(c.P("ops", "w5,r5"), ",")
		second := c.P("second", "0") == "1"
		failconn := c.P("failconn", "0") == "1"
		method := methodOf(c.P("method", "plain"))
		unit := c.PI("unit", 256) // a closing frame needs room for up to 256 bytes of padding payload
		sc := &vrt.Scenario{
			Opt:      vrt.Options{RandInt: chooseConnOpt(), MemPoints: c.P("mem", "1") == "1", Delay: c.P("delay", "0") == "1"},
			Classify: deadlockIs("liveness: sender threads blocked forever"),
			Main: func() {
				r := newMuxRig(rigCfg{conns: c.PI("conns", 2), method: method, unit: unit, singleplex: c.P("singleplex", "0") == "1"})
				s0, err := r.cli.OpenStream()
				if err != nil {
					vrt.Fail("harness", "OpenStream: %v", err)
				}
				var wg sync.WaitGroup
				var calls []*seqCall
				tick := 0
				now := func() int { tick++; return tick }
				closeStarted := -1
				for pi, p := range progs {
					pi, p := pi, p
					wg.Add(1)
					vrt.Go(fmt.Sprintf("t%d:%s", pi, p), func() {
						defer wg.Done()
						switch p[0] {
						case 'c':
							closeStarted = now()
							s0.Close()
						case 'w':
							off := 0
							for _, sz := range parseIntsSep(p[1:], "+") {
								cl := &seqCall{prog: pi, data: patternBytes(pi, 0, off, sz), started: now()}
								calls = append(calls, cl)
								n, err := s0.Write(cl.data)
								cl.finished = now()
								cl.ok = err == nil && n == sz
								if err != nil {
									return
								}
								off += sz
							}
						case 'r':
							off := 0
							var chunks [][]byte
							var cls []*seqCall
							for _, sz := range parseIntsSep(p[1:], "+") {
								d := patternBytes(pi, 0, off, sz)
								chunks = append(chunks, d)
								off += sz
							}
							// each chunk becomes one frame (chunk sizes <= unit)
							st := now()
							n, _ := s0.ReadFrom(&chunkReader{chunks: chunks})
							fin := now()
							done := 0
							for _, ch := range chunks {
								// chunks the call reported as sent are accepted writes; the one in flight when it
								// stopped may or may not be on the wire
								cl := &seqCall{prog: pi, data: ch, ok: int(n) >= done+len(ch), started: st, finished: fin, overlapsClose: true}
								cls = append(cls, cl)
								done += len(ch)
							}
							calls = append(calls, cls...)
						}
					})
				}
				if second {
					wg.Add(1)
					vrt.Go("second-stream", func() {
						defer wg.Done()
						s1, err := r.cli.OpenStream()
						if err != nil {
							return
						}
						s1.Write(patternBytes(3, 0, 0, unit+1))
						s1.Close()
					})
				}
				for k := 0; k < c.PI("openers", 0); k++ {
					k := k
					wg.Add(1)
					vrt.Go(fmt.Sprintf("opener%d", k), func() {
						defer wg.Done()
						st, err := r.cli.OpenStream()
						if err != nil {
							return
						}
						st.Write(patternBytes(2, 1, k, 3))
					})
				}
				if failconn {
					wg.Add(1)
					vrt.Go("fault", func() {
						defer wg.Done()
						r.ca[1].Reset()
					})
				}
				if c.P("senterr", "0") == "1" {
					// connection 0's next write reaches the peer but reports an error (the session is torn down
					// as for any write error); whatever is still sent afterwards must not repeat its number
					r.ca[0].SentButFailed = 1
				}
				wg.Wait()
				quiesce()
				if c.P("seshclose", "0") == "1" {
					r.cli.Close()
					quiesce()
				}

				frames, err := decodeTap(r.net, "a>b", method)
				if err != nil {
					vrt.Fail("wire-format", "%v", err)
				}
				// (1) uniqueness of (stream id, seq) over everything this endpoint sent
				type ss struct {
					id  uint32
					seq uint64
				}
				seen := map[ss]int{}
				per := map[uint32][]vref.RefFrame{}
				for i, f := range frames {
					// the session-closing notice is a message under the same key as well: its (id, seq) counts
					k := ss{f.StreamID, f.Seq}
					if j, dup := seen[k]; dup {
						vrt.Fail("unique-seq", "messages %d and %d both carry (stream %d, seq %d): nonce reuse", j, i, f.StreamID, f.Seq)
					}
					seen[k] = i
					if f.Closing == closingSession {
						continue
					}
					per[f.StreamID] = append(per[f.StreamID], f)
				}
				// (2) per stream: numbers 0..k-1 without gaps, unless a send failed (then a number may be burnt)
				sendFailed := failconn || c.P("senterr", "0") == "1"
				for id, fs := range per {
					sort.Slice(fs, func(i, j int) bool { return fs[i].Seq < fs[j].Seq })
					for i, f := range fs {
						if f.Seq != uint64(i) && !sendFailed {
							vrt.Fail("gap-free-seq", "stream %d: sequence numbers on the wire %v are not 0..%d", id, seqsOf(fs), len(fs)-1)
						}
					}
				}
				// (3) stream 0: data in sequence order is an interleaving of the accepted writes that keeps
				// every Write call contiguous and each thread's calls in order
				var data []byte
				var seqOfByte []uint64
				closingSeq := int64(-1)
				fs0 := per[s0.id]
				for _, f := range fs0 {
					if f.Closing == closingStream {
						// the first closing frame is the close; a ReadFrom that overlapped Close may emit a
						// later frame still flagged closing (the template is sticky) - the peer ignores it and
						// the property does not speak about it
						if closingSeq < 0 {
							closingSeq = int64(f.Seq)
						}
						continue
					}
					data = append(data, f.Payload...)
					for range f.Payload {
						seqOfByte = append(seqOfByte, f.Seq)
					}
				}
				if !sendFailed {
					for _, cl := range calls {
						if cl.overlapsClose && closeStarted >= 0 && cl.finished > closeStarted {
							cl.ok = false // ReadFrom overlapping Close: its chunks may or may not be on the wire as data
						}
					}
					pos, ok := explainInterleaving(data, calls)
					if !ok {
						var cs []string
						for _, cl := range calls {
							cs = append(cs, fmt.Sprintf("t%d:%x(ok=%v)", cl.prog, cl.data, cl.ok))
						}
						vrt.Fail("write-order", "bytes on the wire in sequence order %x are not an order-preserving interleaving of whole accepted writes %v", data, cs)
					}
					// a close is numbered after every frame of a write that completed before Close was called
					if closingSeq >= 0 {
						for i, cl := range calls {
							if cl.ok && cl.finished < closeStarted && pos[i] >= 0 {
								last := seqOfByte[pos[i]+len(cl.data)-1]
								if int64(last) > closingSeq {
									vrt.Fail("close-after-completed-writes", "write %x returned before Close was called but its frame seq %d follows the closing frame seq %d", cl.data, last, closingSeq)
								}
							}
						}
					} else if closeStarted >= 0 {
						vrt.Fail("close-emits-closing-frame", "Close was called on a healthy session but no closing frame for stream %d is on the wire", s0.id)
					}
				}
				vrt.Observe("frames=%d closingSeq=%d data=%x", len(frames), closingSeq, data)
			},
		}
		return vx.RunSched(c, sc, sigOf("C13"))
	}})

	vx.RegisterJobs("C13", func(tier string) []vx.Job {
		q := tier == "quick"
		b := func(quick, thorough int) int {
			if q {
				return quick
			}
			return thorough
		}
		budget := b(100, 900)
		jobs := []vx.Job{
			{Scenario: "mux.seq", Params: vx.P("ops", "w257,w257", "mem", "0"), Bound: b(2, 3), Weight: 8},
			{Scenario: "mux.seq", Params: vx.P("ops", "w257,r256+1"), Bound: b(1, 2), Weight: 9},
			{Scenario: "mux.seq", Params: vx.P("ops", "w257,r256+1", "mem", "0"), Bound: b(2, 3), Weight: 8},
			{Scenario: "mux.seq", Params: vx.P("ops", "w257,r256+1", "mem", "0", "pool", "recycle"), Bound: b(1, 2), Weight: 8},
			{Scenario: "mux.seq", Params: vx.P("ops", "w257,c", "mem", "0"), Bound: b(2, 3), Weight: 6},
			{Scenario: "mux.seq", Params: vx.P("ops", "w1", "mem", "0", "seshclose", "1", "second", "1", "conns", "1"), Bound: b(1, 2), Weight: 5},
			{Scenario: "mux.seq", Params: vx.P("ops", "w1", "mem", "0", "seshclose", "1", "conns", "3", "delay", "1"), Bound: b(1, 2), Weight: 5},
			{Scenario: "mux.seq", Params: vx.P("ops", "w5+5,w5,c", "mem", "0", "senterr", "1", "failconn", "1", "delay", "1"), Bound: b(2, 3), Weight: 8},
			{Scenario: "mux.seq", Params: vx.P("ops", "w5+5+5,c", "mem", "0", "senterr", "1", "conns", "1"), Bound: b(2, 3), Weight: 6},
			{Scenario: "mux.seq", Params: vx.P("ops", "w257,c", "mem", "0", "singleplex", "1", "conns", "1"), Bound: b(2, 3), Weight: 6},
			{Scenario: "mux.seq", Params: vx.P("ops", "r256+1,c", "mem", "0", "singleplex", "1", "conns", "1", "method", "aes-256-gcm"), Bound: b(1, 2), Weight: 6},
			{Scenario: "mux.lateframe", Bound: b(1, 2), Weight: 3},
			{Scenario: "mux.lateframe", Params: vx.P("cycles", "4200", "targets", map[bool]string{true: "few", false: "all"}[q]), Bound: 0, Weight: 9},
			{Scenario: "mux.seq", Params: vx.P("ops", "w1", "openers", "3", "conns", "1", "mem", "0"), Bound: b(1, 2), Weight: 6},
			{Scenario: "mux.seq", Params: vx.P("ops", "r256+256,c", "mem", "0"), Bound: b(2, 3), Weight: 6},
			{Scenario: "mux.seq", Params: vx.P("ops", "r200,c"), Bound: b(1, 2), Weight: 6},
			{Scenario: "mux.seq", Params: vx.P("ops", "w513,r3,c", "mem", "0"), Bound: b(1, 2), Weight: 9},
			{Scenario: "mux.seq", Params: vx.P("ops", "w1+1,w1", "second", "1", "mem", "0", "delay", "1"), Bound: b(1, 3), Weight: 9},
			{Scenario: "mux.seq", Params: vx.P("ops", "w257,w1", "failconn", "1", "mem", "0", "delay", "1"), Bound: b(2, 3), Weight: 7},
			{Scenario: "mux.seq", Params: vx.P("ops", "w257,r200", "method", "aes-256-gcm", "mem", "0"), Bound: b(1, 2), Weight: 4},
			{Scenario: "mux.seq", Params: vx.P("ops", "w257,r200", "method", "chacha20-poly1305", "mem", "0"), Bound: b(1, 2), Weight: 4},
		}
		for i := range jobs {
			jobs[i].BudgetS = budget
		}
		return jobs
	})
}

func seqsOf(fs []vref.RefFrame) []uint64 {
	var s []uint64
	for _, f := range fs {
		s = append(s, f.Seq)
	}
	return s
}

type seqCall struct {
	prog          int
	data          []byte
	ok            bool // the call reported the data as fully sent
	started       int
	finished      int
	overlapsClose bool
}

// explainInterleaving: can data be cut into the calls' payloads such that each accepted call is
// contiguous and whole, the calls of one thread keep their order, and a call that reported failure
// contributes either nothing or (ReadFrom's in-flight chunk) its whole chunk? Returns the offset of
// each call in data (-1 = absent).
func explainInterleaving(data []byte, calls []*seqCall) ([]int, bool) {
	byProg := map[int][]int{}
	var progs []int
	for i, c := range calls {
		if _, ok := byProg[c.prog]; !ok {
			progs = append(progs, c.prog)
		}
		byProg[c.prog] = append(byProg[c.prog], i)
	}
	pos := make([]int, len(calls))
	for i := range pos {
		pos[i] = -1
	}
	next := map[int]int{}
	var rec func(off int) bool
	rec = func(off int) bool {
		if off == len(data) {
			// every accepted call must have been placed
			for _, p := range progs {
				for _, ci := range byProg[p][next[p]:] {
					if calls[ci].ok {
						return false
					}
				}
			}
			return true
		}
		for _, p := range progs {
			lst := byProg[p]
			// skip over failed calls of this thread (they may be absent)
			k := next[p]
			for k < len(lst) {
				ci := lst[k]
				cl := calls[ci]
				if bytes.HasPrefix(data[off:], cl.data) && len(cl.data) > 0 {
					save := next[p]
					next[p] = k + 1
					pos[ci] = off
					if rec(off + len(cl.data)) {
						return true
					}
					pos[ci] = -1
					next[p] = save
				}
				if cl.ok {
					break
				}
				k++
			}
		}
		return false
	}
	ok := rec(0)
	return pos, ok
}

func splitNonEmpty(s, sep string) []string {
	var out []string
	for _, f := range strings.Split(s, sep) {
		if f != "" {
			out = append(out, f)
		}
	}
	return out
}

func parseIntsSep(s, sep string) []int {
	var out []int
	for _, f := range splitNonEmpty(s, sep) {
		var n int
		fmt.Sscanf(f, "%d", &n)
		out = append(out, n)
	}
	return out
}
