//go:build verif

package multiplex

import (
	"github.com/cbeuw/Cloak/internal/vnet"
	"github.com/cbeuw/Cloak/internal/vrt"
	"github.com/cbeuw/Cloak/internal/vrt/sync"
	"github.com/cbeuw/Cloak/internal/vx"
)

// C03 driver: a relay parked in its local read when the stream is closed. Stream.ReadFrom(local) has
// forwarded one chunk and waits for more; the stream is then closed (an explorer choice: by this side,
// or by the peer, whose closing frame this side processes); afterwards the local connection yields
// more data. Once a side has closed the stream or processed the peer's close its writes fail: none of
// the late bytes is counted as written, and no frame of the stream follows its closing frame on the wire.
func init() {
	vx.Register(&vx.Scenario{Name: "mux.readfromclose", Prop: "C03", Run: func(c *vx.Ctx) *vx.Report {
		sc := &vrt.Scenario{
			Opt:      vrt.Options{Delay: true, RandInt: chooseConnOpt()},
			Classify: deadlockIs("blocked-calls-return: the relay never returned"),
			Main: func() {
				r := newMuxRig(rigCfg{conns: c.PI("conns", 1), unit: 256})
				st, _ := r.cli.OpenStream()
				st.Write([]byte("open"))
				peerConn, err := r.srv.Accept()
				if err != nil {
					vrt.Fail("harness", "Accept: %v", err)
				}
				src, dst := vnet.New().Pair("local", false) // a network of its own: the tap of r.net then holds tunnel messages only
				var wg sync.WaitGroup
				var relayed int64
				var rerr error
				returned := false
				wg.Add(1)
				vrt.Go("relay", func() {
					defer wg.Done()
					relayed, rerr = st.ReadFrom(dst)
					returned = true
				})
				first := []byte("before the close")
				src.Write(first)
				quiesce()
				who := vrt.Choose(2, "closed-by")
				if who == 0 {
					st.Close()
				} else {
					peerConn.Close()
				}
				quiesce()
				late := []byte("after the close!")
				src.Write(late)
				quiesce()
				src.Close()
				quiesce()
				wg.Wait()
				if !returned {
					vrt.Fail("blocked-calls-return", "the relay did not return")
				}
				if relayed > int64(len(first)) {
					vrt.Fail("writes-fail-after-close", "closed by %d: the relay reports %d bytes written, only %d were handed over before the stream was closed (err %v)", who, relayed, len(first), rerr)
				}
				frames, err := decodeTap(r.net, "a>b", EncryptionMethodPlain)
				if err != nil {
					vrt.Fail("wire-format", "%v", err)
				}
				closedAt := -1
				for i, f := range frames {
					if f.StreamID != st.id {
						continue
					}
					if closedAt >= 0 {
						vrt.Fail("writes-fail-after-close", "closed by %d: message %d (seq %d, %d payload bytes) of stream %d follows the stream's closing frame (message %d) on the wire", who, i, f.Seq, len(f.Payload), st.id, closedAt)
					}
					if f.Closing != 0 {
						closedAt = i
					}
					if string(f.Payload) == string(late) {
						vrt.Fail("writes-fail-after-close", "closed by %d: bytes the local connection yielded after the stream was closed went out on the wire (message %d)", who, i)
					}
				}
				vrt.Observe("who=%d relayed=%d err=%v", who, relayed, rerr != nil)
				r.cli.Close()
			},
		}
		return vx.RunSched(c, sc, sigOf("C03"))
	}})
}
