//go:build verif

package multiplex

import (
	"bytes"
	"errors"
	"fmt"

	"github.com/cbeuw/Cloak/internal/vnet"
	"github.com/cbeuw/Cloak/internal/vref"
	"github.com/cbeuw/Cloak/internal/vrt"
	"github.com/cbeuw/Cloak/internal/vrt/sync"
	"github.com/cbeuw/Cloak/internal/vx"
)

// C02 driver (session level): the n frames of one stream (the last one the closing frame) reach a
// receiving Session in every arrival order, each over either of two connections (explorer choices).
// The application accepts the stream as soon as it exists and reads until the error: it gets the
// payloads in sequence order, all of them, and only then the broken-stream error.
//
// params: n; lateconn=1 (the session has one connection when the first frame arrives, the second one
// is attached afterwards - the start of a NumConn>1 session seen from the server); singleplex=1.
func init() {
	vx.Register(&vx.Scenario{Name: "sesh.orders", Prop: "C02", Run: func(c *vx.Ctx) *vx.Report {
		n := c.PI("n", 3)
		late := c.P("lateconn", "0") == "1"
		sc := &vrt.Scenario{
			Opt:      vrt.Options{Delay: true},
			Classify: deadlockIs("in-order-delivery: the reader never saw the end of the stream"),
			Main: func() {
				o, _ := MakeObfuscator(EncryptionMethodPlain, rigKey)
				nw := vnet.New()
				sesh := MakeSession(7, SessionConfig{Obfuscator: o, Valve: UNLIMITED_VALVE, MsgOnWireSizeLimit: 600, Singleplex: c.P("singleplex", "0") == "1"})
				var peer [2]*vnet.Conn
				attach := func(i int) {
					a, b := nw.Pair(fmt.Sprintf("c%d", i), true)
					peer[i] = a
					sesh.AddConnection(b)
				}
				attach(0)
				if !late {
					attach(1)
				}
				var want []byte
				frames := make([][]byte, n)
				for i := 0; i < n; i++ {
					pl := bytes.Repeat([]byte{byte('a' + i)}, 3+i)
					closing := byte(closingNothing)
					if i == n-1 {
						closing = closingStream
					}
					if i < n-1 { // a closing frame carries padding, not data
						want = append(want, pl...)
					}
					if i == c.PI("empty", -1) && i < n-1 {
						// a data frame with an empty payload: Cloak's own encoder refuses to build one, its decoder
						// accepts it under every method, so a peer can put one on the wire (reference encoder)
						want = want[:len(want)-len(pl)]
						frames[i], _ = vref.Encode(vref.MethodPlain, rigKey, vref.RefFrame{StreamID: 1, Seq: uint64(i), Trailer: []byte{1, 2, 3, 4, 5, 6, 7, 8}})
						continue
					}
					frames[i] = c11Encode(&o, 1, uint64(i), closing, pl, 0)
				}
				var wg sync.WaitGroup
				var got []byte
				var rerr error
				wg.Add(1)
				vrt.Go("app", func() {
					defer wg.Done()
					conn, err := sesh.Accept()
					if err != nil {
						rerr = fmt.Errorf("Accept: %w", err)
						return
					}
					buf := make([]byte, 64)
					for {
						k, err := conn.Read(buf)
						got = append(got, buf[:k]...)
						if err != nil {
							rerr = err
							return
						}
					}
				})
				left := make([]int, n)
				for i := range left {
					left[i] = i
				}
				order := ""
				for k := 0; k < n; k++ {
					j := vrt.Choose(len(left), "arrives-next")
					f := left[j]
					left = append(left[:j], left[j+1:]...)
					via := 0
					if peer[1] != nil {
						via = vrt.Choose(2, "over-connection")
					}
					order += fmt.Sprintf("%d/%d ", f, via)
					peer[via].Write(frames[f])
					quiesce()
					if late && peer[1] == nil {
						attach(1)
					}
				}
				quiesce()
				wg.Wait()
				if !bytes.Equal(got, want) {
					vrt.Fail("in-order-delivery", "frames arrived as (frame/connection) %s: the application read %q then %v, the peer wrote %q and closed", order, got, rerr, want)
				}
				if !errors.Is(rerr, ErrBrokenStream) {
					vrt.Fail("in-order-delivery", "frames arrived as %s: after the data the reader got %v", order, rerr)
				}
				vrt.Observe("delivered")
			},
		}
		return vx.RunSched(c, sc, sigOf("C02"))
	}})
}

// C02 / C01 driver: one connection lags. Frames 1..lag of a stream (and then its closing frame) arrive
// over one connection while frame 0 is still under way on the other ("any relative delay between the
// underlying connections"); frame 0 arrives last and nothing follows it. The application reads all
// lag+1 payloads in order and then the end of the stream. lag is an explorer choice among values
// around the powers of two where a window or batch limit would sit.
func init() {
	vx.Register(&vx.Scenario{Name: "sesh.lag", Prop: "C02", Run: func(c *vx.Ctx) *vx.Report {
		lags := parseInts(c.P("lags", "1,127,128,129,1023,1024,1025,3000"))
		sc := &vrt.Scenario{
			Opt:      vrt.Options{Delay: true, StepCap: 50000000},
			Classify: deadlockIs("in-order-delivery: the reader never saw the end of the stream"),
			Main: func() {
				lag := lags[vrt.Choose(len(lags), "lag")]
				o, _ := MakeObfuscator(EncryptionMethodPlain, rigKey)
				nw := vnet.New()
				nw.NoTap = true
				sesh := MakeSession(7, SessionConfig{Obfuscator: o, Valve: UNLIMITED_VALVE, MsgOnWireSizeLimit: 600})
				a0, b0 := nw.Pair("c0", true)
				a1, b1 := nw.Pair("c1", true)
				sesh.AddConnection(b0)
				sesh.AddConnection(b1)
				var want []byte
				pl := func(i int) []byte { return []byte(fmt.Sprintf("[frame %06d of the stream]", i)) }
				for i := 0; i <= lag; i++ {
					want = append(want, pl(i)...)
				}
				var wg sync.WaitGroup
				var got []byte
				var rerr error
				wg.Add(1)
				vrt.Go("app", func() {
					defer wg.Done()
					conn, err := sesh.Accept()
					if err != nil {
						rerr = fmt.Errorf("Accept: %w", err)
						return
					}
					buf := make([]byte, 4096)
					for {
						k, err := conn.Read(buf)
						got = append(got, buf[:k]...)
						if err != nil {
							rerr = err
							return
						}
					}
				})
				for i := 1; i <= lag; i++ {
					a1.Write(c11Encode(&o, 1, uint64(i), 0, pl(i), 0))
				}
				a1.Write(c11Encode(&o, 1, uint64(lag+1), closingStream, []byte{0}, 0))
				quiesce()
				a0.Write(c11Encode(&o, 1, 0, 0, pl(0), 0)) // the lagging connection delivers at last
				quiesce()
				wg.Wait()
				if !bytes.Equal(got, want) {
					vrt.Fail("in-order-delivery", "one connection lagged by %d frames of the stream (frame 0 arrived last): the application read %d of %d bytes (%d whole frames) then %v", lag, len(got), len(want), len(got)/len(pl(0)), rerr)
				}
				if !errors.Is(rerr, ErrBrokenStream) {
					vrt.Fail("in-order-delivery", "lag %d: after the data the reader got %v", lag, rerr)
				}
				vrt.Observe("delivered")
			},
		}
		return vx.RunSched(c, sc, sigOf("C02"))
	}})
}
