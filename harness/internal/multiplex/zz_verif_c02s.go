//go:build verif

package multiplex

import (
	"bytes"
	"errors"
	"fmt"

	"github.com/cbeuw/Cloak/internal/vnet"
	"github.com/cbeuw/Cloak/internal/vrt"
	"github.com/cbeuw/Cloak/internal/vrt/sync"
	"github.com/cbeuw/Cloak/internal/vx"
)

// C02 driver (session level): the n frames of one stream (the last one the closing frame) reach a
// receiving Session in every arrival order, each over either of two connections (explorer choices).
// The application accepts the stream as soon as it exists and reads until the error: it gets the
// payloads in sequence order, all of them, and only then the broken-stream error.
//
// params: n; lateconn=1 (the session has one connection when the first frame arrives, the second one
// is attached afterwards - the start of a NumConn>1 session seen from the server); singleplex=1.
func init() {
	vx.Register(&vx.Scenario{Name: "sesh.orders", Prop: "C02", Run: func(c *vx.Ctx) *vx.Report {
		n := c.PI("n", 3)
		late := c.P("lateconn", "0") == "1"
		sc := &vrt.Scenario{
			Opt:      vrt.Options{Delay: true},
			Classify: deadlockIs("in-order-delivery: the reader never saw the end of the stream"),
			Main: func() {
				o, _ := MakeObfuscator(EncryptionMethodPlain, rigKey)
				nw := vnet.New()
				sesh := MakeSession(7, SessionConfig{Obfuscator: o, Valve: UNLIMITED_VALVE, MsgOnWireSizeLimit: 600, Singleplex: c.P("singleplex", "0") == "1"})
				var peer [2]*vnet.Conn
				attach := func(i int) {
					a, b := nw.Pair(fmt.Sprintf("c%d", i), true)
					peer[i] = a
					sesh.AddConnection(b)
				}
				attach(0)
				if !late {
					attach(1)
				}
				var want []byte
				frames := make([][]byte, n)
				for i := 0; i < n; i++ {
					pl := bytes.Repeat([]byte{byte('a' + i)}, 3+i)
					closing := byte(closingNothing)
					if i == n-1 {
						closing = closingStream
					}
					if i < n-1 { // a closing frame carries padding, not data
						want = append(want, pl...)
					}
					frames[i] = c11Encode(&o, 1, uint64(i), closing, pl, 0)
				}
				var wg sync.WaitGroup
				var got []byte
				var rerr error
				wg.Add(1)
				vrt.Go("app", func() {
					defer wg.Done()
					conn, err := sesh.Accept()
					if err != nil {
						rerr = fmt.Errorf("Accept: %w", err)
						return
					}
					buf := make([]byte, 64)
					for {
						k, err := conn.Read(buf)
						got = append(got, buf[:k]...)
						if err != nil {
							rerr = err
							return
						}
					}
				})
				left := make([]int, n)
				for i := range left {
					left[i] = i
				}
				order := ""
				for k := 0; k < n; k++ {
					j := vrt.Choose(len(left), "arrives-next")
					f := left[j]
					left = append(left[:j], left[j+1:]...)
					via := 0
					if peer[1] != nil {
						via = vrt.Choose(2, "over-connection")
					}
					order += fmt.Sprintf("%d/%d ", f, via)
					peer[via].Write(frames[f])
					quiesce()
					if late && peer[1] == nil {
						attach(1)
					}
				}
				quiesce()
				wg.Wait()
				if !bytes.Equal(got, want) {
					vrt.Fail("in-order-delivery", "frames arrived as (frame/connection) %s: the application read %q then %v, the peer wrote %q and closed", order, got, rerr, want)
				}
				if !errors.Is(rerr, ErrBrokenStream) {
					vrt.Fail("in-order-delivery", "frames arrived as %s: after the data the reader got %v", order, rerr)
				}
				vrt.Observe("delivered")
			},
		}
		return vx.RunSched(c, sc, sigOf("C02"))
	}})
}
