//go:build verif

package multiplex

import (
	"bytes"
	"fmt"
	"github.com/cbeuw/Cloak/internal/common"
	"github.com/cbeuw/Cloak/internal/vnet"
	"io"
	"net"
	rtime "time"

	"github.com/cbeuw/Cloak/internal/vrt/time"
	"strconv"
	"strings"

	"github.com/cbeuw/Cloak/internal/vref"
	"github.com/cbeuw/Cloak/internal/vrt"
	"github.com/cbeuw/Cloak/internal/vx"
)

const prodLimit = 16401 // MsgOnWireSizeLimit configured by client and server

var c04Keys = [][32]byte{
	rigKey,
	{},
	{0xff, 0xff, 0xff, 0xff, 0xff, 0xff, 0xff, 0xff, 0xff, 0xff, 0xff, 0xff, 0xff, 0xff, 0xff, 0xff, 0xff, 0xff, 0xff, 0xff, 0xff, 0xff, 0xff, 0xff, 0xff, 0xff, 0xff, 0xff, 0xff, 0xff, 0xff, 0xff},
}

func tagLenOf(method byte) int {
	if method == EncryptionMethodPlain {
		return 8
	}
	return 16
}

type c04Case struct {
	Method   byte   `json:"method"`
	Len      int    `json:"len"`
	Seq      uint64 `json:"seq"`
	Closing  byte   `json:"closing"`
	StreamID uint32 `json:"stream_id"`
	Pad      int    `json:"pad"`
	KeyIdx   int    `json:"key"`
}

// c04One runs every clause on one case; returns "" or what failed.
func c04One(cs c04Case, payloadSrc []byte, seed uint64) string {
	key := c04Keys[cs.KeyIdx]
	o, err := MakeObfuscator(cs.Method, key)
	if err != nil {
		return err.Error()
	}
	tagLen := tagLenOf(cs.Method)
	padded := cs.Seq < padFirstNFrames
	vrt.PlainRandInt = func(n int) int {
		// the enumerated padding length; when the case asks for the maximum, the largest value the
		// implementation's own range allows is drawn (a range that is too wide then shows as a wrapped
		// length byte)
		if cs.Pad >= maxExtraLen-tagLen || cs.Pad >= n {
			return n - 1
		}
		return cs.Pad
	}
	defer func() { vrt.PlainRandInt = nil }()
	payload := payloadSrc[:cs.Len]
	f := &Frame{StreamID: cs.StreamID, Seq: cs.Seq, Closing: cs.Closing, Payload: payload}
	// separate-buffer mode
	vrt.SeedPlainRand(seed)
	buf1 := make([]byte, prodLimit)
	n1, err := o.obfuscate(f, buf1, 0)
	if err != nil {
		return "obfuscate (separate buffer): " + err.Error()
	}
	// in-place mode, same randomness
	vrt.SeedPlainRand(seed)
	buf2 := make([]byte, prodLimit)
	copy(buf2[frameHeaderLength:], payload)
	f2 := &Frame{StreamID: cs.StreamID, Seq: cs.Seq, Closing: cs.Closing, Payload: buf2[frameHeaderLength : frameHeaderLength+cs.Len]}
	n2, err := o.obfuscate(f2, buf2, frameHeaderLength)
	if err != nil {
		return "obfuscate (in place): " + err.Error()
	}
	vrt.UnseedPlainRand()
	if n1 != n2 || !bytes.Equal(buf1[:n1], buf2[:n2]) {
		return fmt.Sprintf("in-place and separate-buffer encodings differ (%d vs %d bytes)", n1, n2)
	}
	msg := buf1[:n1]
	if n1 > prodLimit {
		return fmt.Sprintf("message of %d bytes exceeds the on-wire limit %d", n1, prodLimit)
	}
	wantPad := 0
	if padded {
		wantPad = cs.Pad
	}
	if wantPad+tagLen > maxExtraLen || n1-frameHeaderLength-cs.Len-tagLen > maxExtraLen-tagLen {
		return fmt.Sprintf("padding+tag = %d does not fit the one-byte extra-length field", n1-frameHeaderLength-cs.Len)
	}
	if n1 != frameHeaderLength+cs.Len+wantPad+tagLen {
		return fmt.Sprintf("message length %d, layout says %d+%d+%d+%d", n1, frameHeaderLength, cs.Len, wantPad, tagLen)
	}
	// the reference decodes what the implementation produced
	rf, err := vref.Decode(cs.Method, key, msg)
	if err != nil {
		return "reference decoder rejects the implementation's message: " + err.Error()
	}
	if rf.StreamID != cs.StreamID || rf.Seq != cs.Seq || rf.Closing != cs.Closing || !bytes.Equal(rf.Payload, payload) || len(rf.Padding) != wantPad {
		return fmt.Sprintf("reference decoder reads stream=%d seq=%d closing=%d len=%d pad=%d from a message encoding stream=%d seq=%d closing=%d len=%d pad=%d",
			rf.StreamID, rf.Seq, rf.Closing, len(rf.Payload), len(rf.Padding), cs.StreamID, cs.Seq, cs.Closing, cs.Len, wantPad)
	}
	// with the same padding / trailer bytes the reference encoder produces the very same bytes
	re, err := vref.Encode(cs.Method, key, rf)
	if err != nil {
		return "reference encoder: " + err.Error()
	}
	if !bytes.Equal(re, msg) {
		return "reference encoding of the same frame with the same padding differs from the implementation's bytes"
	}
	// implementation round trip
	var back Frame
	cp := append([]byte{}, msg...)
	if err := o.deobfuscate(&back, cp); err != nil {
		return "deobfuscate rejects the implementation's own message: " + err.Error()
	}
	if back.StreamID != cs.StreamID || back.Seq != cs.Seq || back.Closing != cs.Closing || !bytes.Equal(back.Payload, payload) {
		return fmt.Sprintf("round trip returns stream=%d seq=%d closing=%d len=%d", back.StreamID, back.Seq, back.Closing, len(back.Payload))
	}
	// the implementation decodes a message built by the reference with padding of the reference's choosing
	rp := vref.RefFrame{StreamID: cs.StreamID, Seq: cs.Seq, Closing: cs.Closing, Payload: payload, Padding: bytes.Repeat([]byte{0x5a}, (cs.Pad*7+3)%(maxExtraLen-tagLen+1))}
	if cs.Method == EncryptionMethodPlain {
		rp.Trailer = []byte{1, 2, 3, 4, 5, 6, 7, byte(cs.Len)}
	}
	rm, err := vref.Encode(cs.Method, key, rp)
	if err != nil {
		return "reference encoder: " + err.Error()
	}
	var back2 Frame
	if err := o.deobfuscate(&back2, rm); err != nil {
		return "deobfuscate rejects a message built by the reference codec: " + err.Error()
	}
	if back2.StreamID != cs.StreamID || back2.Seq != cs.Seq || back2.Closing != cs.Closing || !bytes.Equal(back2.Payload, payload) {
		return "deobfuscate misreads a message built by the reference codec"
	}
	return ""
}

func init() {
	// params: method, lens = "a-b" or "a,b,c", slice = full|one
	vx.Register(&vx.Scenario{Name: "codec.roundtrip", Prop: "C04", Run: func(c *vx.Ctx) *vx.Report {
		rep := &vx.Report{Job: c.Job, Engine: "enum", Outcomes: map[string]int64{}, Exhaustive: true}
		method := methodOf(c.P("method", "plain"))
		var lens []int
		maxPayload := prodLimit - frameHeaderLength - maxExtraLen
		spec := c.P("lens", "1-64")
		if strings.Contains(spec, "-") {
			var a, b int
			fmt.Sscanf(spec, "%d-%d", &a, &b)
			if b > maxPayload {
				b = maxPayload
			}
			for l := a; l <= b; l++ {
				lens = append(lens, l)
			}
		} else {
			lens = parseInts(strings.ReplaceAll(spec, "max", strconv.Itoa(maxPayload)))
		}
		full := c.P("slice", "one") == "full"
		allPads := c.P("allpads", "0") == "1"
		tagLen := tagLenOf(method)
		maxPad := maxExtraLen - tagLen
		seqs := []uint64{0, 4, 5, 6, 1 << 32, ^uint64(0)}
		closings := []byte{0, 1, 2}
		pads := []int{0, 1, maxPad - 1, maxPad}
		if !full {
			seqs = []uint64{uint64(c.PI("seq", 0))}
			closings = []byte{byte(c.PI("closing", 0))}
			pads = []int{c.PI("pad", maxPad)}
		}
		if allPads {
			pads = nil
			for p := 0; p <= maxPad; p++ {
				pads = append(pads, p)
			}
		}
		src := make([]byte, maxPayload+8)
		for i := range src {
			src[i] = byte(i*31 + i>>8)
		}
		distinct := map[string]bool{}
		for _, l := range lens {
			for _, seq := range seqs {
				ps := pads
				if seq >= padFirstNFrames {
					ps = []int{0}
				}
				for _, cl := range closings {
					for _, pad := range ps {
						for ki := range c04Keys {
							if !full && ki > 0 {
								continue
							}
							cs := c04Case{Method: method, Len: l, Seq: seq, Closing: cl, StreamID: uint32(l)*2654435761 + uint32(seq), Pad: pad, KeyIdx: ki}
							msg := c04One(cs, src, c.Seed+uint64(l))
							rep.Executions++
							rep.Transitions++
							distinct[fmt.Sprintf("%d/%d/%d/%d", seq, cl, pad, ki)] = true
							if msg != "" {
								rep.Violations = append(rep.Violations, vx.Violation{Clause: "codec-roundtrip", Sig: vx.Sig(c.Job, "codec-roundtrip"), Msg: fmt.Sprintf("%+v: %s", cs, msg), Case: cs})
								rep.Exhaustive = false
								rep.CapHit = "stopped at first violation"
								rep.States = rep.Executions
								return rep
							}
							if len(rep.Samples) < 2 {
								rep.Samples = append(rep.Samples, cs)
							}
						}
					}
				}
			}
		}
		rep.States = rep.Executions
		rep.Outcomes["roundtrip-ok"] = rep.Executions
		rep.Outcomes[fmt.Sprintf("lengths=%d", len(lens))] = int64(len(lens))
		rep.Extra = map[string]any{"distinct_parameter_combinations": len(distinct), "lengths": len(lens)}
		return rep
	}})

	// payload length 0 and max+1 are refused, never mis-encoded
	vx.Register(&vx.Scenario{Name: "codec.limits", Prop: "C04", Run: func(c *vx.Ctx) *vx.Report {
		rep := &vx.Report{Job: c.Job, Engine: "enum", Outcomes: map[string]int64{}, Exhaustive: true}
		maxPayload := prodLimit - frameHeaderLength - maxExtraLen
		for _, m := range []byte{0, 1, 2, 3} {
			o, _ := MakeObfuscator(m, rigKey)
			for _, l := range []int{0, maxPayload + 1, maxPayload + 300} {
				buf := make([]byte, prodLimit)
				n, err := o.obfuscate(&Frame{StreamID: 1, Seq: 9, Payload: make([]byte, l)}, buf, 0)
				rep.Executions++
				rep.Transitions++
				if err == nil && (l == 0 || n > prodLimit) {
					rep.Violations = append(rep.Violations, vx.Violation{Clause: "size-limit", Sig: vx.Sig(c.Job, "size-limit"), Msg: fmt.Sprintf("method %d payload %d: obfuscate returned %d, nil", m, l, n)})
					rep.Exhaustive = false
				}
				rep.Outcomes[fmt.Sprintf("len%d:err=%v", l, err != nil)]++
			}
		}
		rep.States = rep.Executions
		rep.Samples = append(rep.Samples, map[string]any{"lengths": []int{0, maxPayload + 1, maxPayload + 300}})
		return rep
	}})

	// the limit a Session is *configured* with bounds every message it puts on the wire: Write and
	// ReadFrom, every method, padded first frames with the largest padding, full-size payloads
	vx.Register(&vx.Scenario{Name: "codec.sessionlimit", Prop: "C04", Run: func(c *vx.Ctx) *vx.Report {
		rep := &vx.Report{Job: c.Job, Engine: "enum", Outcomes: map[string]int64{}, Exhaustive: true}
		for _, limit := range []int{16401, 16640, 4096, 600} {
			for _, m := range []byte{0, 1, 2, 3} {
				for _, viaReadFrom := range []bool{false, true} {
					for _, pad := range []int{0, 1000} { // 1000 = "largest the implementation allows"
						o, _ := MakeObfuscator(m, rigKey)
						sesh := MakeSession(1, SessionConfig{Obfuscator: o, MsgOnWireSizeLimit: limit, InactivityTimeout: 1000 * time.Hour})
						rec := &recConn{}
						sesh.AddConnection(rec)
						vrt.PlainRandInt = func(n int) int {
							if pad >= n {
								return n - 1
							}
							return pad
						}
						st, err := sesh.OpenStream()
						data := make([]byte, 3*limit+17)
						if err == nil {
							if viaReadFrom {
								st.ReadFrom(&sliceReader{b: data})
							} else {
								_, err = st.Write(data)
							}
						}
						vrt.PlainRandInt = nil
						rep.Executions++
						rep.Transitions += int64(len(rec.writes))
						max := 0
						for _, w := range rec.writes {
							if len(w) > max {
								max = len(w)
							}
						}
						want := limit
						if err != nil || len(rec.writes) < 3 || max > want {
							rep.Violations = append(rep.Violations, vx.Violation{Clause: "size-limit", Sig: vx.Sig(c.Job, "size-limit"),
								Msg: fmt.Sprintf("session configured with MsgOnWireSizeLimit=%d, method %d, readFrom=%v, padding %d: %d messages, largest %d bytes (err %v)", limit, m, viaReadFrom, pad, len(rec.writes), max, err)})
							rep.Exhaustive = false
						}
						rep.Outcomes[fmt.Sprintf("limit=%d largest=%d", limit, max)]++
						sesh.Close()
					}
				}
			}
		}
		rep.States = rep.Executions
		rep.Samples = append(rep.Samples, map[string]any{"limits": []int{16401, 16640, 4096, 600}})
		return rep
	}})

	// codec.recvlimit: "and vice versa" - whatever limit a session is configured with for what it
	// sends, it accepts every valid message a peer may send (up to the protocol's 16640 bytes) through
	// the record layer: senders with limits 16640 / 16401, receivers with 16401 / 16640 / 4096 / 600,
	// full-size payloads with maximal and without padding, all methods.
	vx.Register(&vx.Scenario{Name: "codec.recvlimit", Prop: "C04", Run: func(c *vx.Ctx) *vx.Report {
		rep := &vx.Report{Job: c.Job, Engine: "enum", Outcomes: map[string]int64{}, Exhaustive: true}
		for _, sendLimit := range []int{16640, 16401} {
			for _, recvLimit := range []int{16401, 16640, 4096, 600} {
				for _, m := range []byte{0, 1, 2, 3} {
					for _, pad := range []int{0, 1000} {
						o, _ := MakeObfuscator(m, rigKey)
						snd := MakeSession(1, SessionConfig{Obfuscator: o, MsgOnWireSizeLimit: sendLimit, InactivityTimeout: 1000 * time.Hour})
						rcv := MakeSession(1, SessionConfig{Obfuscator: o, MsgOnWireSizeLimit: recvLimit, InactivityTimeout: 1000 * time.Hour})
						net := vnet.New()
						a, b := net.Pair("rl", false)
						snd.AddConnection(common.NewTLSConn(a))
						rcv.AddConnection(common.NewTLSConn(b))
						vrt.PlainRandInt = func(n int) int {
							if pad >= n {
								return n - 1
							}
							return pad
						}
						st, _ := snd.OpenStream()
						data := make([]byte, snd.maxStreamUnitWrite) // one full frame, among the padded first ones
						for i := range data {
							data[i] = byte(i*13 + int(m))
						}
						_, werr := st.Write(data)
						vrt.PlainRandInt = nil
						largest := 0
						for _, t := range net.Tap {
							if len(t.Data) > largest {
								largest = len(t.Data)
							}
						}
						msg := ""
						var conn io.Reader
						var err error
						if werr == nil { // (nothing reaches the receiver otherwise: Accept would wait for ever)
							conn, err = rcv.Accept()
						}
						if werr != nil || err != nil {
							msg = fmt.Sprintf("Write of one full frame: %v, Accept at the receiver: %v (receiver closed: %v, %q)", werr, err, rcv.IsClosed(), rcv.TerminalMsg())
						} else {
							got := make([]byte, len(data))
							if _, err := io.ReadFull(conn, got); err != nil || !bytes.Equal(got, data) {
								msg = fmt.Sprintf("the receiver read %v (receiver closed: %v, %q)", err, rcv.IsClosed(), rcv.TerminalMsg())
							}
						}
						rep.Executions++
						rep.Transitions++
						if msg != "" {
							rep.Violations = append(rep.Violations, vx.Violation{Clause: "peer-messages-accepted", Sig: vx.Sig(c.Job, "peer-messages-accepted"),
								Msg: fmt.Sprintf("sender limit %d, receiver limit %d, method %d, padding %d (largest record on the wire %d bytes): %s", sendLimit, recvLimit, m, pad, largest, msg)})
							rep.Exhaustive = false
						}
						rep.Outcomes[fmt.Sprintf("send=%d recv=%d", sendLimit, recvLimit)]++
						snd.Close()
						rcv.Close()
					}
				}
			}
		}
		rep.States = rep.Executions
		return rep
	}})

	vx.RegisterJobs("C04", func(tier string) []vx.Job {
		var jobs []vx.Job
		methods := []string{"plain", "aes-256-gcm", "aes-128-gcm", "chacha20-poly1305"}
		maxPayload := prodLimit - frameHeaderLength - maxExtraLen
		for _, m := range methods {
			if tier == "quick" {
				// every length for one slice; the full product on boundary lengths; all paddings on the extremes
				jobs = append(jobs, vx.Job{Scenario: "codec.roundtrip", Params: vx.P("method", m, "lens", "1-16132", "slice", "one", "seq", "0"), Weight: 9})
				jobs = append(jobs, vx.Job{Scenario: "codec.roundtrip", Params: vx.P("method", m, "lens", "1-16132", "slice", "one", "seq", "5", "closing", "1"), Weight: 8})
				jobs = append(jobs, vx.Job{Scenario: "codec.roundtrip", Params: vx.P("method", m, "lens", "1,2,15,16,17,255,256,257,1000,max", "slice", "full"), Weight: 3})
				jobs = append(jobs, vx.Job{Scenario: "codec.roundtrip", Params: vx.P("method", m, "lens", "1,max", "slice", "one", "allpads", "1"), Weight: 3})
			} else {
				step := 1009
				for a := 1; a <= maxPayload; a += step {
					jobs = append(jobs, vx.Job{Scenario: "codec.roundtrip", Params: vx.P("method", m, "lens", fmt.Sprintf("%d-%d", a, a+step-1), "slice", "full"), Weight: 9})
				}
				jobs = append(jobs, vx.Job{Scenario: "codec.roundtrip", Params: vx.P("method", m, "lens", "1,2,255,256,max", "slice", "full", "allpads", "1"), Weight: 9})
			}
		}
		jobs = append(jobs, vx.Job{Scenario: "codec.limits", Weight: 1}, vx.Job{Scenario: "codec.sessionlimit", Weight: 2}, vx.Job{Scenario: "codec.recvlimit", Weight: 2})
		// the unordered Stream.Write path in front of the codec: every size up to the per-frame maximum
		// must yield exactly one message within the limit, the first size beyond it none
		st := "37"
		if tier != "quick" {
			st = "1"
		}
		// what is on the wire decodes to what was sent also when senders overlap after an earlier stream was
		// closed (recycling pools), and for the closing notice of an idle session with extreme padding draws
		jobs = append(jobs, vx.Job{Scenario: "mux.transfer", Params: vx.P("conns", "1", "streams", "2", "writes", "300", "unit", "256", "pool", "recycle", "preclose", "1"), Bound: 1, BudgetS: 100, Weight: 7},
			vx.Job{Scenario: "mux.timeout", Params: vx.P("op", "idle", "draws", "max"), Bound: 1, BudgetS: 100, Weight: 3},
			vx.Job{Scenario: "mux.timeout", Params: vx.P("op", "idle", "draws", "min"), Bound: 1, BudgetS: 100, Weight: 3})
		jobs = append(jobs, vx.Job{Scenario: "dgram.sizes", Params: vx.P("method", "plain", "step", st), Weight: 3},
			vx.Job{Scenario: "dgram.sizes", Params: vx.P("method", "aes-256-gcm", "step", st), Weight: 3})
		return jobs
	})
}

// recConn records every message written to it and never delivers anything.
type recConn struct {
	writes [][]byte
	closed chan struct{}
}

func (r *recConn) Read(b []byte) (int, error) {
	if r.closed == nil {
		r.closed = make(chan struct{})
	}
	<-r.closed
	return 0, io.EOF
}
func (r *recConn) Write(b []byte) (int, error) {
	r.writes = append(r.writes, append([]byte{}, b...))
	return len(b), nil
}
func (r *recConn) Close() error {
	if r.closed == nil {
		r.closed = make(chan struct{})
	}
	select {
	case <-r.closed:
	default:
		close(r.closed)
	}
	return nil
}
func (r *recConn) LocalAddr() net.Addr                 { return nil }
func (r *recConn) RemoteAddr() net.Addr                { return nil }
func (r *recConn) SetDeadline(t rtime.Time) error      { return nil }
func (r *recConn) SetReadDeadline(t rtime.Time) error  { return nil }
func (r *recConn) SetWriteDeadline(t rtime.Time) error { return nil }

type sliceReader struct{ b []byte }

func (s *sliceReader) Read(p []byte) (int, error) {
	if len(s.b) == 0 {
		return 0, io.EOF
	}
	n := copy(p, s.b)
	s.b = s.b[n:]
	return n, nil
}
