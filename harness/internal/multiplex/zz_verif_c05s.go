//go:build verif

package multiplex

import (
	"bytes"
	"fmt"
	"io"

	"github.com/cbeuw/Cloak/internal/common"
	"github.com/cbeuw/Cloak/internal/vnet"
	"github.com/cbeuw/Cloak/internal/vrt"
	"github.com/cbeuw/Cloak/internal/vrt/sync"
	"github.com/cbeuw/Cloak/internal/vx"
)

// C05 driver at the consumer: a session reads its connection through the record layer; the byte
// stream carrying `frames` records (one data frame each) ends after `cut` bytes, for every cut. A
// record is handed to the session whole or not at all: the stream's reader gets exactly the payloads
// of the records that lie completely before the cut - nothing of the record the cut falls into.
func init() {
	vx.Register(&vx.Scenario{Name: "mux.cutrecord", Prop: "C05", Run: func(c *vx.Ctx) *vx.Report {
		nf, plen := c.PI("frames", 3), c.PI("plen", 7)
		o, _ := MakeObfuscator(EncryptionMethodPlain, rigKey)
		var wire []byte
		var ends []int // wire offset at which record i is complete
		var pay [][]byte
		for i := 0; i < nf; i++ {
			p := patternBytes(0, i%2, i*plen, plen)
			f := &Frame{StreamID: 1, Seq: uint64(i), Payload: p}
			buf := make([]byte, 1024)
			n, err := o.obfuscate(f, buf, 0)
			if err != nil {
				panic(err)
			}
			wire = append(wire, 0x17, 0x03, 0x03, byte(n>>8), byte(n))
			wire = append(wire, buf[:n]...)
			ends = append(ends, len(wire))
			pay = append(pay, p)
		}
		sc := &vrt.Scenario{
			Opt:      vrt.Options{Delay: true},
			Classify: deadlockIs("blocked-calls-return: the session did not notice the end of its connection"),
			Main: func() {
				cut := vrt.Choose(len(wire)+1, "cut")
				net := vnet.New()
				a, b := net.Pair("rec", false)
				sesh := MakeSession(7, SessionConfig{Obfuscator: o, Valve: UNLIMITED_VALVE, MsgOnWireSizeLimit: 16401})
				sesh.AddConnection(common.NewTLSConn(b))
				if cut > 0 {
					if _, err := a.Write(wire[:cut]); err != nil {
						vrt.Fail("harness", "feeding the connection: %v", err)
					}
				}
				a.Close()
				var want []byte
				for i, e := range ends {
					if e <= cut {
						want = append(want, pay[i]...)
					}
				}
				var got []byte
				nstreams := 0
				for {
					conn, err := sesh.Accept()
					if err != nil {
						break
					}
					nstreams++
					d, _ := io.ReadAll(conn)
					got = append(got, d...)
				}
				wantStreams := 0
				if len(want) > 0 {
					wantStreams = 1
				}
				if nstreams != wantStreams {
					vrt.Fail("record-whole-or-not-at-all", "byte stream of %d records cut after %d bytes (record boundaries at %v): %d streams were opened at the receiver, the complete records open %d", nf, cut, ends, nstreams, wantStreams)
				}
				if !sesh.IsClosed() {
					vrt.Fail("connection-end-closes-session", "the connection ended after %d bytes and the session is still open", cut)
				}
				if !bytes.Equal(got, want) {
					vrt.Fail("record-whole-or-not-at-all", "byte stream of %d records cut after %d bytes (record boundaries at %v): the stream's reader got %d bytes %x, the complete records carry %d bytes", nf, cut, ends, len(got), trunc(got), len(want))
				}
				vrt.Observe("whole=%d", len(want)/plen)
			},
		}
		rep := vx.RunSched(c, sc, sigOf("C05"))
		rep.Notes = append(rep.Notes, fmt.Sprintf("wire bytes %d, cuts 0..%d", len(wire), len(wire)))
		return rep
	}})
}

// C05 driver: a record larger than the reader's buffer. Between two valid records the connection
// carries one record announcing `n` > 20480 bytes (an explorer choice), whose body contains, at a
// chosen offset, the complete bytes of a valid frame for another stream - what a peer with a larger
// message limit, or a hostile one, could send. "Reported as an error, never delivered truncated":
// nothing that was not itself sent as a record ever reaches a stream - the embedded frame's stream is
// never opened, and stream 1 carries only the payloads of the two whole records (or of the first, if
// the session gave up on the connection).
func init() {
	vx.Register(&vx.Scenario{Name: "mux.oversizerecord", Prop: "C05", Run: func(c *vx.Ctx) *vx.Report {
		o, _ := MakeObfuscator(methodOf(c.P("method", "aes-256-gcm")), rigKey)
		rec := func(b []byte) []byte {
			return append([]byte{0x17, 0x03, 0x03, byte(len(b) >> 8), byte(len(b))}, b...)
		}
		p1, p2 := []byte("first whole record"), []byte("second whole record")
		f1 := rec(c11Encode(&o, 1, 0, 0, p1, 0))
		f2 := rec(c11Encode(&o, 1, 1, 0, p2, 0))
		inner := c11Encode(&o, 9, 0, 0, []byte("never sent as a record of its own"), 0)
		sizes := []int{20481, 20485, 20480 + len(inner), 24000, 40000, 65535}
		sc := &vrt.Scenario{
			Opt:      vrt.Options{Delay: true},
			Classify: deadlockIs("blocked-calls-return"),
			Main: func() {
				n := sizes[vrt.Choose(len(sizes), "announced-length")]
				// where the embedded frame starts: right where a reader that swallowed one buffer-full (or
				// only the header) of the oversize body would look for the next record
				offs := []int{0, 20480 - 5, 20480, n - len(inner) - 5}
				off := offs[vrt.Choose(len(offs), "embedded-at")]
				body := make([]byte, n)
				for i := range body {
					body[i] = byte(i*31 + 7)
				}
				if off >= 0 && off+5+len(inner) <= n {
					copy(body[off:], rec(inner))
				}
				net := vnet.New()
				a, b := net.Pair("rec", false)
				sesh := MakeSession(7, SessionConfig{Obfuscator: o, Valve: UNLIMITED_VALVE, MsgOnWireSizeLimit: prodLimit})
				sesh.AddConnection(common.NewTLSConn(b))
				got := map[uint32][]byte{}
				var wg sync.WaitGroup
				wg.Add(1)
				vrt.Go("app", func() { // accepts streams as they appear (after the session has closed Accept refuses: F15)
					defer wg.Done()
					for {
						conn, err := sesh.Accept()
						if err != nil {
							return
						}
						wg.Add(1)
						vrt.Go("reader", func() {
							defer wg.Done()
							d, _ := io.ReadAll(conn)
							got[conn.(*Stream).id] = d
						})
					}
				})
				a.Write(f1)
				quiesce()
				a.Write(rec(body))
				a.Write(f2)
				quiesce()
				a.Close()
				quiesce()
				sesh.Close()
				wg.Wait()
				for id, d := range got {
					if id != 1 {
						vrt.Fail("oversize-is-an-error", "a record announcing %d bytes (reader's buffer: 20480) with a frame embedded at offset %d of its body: stream %d was opened and delivered %q, which was never sent as a record", n, off, id, trunc(d))
					}
				}
				if d := got[1]; !bytes.Equal(d, p1) && !bytes.Equal(d, append(append([]byte{}, p1...), p2...)) {
					vrt.Fail("oversize-is-an-error", "a record announcing %d bytes between two whole records: stream 1 delivered %q", n, trunc(d))
				}
				vrt.Observe("closed=%v", sesh.IsClosed())
			},
		}
		return vx.RunSched(c, sc, sigOf("C05"))
	}})
}
