//go:build verif

package multiplex

import (
	"bytes"
	"fmt"
	"io"

	"github.com/cbeuw/Cloak/internal/common"
	"github.com/cbeuw/Cloak/internal/vnet"
	"github.com/cbeuw/Cloak/internal/vrt"
	"github.com/cbeuw/Cloak/internal/vx"
)

// C05 driver at the consumer: a session reads its connection through the record layer; the byte
// stream carrying `frames` records (one data frame each) ends after `cut` bytes, for every cut. A
// record is handed to the session whole or not at all: the stream's reader gets exactly the payloads
// of the records that lie completely before the cut - nothing of the record the cut falls into.
func init() {
	vx.Register(&vx.Scenario{Name: "mux.cutrecord", Prop: "C05", Run: func(c *vx.Ctx) *vx.Report {
		nf, plen := c.PI("frames", 3), c.PI("plen", 7)
		o, _ := MakeObfuscator(EncryptionMethodPlain, rigKey)
		var wire []byte
		var ends []int // wire offset at which record i is complete
		var pay [][]byte
		for i := 0; i < nf; i++ {
			p := patternBytes(0, i%2, i*plen, plen)
			f := &Frame{StreamID: 1, Seq: uint64(i), Payload: p}
			buf := make([]byte, 1024)
			n, err := o.obfuscate(f, buf, 0)
			if err != nil {
				panic(err)
			}
			wire = append(wire, 0x17, 0x03, 0x03, byte(n>>8), byte(n))
			wire = append(wire, buf[:n]...)
			ends = append(ends, len(wire))
			pay = append(pay, p)
		}
		sc := &vrt.Scenario{
			Opt:      vrt.Options{Delay: true},
			Classify: deadlockIs("blocked-calls-return: the session did not notice the end of its connection"),
			Main: func() {
				cut := vrt.Choose(len(wire)+1, "cut")
				net := vnet.New()
				a, b := net.Pair("rec", false)
				sesh := MakeSession(7, SessionConfig{Obfuscator: o, Valve: UNLIMITED_VALVE, MsgOnWireSizeLimit: 16401})
				sesh.AddConnection(common.NewTLSConn(b))
				if cut > 0 {
					if _, err := a.Write(wire[:cut]); err != nil {
						vrt.Fail("harness", "feeding the connection: %v", err)
					}
				}
				a.Close()
				var want []byte
				for i, e := range ends {
					if e <= cut {
						want = append(want, pay[i]...)
					}
				}
				var got []byte
				nstreams := 0
				for {
					conn, err := sesh.Accept()
					if err != nil {
						break
					}
					nstreams++
					d, _ := io.ReadAll(conn)
					got = append(got, d...)
				}
				wantStreams := 0
				if len(want) > 0 {
					wantStreams = 1
				}
				if nstreams != wantStreams {
					vrt.Fail("record-whole-or-not-at-all", "byte stream of %d records cut after %d bytes (record boundaries at %v): %d streams were opened at the receiver, the complete records open %d", nf, cut, ends, nstreams, wantStreams)
				}
				if !sesh.IsClosed() {
					vrt.Fail("connection-end-closes-session", "the connection ended after %d bytes and the session is still open", cut)
				}
				if !bytes.Equal(got, want) {
					vrt.Fail("record-whole-or-not-at-all", "byte stream of %d records cut after %d bytes (record boundaries at %v): the stream's reader got %d bytes %x, the complete records carry %d bytes", nf, cut, ends, len(got), trunc(got), len(want))
				}
				vrt.Observe("whole=%d", len(want)/plen)
			},
		}
		rep := vx.RunSched(c, sc, sigOf("C05"))
		rep.Notes = append(rep.Notes, fmt.Sprintf("wire bytes %d, cuts 0..%d", len(wire), len(wire)))
		return rep
	}})
}
