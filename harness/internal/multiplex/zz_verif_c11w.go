//go:build verif

package multiplex

import (
	"runtime/debug"

	"bytes"
	"fmt"
	"github.com/gorilla/websocket"
	"io"

	"github.com/cbeuw/Cloak/internal/common"
	"github.com/cbeuw/Cloak/internal/vnet"
	"github.com/cbeuw/Cloak/internal/vrt"
	"github.com/cbeuw/Cloak/internal/vrt/time"
	"github.com/cbeuw/Cloak/internal/vx"
)

// C11 driver through the real read loop: the connection carries a valid frame, then a record anyone
// on the path can inject without a key (every length from a menu including 0, three fills), then a
// second valid frame. The injected record is dropped without effect: the session stays open, no
// stream appears, and both valid frames are delivered in order.
func init() {
	vx.Register(&vx.Scenario{Name: "mux.garbagerecord", Prop: "C11", Run: func(c *vx.Ctx) *vx.Report {
		method := methodOf(c.P("method", "aes-256-gcm"))
		lens := []int{0, 1, 2, 5, 13, 14, 15, 16, 21, 22, 29, 30, 31, 32, 64, 300, 16640}
		if method == EncryptionMethodPlain {
			lens = []int{0, 1, 2, 5, 13} // shorter than a frame header: not a frame under any method
		}
		ws := c.P("ws", "0") == "1"
		if ws && method != EncryptionMethodPlain {
			// the WebSocket transport: binary messages up to exactly the size of the session's read buffer
			lens = []int{0, 1, 13, 14, 15, 30, 31, 300, 16640, 20479, 20480}
		}
		o, _ := MakeObfuscator(method, rigKey)
		rec := func(b []byte) []byte {
			if ws {
				return b // one binary message per Write
			}
			return append([]byte{0x17, 0x03, 0x03, byte(len(b) >> 8), byte(len(b))}, b...)
		}
		p1, p2 := []byte("first valid frame"), []byte("second valid frame")
		f1 := rec(c11Encode(&o, 1, 0, 0, p1, 0))
		f2 := rec(c11Encode(&o, 1, 1, 0, p2, 0))
		sc := &vrt.Scenario{
			Opt:      vrt.Options{Delay: c.P("delay", "1") == "1"},
			Classify: deadlockIs("garbage-without-effect: after the injected record the reader never got the second valid frame"),
			Main: func() {
				n := lens[vrt.Choose(len(lens), "len")]
				kind := vrt.Choose(3, "fill")
				g := make([]byte, n)
				x := uint64(n)*2654435761 + 12345
				for i := range g {
					switch kind {
					case 1:
						g[i] = 0xff
					case 2:
						x = x*6364136223846793005 + 1442695040888963407
						g[i] = byte(x >> 33)
					}
				}
				net := vnet.New()
				sesh := MakeSession(7, SessionConfig{Obfuscator: o, Valve: UNLIMITED_VALVE, MsgOnWireSizeLimit: prodLimit})
				var a io.Writer
				if ws {
					cliW, srvW, _, _ := common.VerifWSPair(net, "rec")
					sesh.AddConnection(srvW)
					a = cliW
				} else {
					ca, b := net.Pair("rec", false)
					sesh.AddConnection(common.NewTLSConn(b))
					a = ca
				}
				if c.PI("conns", 1) == 2 {
					// the injected record comes first; the two valid frames then arrive on two connections and are
					// handled by two receive loops at the same time
					a2, b2 := net.Pair("rec2", false)
					sesh.AddConnection(common.NewTLSConn(b2))
					a.Write(rec(g))
					quiesce()
					a.Write(f1)
					a2.Write(f2)
				} else {
					a.Write(f1)
					a.Write(rec(g))
					a.Write(f2)
				}
				conn, err := sesh.Accept()
				if err != nil {
					vrt.Fail("garbage-without-effect", "an injected %d-byte record (fill %d) between two valid frames: Accept failed: %v (session closed: %v, %q)", n, kind, err, sesh.IsClosed(), sesh.TerminalMsg())
				}
				want := append(append([]byte{}, p1...), p2...)
				got := make([]byte, len(want))
				if _, err := io.ReadFull(conn, got); err != nil || !bytes.Equal(got, want) {
					vrt.Fail("garbage-without-effect", "an injected %d-byte record (fill %d) between two valid frames: the reader got %q, %v (session closed: %v, %q)", n, kind, got, err, sesh.IsClosed(), sesh.TerminalMsg())
				}
				quiesce()
				sesh.streamsM.Lock()
				ns := len(sesh.streams)
				sesh.streamsM.Unlock()
				if sesh.IsClosed() || ns != 1 {
					vrt.Fail("garbage-without-effect", "an injected %d-byte record (fill %d): session closed=%v (%q), streams=%d (want open, 1)", n, kind, sesh.IsClosed(), sesh.TerminalMsg(), ns)
				}
				vrt.Observe("dropped")
			},
		}
		rep := vx.RunSched(c, sc, sigOf("C11"))
		rep.Notes = append(rep.Notes, fmt.Sprintf("injected record lengths %v x fills zeros/ones/lcg (websocket transport: %v)", lens, ws))
		return rep
	}})
}

// C11 driver: "dropped without effect" includes time. A session without open streams closes itself on
// its inactivity timer; records that fail authentication, injected every `every` seconds, do not keep
// it alive: after 2.5 timeouts it is closed, exactly as without them.
func init() {
	vx.Register(&vx.Scenario{Name: "mux.junkidle", Prop: "C11", Run: func(c *vx.Ctx) *vx.Report {
		method := methodOf(c.P("method", "aes-256-gcm"))
		sc := &vrt.Scenario{
			Opt:      vrt.Options{Delay: true, HorizonNs: int64(200 * time.Second)},
			Classify: deadlockIs("no-deadlock"),
			Main: func() {
				timeout := 10 * time.Second
				every := time.Duration(c.PI("every", 4)) * time.Second
				o, _ := MakeObfuscator(method, rigKey)
				net := vnet.New()
				a, b := net.Pair("idle", false)
				sesh := MakeSession(7, SessionConfig{Obfuscator: o, Valve: UNLIMITED_VALVE, MsgOnWireSizeLimit: prodLimit, InactivityTimeout: timeout})
				sesh.AddConnection(common.NewTLSConn(b))
				junk := make([]byte, 200)
				for i := range junk {
					junk[i] = byte(i*37 + 11)
				}
				rec := append([]byte{0x17, 0x03, 0x03, 0, byte(len(junk))}, junk...)
				for t := time.Duration(0); t < 25*time.Second; t += every {
					time.Sleep(every)
					if sesh.IsClosed() {
						break
					}
					a.Write(rec)
				}
				quiesce()
				if !sesh.IsClosed() {
					vrt.Fail("garbage-without-effect", "a session with no stream and a %v inactivity timeout is still open after %v because records that fail authentication arrive every %v", timeout, time.Duration(vrt.NowNs()), every)
				}
				vrt.Observe("closed")
			},
		}
		return vx.RunSched(c, sc, sigOf("C11"))
	}})
}

// C11 driver: a long run of messages that are not binary frames. Over the WebSocket transport a peer
// (or anything on the path that speaks WebSocket) can send text messages; Cloak ignores them. 400000 of
// them in a row, then a genuine frame: the frame is delivered, and the receiving goroutine has not grown
// with the number of ignored messages (the stack limit of this process is lowered to 32 MiB so that a
// per-message leak of a few dozen bytes of stack ends the process - reported by vcheck as a crash).
// Free-running.
func init() {
	vx.Register(&vx.Scenario{Name: "ws.textflood", Prop: "C11", Run: func(c *vx.Ctx) *vx.Report {
		rep := &vx.Report{Job: c.Job, Engine: "enum", Outcomes: map[string]int64{}, Exhaustive: true}
		debug.SetMaxStack(32 << 20)
		n := c.PI("n", 400000)
		o, _ := MakeObfuscator(methodOf(c.P("method", "aes-256-gcm")), rigKey)
		nw := vnet.New()
		nw.NoTap = true
		cliW, srvW, _, _ := common.VerifWSPair(nw, "flood")
		sesh := MakeSession(7, SessionConfig{Obfuscator: o, Valve: UNLIMITED_VALVE, MsgOnWireSizeLimit: prodLimit})
		sesh.AddConnection(srvW)
		for i := 0; i < n; i++ {
			if err := cliW.Conn.WriteMessage(websocket.TextMessage, nil); err != nil {
				rep.HarnessError = "writing a text message: " + err.Error()
				return rep
			}
		}
		p := []byte("a genuine frame after the flood")
		cliW.Write(c11Encode(&o, 1, 0, 0, p, 0))
		conn, err := sesh.Accept()
		msg := ""
		if err != nil {
			msg = fmt.Sprintf("after %d ignored text messages Accept failed: %v (session closed: %v, %q)", n, err, sesh.IsClosed(), sesh.TerminalMsg())
		} else {
			got := make([]byte, len(p))
			if _, err := io.ReadFull(conn, got); err != nil || !bytes.Equal(got, p) {
				msg = fmt.Sprintf("after %d ignored text messages the genuine frame was read as %q, %v", n, got, err)
			}
		}
		rep.Executions, rep.Transitions, rep.States = 1, int64(n)+1, 1
		if msg != "" {
			rep.Violations = append(rep.Violations, vx.Violation{Clause: "garbage-without-effect", Sig: vx.Sig(c.Job, "garbage-without-effect"), Msg: msg})
			rep.Exhaustive = false
		}
		rep.Outcomes["delivered"]++
		sesh.Close()
		return rep
	}})
}
