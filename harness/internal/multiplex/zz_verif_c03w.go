//go:build verif

package multiplex

import (
	"bytes"
	"errors"
	"fmt"
	"github.com/cbeuw/Cloak/internal/vnet"

	"github.com/cbeuw/Cloak/internal/vrt"
	"github.com/cbeuw/Cloak/internal/vrt/sync"
	"github.com/cbeuw/Cloak/internal/vx"
)

// C03 driver (c): Close overlapping Writes on the same stream. `writers` goroutines each issue one
// Write of `len` bytes while another goroutine closes the stream; the peer reads to the end. Every
// Write overlaps the Close, so each may succeed or be refused - but a Write that reported success is
// "written before the close" and the peer must read it before the end-of-stream error; a refused Write
// contributes nothing; and nothing else is delivered.
func init() {
	vx.Register(&vx.Scenario{Name: "mux.wclose", Prop: "C03", Run: func(c *vx.Ctx) *vx.Report {
		nconn := c.PI("conns", 2)
		nw, ln := c.PI("writers", 2), c.PI("len", 5)
		unit := c.PI("unit", 256)
		sc := &vrt.Scenario{
			Opt:      vrt.Options{RandInt: chooseConnOpt(), Delay: c.P("delay", "0") == "1"},
			Classify: deadlockIs("blocked-calls-return: a Read/Write/Close/Accept never returned"),
			Main: func() {
				r := newMuxRig(rigCfg{conns: nconn, method: methodOf(c.P("method", "plain")), unit: unit})
				cs, err := r.cli.OpenStream()
				if err != nil {
					vrt.Fail("harness", "OpenStream: %v", err)
				}
				var wg sync.WaitGroup
				var got []byte
				var rerr error
				wg.Add(1)
				vrt.Go("srv", func() {
					defer wg.Done()
					conn, err := r.srv.Accept()
					if err != nil {
						vrt.Fail("harness", "Accept: %v", err)
					}
					b := make([]byte, 1000)
					for {
						n, err := conn.Read(b)
						got = append(got, b[:n]...)
						if err != nil {
							rerr = err
							return
						}
					}
				})
				first := []byte{0x42}
				if _, err := cs.Write(first); err != nil {
					vrt.Fail("harness", "first write: %v", err)
				}
				quiesce()
				acked := make([]bool, nw)
				for i := 0; i < nw; i++ {
					i := i
					wg.Add(1)
					vrt.Go(fmt.Sprintf("writer%d", i), func() {
						defer wg.Done()
						n, err := cs.Write(patternBytes(0, i+1, 0, ln))
						switch {
						case err == nil && n == ln:
							acked[i] = true
						case err != nil && n == 0 && errors.Is(err, ErrBrokenStream):
						default:
							vrt.Fail("write-result", "Write(%d bytes) overlapping Close returned %d, %v", ln, n, err)
						}
					})
				}
				wg.Add(1)
				vrt.Go("closer", func() {
					defer wg.Done()
					if err := cs.Close(); err != nil {
						vrt.Fail("close-ok", "Close returned %v", err)
					}
					if n, err := cs.Write([]byte{0xff}); err == nil {
						vrt.Fail("write-after-close-fails", "Write after Close returned %d, nil", n)
					}
				})
				wg.Wait()
				if !errors.Is(rerr, ErrBrokenStream) {
					vrt.Fail("end-of-stream-error", "peer Read ended with %v, want ErrBrokenStream", rerr)
				}
				if !bytes.HasPrefix(got, first) {
					vrt.Fail("all-bytes-before-eof", "peer read %x, which does not start with the first write", trunc(got))
				}
				rest := got[len(first):]
				nack := 0
				for i := 0; i < nw; i++ {
					p := patternBytes(0, i+1, 0, ln)
					k := bytes.Count(rest, p)
					if acked[i] {
						nack++
						if k != 1 {
							vrt.Fail("all-bytes-before-eof", "Write %d reported success (%d bytes) while Close was in progress, but the peer read those bytes %d times before end-of-stream (read %d bytes in all)", i, ln, k, len(rest))
						}
					} else if k != 0 {
						vrt.Fail("refused-write-not-delivered", "Write %d was refused but the peer read its bytes", i)
					}
				}
				if len(rest) != nack*ln {
					vrt.Fail("all-bytes-before-eof", "peer read %d bytes after the first write; %d writes of %d bytes were acknowledged", len(rest), nack, ln)
				}
				vrt.Observe("acked=%d", nack)
			},
		}
		return vx.RunSched(c, sc, sigOf("C03"))
	}})
}

// C03 driver (d): the peer's close arrives while a local Write on that stream is stalled by
// back-pressure (the peer is not draining the connection). "Once a side has processed the peer's
// close its blocked reads return": the parked reader gets everything written before the close and
// then the broken-stream error, although the stalled Write still holds the stream's write lock.
func init() {
	vx.Register(&vx.Scenario{Name: "mux.stalledwriter", Prop: "C03", Run: func(c *vx.Ctx) *vx.Report {
		viaReadFrom := c.P("via", "write") == "readfrom"
		sc := &vrt.Scenario{
			Opt:      vrt.Options{Delay: true},
			Classify: deadlockIs("blocked-calls-return: a Read never returned"),
			Main: func() {
				o, _ := MakeObfuscator(EncryptionMethodPlain, rigKey)
				net := vnet.New()
				a, b := net.Pair("bp", true)
				b.SetWriteLimit(1) // the session's writes stall once anything is queued towards the silent peer
				sesh := MakeSession(7, SessionConfig{Obfuscator: o, Valve: UNLIMITED_VALVE, MsgOnWireSizeLimit: 600})
				sesh.AddConnection(b)
				data := []byte("bytes the peer wrote before closing")
				a.Write(c11Encode(&o, 1, 0, 0, data, 0))
				conn, err := sesh.Accept()
				if err != nil {
					vrt.Fail("harness", "Accept: %v", err)
				}
				st := conn.(*Stream)
				var wg sync.WaitGroup
				var got []byte
				var rerr error
				readerDone := false
				wg.Add(2)
				vrt.Go("reader", func() {
					defer wg.Done()
					buf := make([]byte, 100)
					for {
						n, err := st.Read(buf)
						got = append(got, buf[:n]...)
						if err != nil {
							rerr, readerDone = err, true
							return
						}
					}
				})
				vrt.Go("writer", func() {
					defer wg.Done()
					if viaReadFrom {
						src, dst := net.Pair("src", false)
						vrt.Go("source", func() {
							src.Write(make([]byte, 50))
							quiesce()
							src.Write(make([]byte, 50))
						})
						st.ReadFrom(dst)
						return
					}
					for i := 0; i < 3; i++ {
						if _, err := st.Write(make([]byte, 50)); err != nil {
							return
						}
					}
				})
				quiesce()
				a.Write(c11Encode(&o, 1, 1, closingStream, []byte{0}, 0))
				quiesce()
				if !readerDone {
					vrt.Fail("blocked-reads-return", "the peer's closing notice arrived while a local write on the stream was stalled by back-pressure: the parked reader was not woken (it has read %d of %d bytes)", len(got), len(data))
				}
				if !errors.Is(rerr, ErrBrokenStream) || !bytes.Equal(got, data) {
					vrt.Fail("all-bytes-before-eof", "reader got %q then %v; the peer wrote %q and closed", got, rerr, data)
				}
				a.Close() // lets the stalled writer go
				wg.Wait()
				vrt.Observe("reader woken")
			},
		}
		return vx.RunSched(c, sc, sigOf("C03"))
	}})
}
