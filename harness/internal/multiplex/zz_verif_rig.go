//go:build verif

package multiplex

import (
	"fmt"
	"strings"

	"github.com/cbeuw/Cloak/internal/vnet"
	"github.com/cbeuw/Cloak/internal/vrt"
	"github.com/cbeuw/Cloak/internal/vrt/sync"
	"github.com/cbeuw/Cloak/internal/vrt/time"
	"github.com/cbeuw/Cloak/internal/vx"
)

// muxRig is a directly wired pair of Sessions over vnet message connections (one Write = one
// Read, the contract TLSConn/WebSocketConn give the multiplexer; C05 checks that contract).
type muxRig struct {
	net      *vnet.Net
	cli, srv *Session
	ca, sa   []*vnet.Conn // client-side / server-side ends
	unit     int
	wlimit   int
}

type rigCfg struct {
	conns      int
	unordered  bool
	singleplex bool
	method     byte
	unit       int // payload bytes per frame (0 = production size)
	inactivity time.Duration
	cliValve   Valve
	srvValve   Valve
	wlimit     int // > 0: a connection end's Write blocks while this many bytes are still unread by the peer (back-pressure)
}

var rigKey = [32]byte{1, 2, 3, 4, 5, 6, 7, 8, 9, 10, 11, 12, 13, 14, 15, 16, 17, 18, 19, 20, 21, 22, 23, 24, 25, 26, 27, 28, 29, 30, 31, 32}

func newMuxRig(cfg rigCfg) *muxRig {
	r := &muxRig{net: vnet.New(), unit: cfg.unit, wlimit: cfg.wlimit}
	limit := 0
	if cfg.unit > 0 {
		limit = cfg.unit + frameHeaderLength + maxExtraLen
	}
	if cfg.inactivity == 0 {
		cfg.inactivity = 1000 * time.Hour
	}
	mk := func(id uint32, v Valve, singleplex bool) *Session {
		o, err := MakeObfuscator(cfg.method, rigKey)
		if err != nil {
			panic(err)
		}
		return MakeSession(id, SessionConfig{Obfuscator: o, Valve: v, Unordered: cfg.unordered, Singleplex: singleplex,
			MsgOnWireSizeLimit: limit, InactivityTimeout: cfg.inactivity})
	}
	r.cli = mk(1, cfg.cliValve, cfg.singleplex)
	r.srv = mk(1, cfg.srvValve, false) // as in production: only the client knows about singleplexing
	for i := 0; i < cfg.conns; i++ {
		r.addPair()
	}
	return r
}

// addPair creates one more underlying connection and attaches both ends.
func (r *muxRig) addPair() {
	a, b := r.net.Pair(fmt.Sprintf("c%d", len(r.ca)), true)
	if r.wlimit > 0 {
		a.SetWriteLimit(r.wlimit)
		b.SetWriteLimit(r.wlimit)
	}
	r.ca = append(r.ca, a)
	r.sa = append(r.sa, b)
	r.srv.AddConnection(b)
	r.cli.AddConnection(a)
}

// quiesce returns once no thread can run (virtual time only advances then).
func quiesce() { time.Sleep(time.Millisecond) }

// methodOf: the wire number of an encryption method (literal Cloak v2 values, not the package's
// constants: the reference codec and a peer of another build depend on the numbers themselves).
func methodOf(s string) byte {
	switch s {
	case "plain":
		return 0
	case "aes-256-gcm":
		return 1
	case "chacha20-poly1305":
		return 2
	case "aes-128-gcm":
		return 3
	}
	panic("unknown method " + s)
}

// pattern gives stream i's k-th byte in direction d: the top bits identify stream and direction so
// that a byte landing on the wrong stream is visible.
func pattern(stream, dir, k int) byte { return byte(stream<<6 | dir<<5 | ((k + k/32) & 31)) }

func patternBytes(stream, dir, from, n int) []byte {
	b := make([]byte, n)
	for i := range b {
		b[i] = pattern(stream, dir, from+i)
	}
	return b
}

func parseInts(s string) []int {
	var out []int
	for _, f := range strings.Split(s, ",") {
		if f == "" {
			continue
		}
		var n int
		fmt.Sscanf(f, "%d", &n)
		out = append(out, n)
	}
	return out
}

func sum(a []int) int {
	t := 0
	for _, x := range a {
		t += x
	}
	return t
}

// chooseConnOpt makes the connection pick in switchboard.pickRandConn an explorer choice and
// leaves every other draw to the PRF.
func chooseConnOpt() func(n int, tag string) int { return chooseConnDraws("prf") }

// chooseConnDraws: the connection choice is an explorer choice; small owned random draws (a single
// random byte, rand.Int below 2^16: padding lengths) are pinned to their minimum / maximum, or left to
// the seeded PRF.
func chooseConnDraws(draws string) func(n int, tag string) int {
	return func(n int, tag string) int {
		if tag == "mrand.Uint32N" {
			return vrt.Choose(n, "conn")
		}
		if n <= 1<<16 {
			switch draws {
			case "min":
				return 0
			case "max":
				return n - 1
			}
		}
		return -1
	}
}

func deadlockIs(clause string) func(r *vrt.Result) string {
	return func(r *vrt.Result) string {
		if r.Status == vrt.Deadlock {
			return clause
		}
		return ""
	}
}

func sigOf(prop string) func(v *vrt.Violation) string {
	return func(v *vrt.Violation) string { return prop + "|" + v.Clause }
}

var _ = sync.Mutex{}
var _ = vx.P

type vnetConn = vnet.Conn
