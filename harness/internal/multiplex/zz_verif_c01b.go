//go:build verif

package multiplex

import (
	"bytes"
	"io"

	"github.com/cbeuw/Cloak/internal/vrt"
	"github.com/cbeuw/Cloak/internal/vrt/sync"
	"github.com/cbeuw/Cloak/internal/vx"
)

// C01 driver (c): a slow consumer. The peer writes `mb` MiB on stream A that the application does not
// read, the application then gives A up (closes it), and traffic on stream B of the same session must
// still flow in both directions ("a session with open streams keeps working"); finally the backlog
// variant without the close: A's reader wakes up late and still reads exactly what was written.
func init() {
	vx.Register(&vx.Scenario{Name: "mux.backlog", Prop: "C01", Run: func(c *vx.Ctx) *vx.Report {
		mb := c.PI("mb", 6)
		closeA := c.P("close", "1") == "1"
		sc := &vrt.Scenario{
			Opt:      vrt.Options{RandInt: chooseConnOpt(), Delay: true, StepCap: 5000000},
			Classify: deadlockIs("liveness: threads blocked forever on a healthy session (unread backlog on one stream wedged the session)"),
			Main: func() {
				r := newMuxRig(rigCfg{conns: c.PI("conns", 1), unit: 0})
				ca, _ := r.cli.OpenStream()
				ca.Write([]byte{0xA0})
				x, err := r.srv.Accept()
				if err != nil {
					vrt.Fail("harness", "Accept: %v", err)
				}
				sa := x.(*Stream)
				cb, _ := r.cli.OpenStream()
				cb.Write([]byte{0xB0})
				y, err := r.srv.Accept()
				if err != nil {
					vrt.Fail("harness", "Accept: %v", err)
				}
				sb := y.(*Stream)
				one := make([]byte, 1)
				sa.Read(one)
				sb.Read(one)
				chunk := make([]byte, 16000)
				total := 0
				for total < mb<<20 {
					for i := range chunk {
						chunk[i] = byte((total + i) * 7)
					}
					if _, err := sa.Write(chunk); err != nil {
						vrt.Fail("no-error-on-healthy-session", "server Write on A after %d bytes: %v", total, err)
					}
					total += len(chunk)
				}
				quiesce()
				var wg sync.WaitGroup
				if closeA {
					wg.Add(1)
					vrt.Go("close-A", func() {
						defer wg.Done()
						ca.Close()
					})
				} else {
					wg.Add(1)
					vrt.Go("late-reader-A", func() {
						defer wg.Done()
						buf := make([]byte, 65536)
						got := 0
						for got < total {
							n, err := ca.Read(buf)
							for i := 0; i < n; i++ {
								if buf[i] != byte((got+i)*7) {
									vrt.Fail("bytes-exact", "stream A byte %d differs from what was written", got+i)
								}
							}
							got += n
							if err != nil {
								vrt.Fail("no-error-on-healthy-session", "late reader on A: %v after %d/%d bytes", err, got, total)
							}
						}
					})
				}
				quiesce()
				// B in both directions
				if _, err := sb.Write([]byte("pong-from-server")); err != nil {
					vrt.Fail("no-error-on-healthy-session", "server Write on B: %v", err)
				}
				b := make([]byte, 16)
				if _, err := io.ReadFull(cb, b); err != nil || !bytes.Equal(b, []byte("pong-from-server")) {
					vrt.Fail("bytes-exact", "client read %q, %v on stream B", b, err)
				}
				if _, err := cb.Write([]byte("ping-from-client")); err != nil {
					vrt.Fail("no-error-on-healthy-session", "client Write on B: %v", err)
				}
				if _, err := io.ReadFull(sb, b); err != nil || !bytes.Equal(b, []byte("ping-from-client")) {
					vrt.Fail("bytes-exact", "server read %q, %v on stream B", b, err)
				}
				wg.Wait()
				if r.cli.IsClosed() || r.srv.IsClosed() {
					vrt.Fail("session-keeps-working", "session closed: client=%v (%q) server=%v (%q)", r.cli.IsClosed(), r.cli.TerminalMsg(), r.srv.IsClosed(), r.srv.TerminalMsg())
				}
				vrt.Observe("backlog=%d close=%v", total, closeA)
			},
		}
		return vx.RunSched(c, sc, sigOf("C01"))
	}})
}

// C01 driver (d): more streams waiting to be accepted than the accept queue holds. The opener writes
// two messages on each of `streams` new streams before the other side accepts any; then every stream
// is accepted and read (one reader per stream). Waiting is fine - losing a stream's bytes is not.
func init() {
	vx.Register(&vx.Scenario{Name: "mux.backlogged", Prop: "C01", Run: func(c *vx.Ctx) *vx.Report {
		n := c.PI("streams", 1032)
		sc := &vrt.Scenario{
			Opt:      vrt.Options{RandInt: chooseConnOpt(), Delay: true, StepCap: 20000000},
			Classify: deadlockIs("liveness: threads blocked forever on a healthy session"),
			Main: func() {
				r := newMuxRig(rigCfg{conns: 1, unit: 256})
				r.net.NoTap = true
				var wg sync.WaitGroup
				wg.Add(1)
				vrt.Go("opener", func() {
					defer wg.Done()
					for i := 0; i < n; i++ {
						st, err := r.cli.OpenStream()
						if err != nil {
							vrt.Fail("no-error-on-healthy-session", "OpenStream %d: %v", i, err)
						}
						st.Write([]byte{byte(i), byte(i >> 8), 1})
						st.Write([]byte{byte(i), byte(i >> 8), 2})
					}
				})
				quiesce() // the opener has gone as far as it can: the receiving side is waiting on its full accept queue
				got := make([][]byte, n)
				seen := 0
				for seen < n {
					conn, err := r.srv.Accept()
					if err != nil {
						vrt.Fail("no-error-on-healthy-session", "Accept after %d streams: %v", seen, err)
					}
					seen++
					wg.Add(1)
					vrt.Go("reader", func() {
						defer wg.Done()
						b := make([]byte, 6)
						if _, err := io.ReadFull(conn, b); err != nil {
							vrt.Fail("no-error-on-healthy-session", "reading an accepted stream: %v", err)
						}
						i := int(b[0]) | int(b[1])<<8
						if i >= n || got[i] != nil {
							vrt.Fail("bytes-exact", "an accepted stream starts with %x: not the first message of a stream that was opened once", b)
						}
						got[i] = b
					})
				}
				wg.Wait()
				for i := 0; i < n; i++ {
					want := []byte{byte(i), byte(i >> 8), 1, byte(i), byte(i >> 8), 2}
					if !bytes.Equal(got[i], want) {
						vrt.Fail("bytes-exact", "stream %d of %d opened before any was accepted: read %x, written %x", i, n, got[i], want)
					}
				}
				vrt.Observe("streams=%d", n)
			},
		}
		return vx.RunSched(c, sc, sigOf("C01"))
	}})
}
