//go:build verif

package multiplex

import (
	"bytes"
	"io"

	"github.com/cbeuw/Cloak/internal/vrt"
	"github.com/cbeuw/Cloak/internal/vrt/sync"
	"github.com/cbeuw/Cloak/internal/vx"
)

// C01 driver (c): a slow consumer. The peer writes `mb` MiB on stream A that the application does not
// read, the application then gives A up (closes it), and traffic on stream B of the same session must
// still flow in both directions ("a session with open streams keeps working"); finally the backlog
// variant without the close: A's reader wakes up late and still reads exactly what was written.
func init() {
	vx.Register(&vx.Scenario{Name: "mux.backlog", Prop: "C01", Run: func(c *vx.Ctx) *vx.Report {
		mb := c.PI("mb", 6)
		closeA := c.P("close", "1") == "1"
		sc := &vrt.Scenario{
			Opt:      vrt.Options{RandInt: chooseConnOpt(), Delay: true, StepCap: 5000000},
			Classify: deadlockIs("liveness: threads blocked forever on a healthy session (unread backlog on one stream wedged the session)"),
			Main: func() {
				r := newMuxRig(rigCfg{conns: c.PI("conns", 1), unit: 0})
				ca, _ := r.cli.OpenStream()
				ca.Write([]byte{0xA0})
				x, err := r.srv.Accept()
				if err != nil {
					vrt.Fail("harness", "Accept: %v", err)
				}
				sa := x.(*Stream)
				cb, _ := r.cli.OpenStream()
				cb.Write([]byte{0xB0})
				y, err := r.srv.Accept()
				if err != nil {
					vrt.Fail("harness", "Accept: %v", err)
				}
				sb := y.(*Stream)
				one := make([]byte, 1)
				sa.Read(one)
				sb.Read(one)
				chunk := make([]byte, 16000)
				total := 0
				for total < mb<<20 {
					for i := range chunk {
						chunk[i] = byte((total + i) * 7)
					}
					if _, err := sa.Write(chunk); err != nil {
						vrt.Fail("no-error-on-healthy-session", "server Write on A after %d bytes: %v", total, err)
					}
					total += len(chunk)
				}
				quiesce()
				var wg sync.WaitGroup
				if closeA {
					wg.Add(1)
					vrt.Go("close-A", func() {
						defer wg.Done()
						ca.Close()
					})
				} else {
					wg.Add(1)
					vrt.Go("late-reader-A", func() {
						defer wg.Done()
						buf := make([]byte, 65536)
						got := 0
						for got < total {
							n, err := ca.Read(buf)
							for i := 0; i < n; i++ {
								if buf[i] != byte((got+i)*7) {
									vrt.Fail("bytes-exact", "stream A byte %d differs from what was written", got+i)
								}
							}
							got += n
							if err != nil {
								vrt.Fail("no-error-on-healthy-session", "late reader on A: %v after %d/%d bytes", err, got, total)
							}
						}
					})
				}
				quiesce()
				// B in both directions
				if _, err := sb.Write([]byte("pong-from-server")); err != nil {
					vrt.Fail("no-error-on-healthy-session", "server Write on B: %v", err)
				}
				b := make([]byte, 16)
				if _, err := io.ReadFull(cb, b); err != nil || !bytes.Equal(b, []byte("pong-from-server")) {
					vrt.Fail("bytes-exact", "client read %q, %v on stream B", b, err)
				}
				if _, err := cb.Write([]byte("ping-from-client")); err != nil {
					vrt.Fail("no-error-on-healthy-session", "client Write on B: %v", err)
				}
				if _, err := io.ReadFull(sb, b); err != nil || !bytes.Equal(b, []byte("ping-from-client")) {
					vrt.Fail("bytes-exact", "server read %q, %v on stream B", b, err)
				}
				wg.Wait()
				if r.cli.IsClosed() || r.srv.IsClosed() {
					vrt.Fail("session-keeps-working", "session closed: client=%v (%q) server=%v (%q)", r.cli.IsClosed(), r.cli.TerminalMsg(), r.srv.IsClosed(), r.srv.TerminalMsg())
				}
				vrt.Observe("backlog=%d close=%v", total, closeA)
			},
		}
		return vx.RunSched(c, sc, sigOf("C01"))
	}})
}
