//go:build verif

package multiplex

import (
	"bytes"
	"fmt"
	rtime "time"

	"github.com/cbeuw/Cloak/internal/vx"
)

// C01 driver: a long-lived session (free-running; one execution, a long history). One stream stays
// open throughout while `n` short streams are opened, used for one request/answer and closed, one
// after another, over two connections; every thousandth stream and the ones around the powers of two
// are checked against the long-lived stream as well. "Any number of streams ... a session with open
// streams keeps working": the n-th exchange works like the first.
func init() {
	vx.Register(&vx.Scenario{Name: "mux.longlived", Prop: "C01", Run: func(c *vx.Ctx) *vx.Report {
		rep := &vx.Report{Job: c.Job, Engine: "enum", Outcomes: map[string]int64{}, Exhaustive: true}
		n := c.PI("n", 17000)
		r := newMuxRig(rigCfg{conns: 2, unit: 256})
		r.net.NoTap = true
		fail := func(msg string) *vx.Report {
			rep.Violations = append(rep.Violations, vx.Violation{Clause: "session-stays-up", Sig: vx.Sig(c.Job, "session-stays-up"), Msg: msg})
			rep.Exhaustive = false
			return rep
		}
		go func() { // the accepting application: echo, then read to the end of the stream
			for {
				conn, err := r.srv.Accept()
				if err != nil {
					return
				}
				go func() {
					b := make([]byte, 64)
					for {
						k, err := conn.Read(b)
						if k > 0 {
							conn.Write(b[:k])
						}
						if err != nil {
							conn.Close()
							return
						}
					}
				}()
			}
		}()
		exchange := func(st *Stream, msg []byte) error {
			if _, err := st.Write(msg); err != nil {
				return fmt.Errorf("Write: %v", err)
			}
			st.SetReadDeadline(rtime.Now().Add(120 * rtime.Second)) // only ever reached when the answer never comes
			got := make([]byte, 0, len(msg))
			b := make([]byte, 64)
			for len(got) < len(msg) {
				k, err := st.Read(b)
				got = append(got, b[:k]...)
				if err != nil {
					return fmt.Errorf("after %d of %d answer bytes: %v", len(got), len(msg), err)
				}
			}
			if !bytes.Equal(got, msg) {
				return fmt.Errorf("answer %q to request %q", got, msg)
			}
			return nil
		}
		keeper, err := r.cli.OpenStream()
		if err != nil {
			return fail("OpenStream: " + err.Error())
		}
		if err := exchange(keeper, []byte("keeper:0")); err != nil {
			return fail("long-lived stream, first exchange: " + err.Error())
		}
		for i := 1; i <= n; i++ {
			st, err := r.cli.OpenStream()
			if err != nil {
				return fail(fmt.Sprintf("OpenStream of short stream %d: %v", i, err))
			}
			if err := exchange(st, []byte(fmt.Sprintf("short:%06d", i))); err != nil {
				return fail(fmt.Sprintf("short stream %d of a session that has had %d streams so far (one still open, connections healthy): %v", i, i, err))
			}
			st.Close()
			rep.Executions++
			rep.Transitions += 3
			if i%1000 == 0 || (i&(i-1)) == 0 || (i&(i+1)) == 0 {
				if err := exchange(keeper, []byte(fmt.Sprintf("keeper:%d", i))); err != nil {
					return fail(fmt.Sprintf("the long-lived stream after %d short streams: %v", i, err))
				}
			}
		}
		if r.cli.IsClosed() || r.srv.IsClosed() {
			return fail("the session closed")
		}
		rep.Outcomes["exchanges"] = rep.Executions
		rep.States = rep.Executions
		r.cli.Close()
		return rep
	}})
}
