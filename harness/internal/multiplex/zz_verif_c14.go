//go:build verif

package multiplex

import (
	"bytes"
	"errors"
	"fmt"
	"github.com/cbeuw/Cloak/internal/vnet"
	"io"
	"sort"

	"github.com/cbeuw/Cloak/internal/vrt"
	"github.com/cbeuw/Cloak/internal/vrt/sync"
	"github.com/cbeuw/Cloak/internal/vrt/time"
	"github.com/cbeuw/Cloak/internal/vx"
)

func dgram(stream, k, size int) []byte {
	b := make([]byte, size)
	for i := range b {
		b[i] = byte(stream<<6 | k<<4 | (i & 15))
	}
	return b
}

// C14 drivers.
func init() {
	// (a) unordered Session pair: concurrent senders on several streams, datagrams of distinct sizes,
	// reader buffers around the datagram size.
	vx.Register(&vx.Scenario{Name: "mux.dgram", Prop: "C14", Run: func(c *vx.Ctx) *vx.Report {
		nconn, nstream := c.PI("conns", 2), c.PI("streams", 2)
		sizes := parseInts(c.P("sizes", "3,5"))
		rbufDelta := c.PI("rbufdelta", 0) // reader buffer = largest datagram + delta; -1 provokes short-buffer reads
		method := methodOf(c.P("method", "plain"))
		sendersPerStream := c.PI("senders", 1)
		// closing=1: the sender closes its stream after the last datagram and the reader reads until the
		// end-of-stream error - it must have got the datagrams that were written and nothing else
		closing := c.P("closing", "0") == "1"
		sc := &vrt.Scenario{
			Opt:      vrt.Options{RandInt: chooseConnOpt(), Delay: c.P("delay", "0") == "1"},
			Classify: deadlockIs("exactly-once: a datagram never arrived (reader blocked forever)"),
			Main: func() {
				r := newMuxRig(rigCfg{conns: nconn, method: method, unit: 256, unordered: true})
				var wg sync.WaitGroup
				maxSize := 0
				for _, s := range sizes {
					if s > maxSize {
						maxSize = s
					}
				}
				got := map[int][][]byte{}
				wg.Add(1)
				vrt.Go("srv-accept", func() {
					defer wg.Done()
					for k := 0; k < nstream; k++ {
						conn, err := r.srv.Accept()
						if err != nil {
							vrt.Fail("no-error-on-healthy-session", "Accept: %v", err)
						}
						s := conn.(*Stream)
						wg.Add(1)
						vrt.Go("srv-read", func() {
							defer wg.Done()
							var mine [][]byte
							small := make([]byte, maxSize+rbufDelta)
							big := make([]byte, maxSize+8)
							for closing || len(mine) < len(sizes)*sendersPerStream {
								n, err := s.Read(small)
								if closing && err != nil && !errors.Is(err, io.ErrShortBuffer) {
									if n != 0 {
										vrt.Fail("whole-datagrams", "the Read that reported the end of the stream (%v) also returned %d bytes", err, n)
									}
									break
								}
								if errors.Is(err, io.ErrShortBuffer) {
									if n != 0 {
										vrt.Fail("short-buffer-keeps-datagram", "short-buffer Read returned n=%d", n)
									}
									// the next adequate read must return that same datagram intact
									n, err = s.Read(big)
									if err != nil {
										vrt.Fail("short-buffer-keeps-datagram", "Read after short-buffer error: %v", err)
									}
									if n <= len(small) {
										vrt.Fail("short-buffer-keeps-datagram", "a %d-byte datagram was reported as too large for a %d-byte buffer", n, len(small))
									}
									mine = append(mine, append([]byte{}, big[:n]...))
									continue
								}
								if err != nil {
									vrt.Fail("no-error-on-healthy-session", "Read: %v", err)
								}
								mine = append(mine, append([]byte{}, small[:n]...))
							}
							if len(mine) == 0 {
								vrt.Fail("exactly-once", "a stream ended without delivering any datagram")
							}
							idx := int(mine[0][0] >> 6)
							if _, dup := got[idx]; dup {
								vrt.Fail("stream-isolation", "two server streams received datagrams tagged for client stream %d", idx)
							}
							got[idx] = mine
						})
					}
				})
				quiesce()
				for i := 0; i < nstream; i++ {
					i := i
					s, err := r.cli.OpenStream()
					if err != nil {
						vrt.Fail("no-error-on-healthy-session", "OpenStream: %v", err)
					}
					for w := 0; w < sendersPerStream; w++ {
						w := w
						wg.Add(1)
						vrt.Go(fmt.Sprintf("cli-send%d.%d", i, w), func() {
							defer wg.Done()
							for k, sz := range sizes {
								n, err := s.Write(dgram(i, k+w*len(sizes), sz))
								if err != nil || n != sz {
									vrt.Fail("no-error-on-healthy-session", "Write(%d) = %d, %v", sz, n, err)
								}
							}
							if closing {
								quiesce() // unordered: the closing notice must not overtake the datagrams (that loss is legitimate)
								s.Close()
							}
						})
					}
				}
				wg.Wait()
				quiesce()
				for i := 0; i < nstream; i++ {
					var want [][]byte
					for w := 0; w < sendersPerStream; w++ {
						for k, sz := range sizes {
							want = append(want, dgram(i, k+w*len(sizes), sz))
						}
					}
					g := append([][]byte{}, got[i]...)
					sort.Slice(g, func(a, b int) bool { return bytes.Compare(g[a], g[b]) < 0 })
					sort.Slice(want, func(a, b int) bool { return bytes.Compare(want[a], want[b]) < 0 })
					if len(g) != len(want) {
						vrt.Fail("exactly-once", "stream %d: %d datagrams read, %d written", i, len(g), len(want))
					}
					for k := range g {
						if !bytes.Equal(g[k], want[k]) {
							vrt.Fail("whole-datagrams", "stream %d: read %x, which is not one of the datagrams written there (%x...)", i, g[k], want[k])
						}
					}
					// nothing left over
				}
				for _, sess := range []*Session{r.srv} {
					for id, st := range sess.streams {
						if st == nil {
							continue
						}
						dp := st.recvBuf.(*datagramBufferedPipe)
						if len(dp.pLens) != 0 || dp.buf.Len() != 0 {
							vrt.Fail("exactly-once", "stream %d has %d unread datagrams (%d bytes) after everything was read", id, len(dp.pLens), dp.buf.Len())
						}
					}
				}
				order := ""
				for i := 0; i < nstream; i++ {
					for _, d := range got[i] {
						order += fmt.Sprintf("%d.%d ", i, d[0]>>4&3)
					}
				}
				vrt.Observe("order=%s", order)
			},
		}
		return vx.RunSched(c, sc, sigOf("C14"))
	}})

	// (b) the pipe alone: two writers, one reader, every schedule
	vx.Register(&vx.Scenario{Name: "dgram.pipe", Prop: "C14", Run: func(c *vx.Ctx) *vx.Report {
		short := c.P("short", "0") == "1"
		sc := &vrt.Scenario{
			Classify: deadlockIs("exactly-once: reader blocked forever"),
			Main: func() {
				p := NewDatagramBufferedPipe()
				var wg sync.WaitGroup
				var got [][]byte
				wg.Add(3)
				for w := 0; w < 2; w++ {
					w := w
					vrt.Go(fmt.Sprintf("writer%d", w), func() {
						defer wg.Done()
						for k := 0; k < 2; k++ {
							p.Write(&Frame{Payload: dgram(w, k, 2+w+2*k)})
						}
					})
				}
				vrt.Go("reader", func() {
					defer wg.Done()
					for len(got) < 4 {
						b := make([]byte, 8)
						if short {
							b = b[:3]
						}
						n, err := p.Read(b)
						if errors.Is(err, io.ErrShortBuffer) {
							b = make([]byte, 8)
							n, err = p.Read(b)
							if n <= 3 {
								vrt.Fail("short-buffer-keeps-datagram", "datagram of %d bytes was refused by a 3-byte buffer", n)
							}
						}
						if err != nil {
							vrt.Fail("no-error", "Read: %v", err)
						}
						got = append(got, append([]byte{}, b[:n]...))
					}
				})
				wg.Wait()
				seen := map[string]bool{}
				for _, g := range got {
					w, k := int(g[0]>>6), int(g[0]>>4&3)
					if !bytes.Equal(g, dgram(w, k, 2+w+2*k)) {
						vrt.Fail("whole-datagrams", "read %x which is not a datagram that was written", g)
					}
					if seen[string(g)] {
						vrt.Fail("exactly-once", "datagram %x read twice", g)
					}
					seen[string(g)] = true
				}
				if len(p.pLens) != 0 || p.buf.Len() != 0 {
					vrt.Fail("exactly-once", "pipe not empty after 4 reads")
				}
				vrt.Observe("n=%d", len(got))
			},
		}
		return vx.RunSched(c, sc, sigOf("C14"))
	}})

	// (c) sizes: every datagram size 1..max+2 at the sender, every method
	vx.Register(&vx.Scenario{Name: "dgram.sizes", Prop: "C14", Run: func(c *vx.Ctx) *vx.Report {
		rep := &vx.Report{Job: c.Job, Engine: "enum", Outcomes: map[string]int64{}, Exhaustive: true}
		method := methodOf(c.P("method", "plain"))
		step := c.PI("step", 1)
		// production limits: one frame holds MsgOnWireSizeLimit-14-255 payload bytes; client and server
		// both configure 16401
		r := &muxRig{net: vnet.New()}
		o, _ := MakeObfuscator(method, rigKey)
		sesh := MakeSession(7, SessionConfig{Obfuscator: o, Unordered: true, MsgOnWireSizeLimit: 16401})
		peer := MakeSession(7, SessionConfig{Obfuscator: o, Unordered: true, MsgOnWireSizeLimit: 16401})
		a, b := r.net.Pair("sz", true)
		sesh.AddConnection(a)
		peer.AddConnection(b)
		max := sesh.maxStreamUnitWrite
		st, _ := sesh.OpenStream()
		var ps *Stream
		buf := make([]byte, max+64)
		// via=readfrom: the datagrams come from a local datagram socket through Stream.ReadFrom, the way a
		// relay (common.Copy) feeds a stream, instead of through Stream.Write
		viaReadFrom := c.P("via", "write") == "readfrom"
		var src *vnetConn
		if viaReadFrom {
			var dst *vnetConn
			src, dst = vnet.New().Pair("local", true)
			go st.ReadFrom(dst)
			defer src.Close()
		}
		for size := 1; size <= max+2; size += step {
			if step > 1 && size+step > max-3 {
				// the last strides are single steps: max-3 .. max+2 are always visited
				if size < max-3 {
					size = max - 3
				}
				step = 1
			}
			before := len(r.net.Tap)
			d := make([]byte, size)
			for i := range d {
				d[i] = byte(size + i)
			}
			var n int
			var err error
			if viaReadFrom {
				if size > max {
					break // (a socket read of a larger datagram is cut by the operating system, not by Cloak)
				}
				n, err = src.Write(d)
				if ps == nil {
					cn, _ := peer.Accept()
					ps = cn.(*Stream)
				}
				k, rerr := ps.Read(buf) // waits for the frame
				rep.Executions++
				rep.Transitions++
				if rerr != nil || !bytes.Equal(buf[:k], d) {
					rep.Violations = append(rep.Violations, vx.Violation{Clause: "datagram-size", Sig: vx.Sig(c.Job, "datagram-size"), Msg: fmt.Sprintf("a datagram of %d bytes (max %d) relayed through ReadFrom was read back as %d bytes, err %v", size, max, k, rerr), Case: map[string]any{"size": size}})
					rep.Exhaustive = false
					rep.CapHit = "stopped at first violation"
					break
				}
				if len(r.net.Tap) != before+1 || len(r.net.Tap[before].Data) > 16401 {
					rep.Violations = append(rep.Violations, vx.Violation{Clause: "datagram-size", Sig: vx.Sig(c.Job, "datagram-size"), Msg: fmt.Sprintf("a datagram of %d bytes relayed through ReadFrom put %d messages on the wire (first of %d bytes)", size, len(r.net.Tap)-before, len(r.net.Tap[before].Data))})
					rep.Exhaustive = false
					break
				}
				rep.Outcomes["delivered"]++
				continue
			}
			n, err = st.Write(d)
			rep.Executions++
			rep.Transitions++
			msg := ""
			if size > max {
				if !errors.Is(err, io.ErrShortBuffer) || len(r.net.Tap) != before {
					msg = fmt.Sprintf("datagram of %d bytes (max %d): Write = %d, %v; messages put on the wire: %d", size, max, n, err, len(r.net.Tap)-before)
				}
				rep.Outcomes["refused"]++
			} else {
				if err != nil || n != size || len(r.net.Tap) != before+1 {
					msg = fmt.Sprintf("datagram of %d bytes: Write = %d, %v; %d messages on the wire", size, n, err, len(r.net.Tap)-before)
				} else {
					if len(r.net.Tap[before].Data) > 16401 {
						msg = fmt.Sprintf("datagram of %d bytes produced a %d-byte message", size, len(r.net.Tap[before].Data))
					}
					if ps == nil {
						cn, _ := peer.Accept()
						ps = cn.(*Stream)
					}
					k, rerr := ps.Read(buf)
					if rerr != nil || !bytes.Equal(buf[:k], d) {
						msg = fmt.Sprintf("datagram of %d bytes was read back as %d bytes, err %v", size, k, rerr)
					}
				}
				rep.Outcomes["delivered"]++
			}
			if msg != "" {
				rep.Violations = append(rep.Violations, vx.Violation{Clause: "datagram-size", Sig: vx.Sig(c.Job, "datagram-size"), Msg: msg, Case: map[string]any{"size": size}})
				rep.Exhaustive = false
				rep.CapHit = "stopped at first violation"
				break
			}
		}
		rep.States = rep.Executions
		rep.Samples = append(rep.Samples, map[string]any{"max_datagram": max, "sizes": fmt.Sprintf("1..%d", max+2)})
		return rep
	}})

	vx.RegisterJobs("C14", func(tier string) []vx.Job {
		q := tier == "quick"
		b := func(quick, thorough int) int {
			if q {
				return quick
			}
			return thorough
		}
		jobs := []vx.Job{
			{Scenario: "dgram.pipe", Bound: -1, Weight: 5},
			{Scenario: "dgram.pipe", Params: vx.P("crosscheck", "1"), Bound: 2, Weight: 5},
			{Scenario: "dgram.pipe", Params: vx.P("short", "1"), Bound: -1, Weight: 5},
			{Scenario: "mux.dgram", Params: vx.P("streams", "1", "sizes", "3,5"), Bound: b(2, 3), Weight: 6},
			{Scenario: "mux.dgram", Params: vx.P("streams", "1", "sizes", "3,5", "rbufdelta", "-1"), Bound: b(2, 3), Weight: 6},
			{Scenario: "mux.dgram", Params: vx.P("streams", "2", "sizes", "3,5", "delay", "1"), Bound: b(2, 3), Weight: 9},
			{Scenario: "mux.dgram", Params: vx.P("streams", "1", "sizes", "4", "senders", "2"), Bound: b(2, 3), Weight: 7},
			{Scenario: "mux.dgram", Params: vx.P("streams", "2", "sizes", "2", "conns", "1"), Bound: b(1, 2), Weight: 7},
			{Scenario: "mux.dgram", Params: vx.P("streams", "1", "sizes", "3,5", "closing", "1"), Bound: b(2, 3), Weight: 6},
			{Scenario: "mux.dgram", Params: vx.P("streams", "2", "sizes", "4", "closing", "1", "conns", "1"), Bound: b(1, 2), Weight: 6},
			{Scenario: "mux.dgram", Params: vx.P("streams", "1", "sizes", "3,5", "conns", "3", "delay", "1"), Bound: b(2, 3), Weight: 7},
		}
		for _, m := range []string{"plain", "aes-256-gcm", "aes-128-gcm", "chacha20-poly1305"} {
			jobs = append(jobs, vx.Job{Scenario: "dgram.sizes", Params: vx.P("method", m, "step", fmt.Sprint(b(37, 1))), Weight: 3})
			if m != "plain" {
				jobs = append(jobs, vx.Job{Scenario: "mux.dgram", Params: vx.P("streams", "1", "sizes", "3,5", "method", m), Bound: b(1, 2), Weight: 4})
			}
		}
		jobs = append(jobs, vx.Job{Scenario: "mux.dgramreuse", Params: vx.P("pool", "recycle"), Bound: b(1, 2), Weight: 3},
			vx.Job{Scenario: "mux.dgramreuse", Bound: b(1, 2), Weight: 3},
			vx.Job{Scenario: "mux.dgramreuse", Params: vx.P("pool", "recycle", "via", "readfrom", "overlap", "1"), Bound: b(2, 3), Weight: 4},
			vx.Job{Scenario: "dgram.deadline", Bound: b(2, 3), Weight: 3},
			vx.Job{Scenario: "dgram.deadline", Params: vx.P("delay", "1", "pool", "recycle"), Bound: b(2, 3), Weight: 3})
		jobs = append(jobs, vx.Job{Scenario: "udp.route", Weight: 6})
		jobs = append(jobs, vx.Job{Scenario: "udp.route", Params: vx.P("sameport", "1"), Weight: 5})
		// every datagram size up to what one frame can carry (16132 bytes), fed through Stream.ReadFrom as a relay does
		for _, m := range []string{"plain", "aes-256-gcm"} {
			jobs = append(jobs, vx.Job{Scenario: "dgram.sizes", Params: vx.P("method", m, "step", fmt.Sprint(b(37, 1)), "via", "readfrom"), Weight: 3})
		}
		// concurrent senders on the WebSocket transport (C05's driver: every message arrives whole, exactly once)
		jobs = append(jobs, vx.Job{Scenario: "ws.writers", Params: vx.P("writers", "3", "per", "1"), Bound: 2, Weight: 5})
		// bursts: several datagrams pending on the server's stream at once, even and odd session ids, the admin UID as a proxy user
		jobs = append(jobs, vx.Job{Scenario: "udp.route", Params: vx.P("burst", "1", "sidlow", "1"), Weight: 4},
			vx.Job{Scenario: "udp.route", Params: vx.P("burst", "1", "sidlow", "2"), Weight: 4},
			vx.Job{Scenario: "udp.route", Params: vx.P("burst", "1", "admin", "1"), Weight: 4})
		// answers of the datagram service at the largest size ck-client's 8192-byte socket buffer lets through
		jobs = append(jobs, vx.Job{Scenario: "udp.route", Params: vx.P("anslens", "8000,8187,8188"), Weight: 5})
		for i := range jobs {
			jobs[i].BudgetS = b(100, 900)
		}
		return jobs
	})
}

// C14 driver (d): streams come and go. A datagram stream is used, closed by the sender, and its reader
// keeps calling Read after the end-of-stream error (twice more); two streams opened afterwards each
// carry their own datagrams, read in the reverse of their arrival order. Run with recycling pools.
func init() {
	vx.Register(&vx.Scenario{Name: "mux.dgramreuse", Prop: "C14", Run: func(c *vx.Ctx) *vx.Report {
		sc := &vrt.Scenario{
			Opt:      vrt.Options{RandInt: chooseConnOpt(), Delay: true},
			Classify: deadlockIs("exactly-once: a datagram never arrived (reader blocked forever)"),
			Main: func() {
				r := newMuxRig(rigCfg{conns: 1, unit: 256, unordered: true})
				buf := make([]byte, 300)
				for round := 0; round < c.PI("rounds", 2); round++ {
					st, err := r.cli.OpenStream()
					if err != nil {
						vrt.Fail("no-error-on-healthy-session", "OpenStream: %v", err)
					}
					if c.P("via", "write") == "readfrom" {
						// the earlier stream was fed by a relay: ReadFrom forwards one datagram and returns at the end of its source
						st.ReadFrom(&chunkReader{chunks: [][]byte{dgram(0, round, 7)}})
					} else {
						st.Write(dgram(0, round, 7))
					}
					conn, err := r.srv.Accept()
					if err != nil {
						vrt.Fail("no-error-on-healthy-session", "Accept: %v", err)
					}
					if n, err := conn.Read(buf); err != nil || !bytes.Equal(buf[:n], dgram(0, round, 7)) {
						vrt.Fail("whole-datagrams", "round %d: read %x, %v", round, buf[:n], err)
					}
					quiesce()
					st.Close()
					quiesce()
					for k := 0; k < 3; k++ { // the end-of-stream error, and a reader that asks again
						if n, err := conn.Read(buf); err == nil {
							vrt.Fail("whole-datagrams", "round %d: Read %d after the stream was closed returned %d bytes", round, k, n)
						}
					}
				}
				// two fresh streams, datagrams both ways, read in reverse order of arrival
				var cs, ss [2]*Stream
				for i := 0; i < 2; i++ {
					cs[i], _ = r.cli.OpenStream()
					cs[i].Write(dgram(i+1, 0, 5+i))
					conn, err := r.srv.Accept()
					if err != nil {
						vrt.Fail("no-error-on-healthy-session", "Accept: %v", err)
					}
					ss[i] = conn.(*Stream)
				}
				quiesce()
				if c.P("overlap", "0") == "1" {
					// the two streams' senders run at the same time
					var wg sync.WaitGroup
					for i := 0; i < 2; i++ {
						i := i
						wg.Add(1)
						vrt.Go(fmt.Sprintf("sender%d", i), func() {
							defer wg.Done()
							cs[i].Write(dgram(i+1, 1, 9+i))
						})
					}
					wg.Wait()
					for i := 0; i < 2; i++ {
						ss[i].Write(dgram(i+1, 2, 11+i))
					}
				} else {
					for i := 0; i < 2; i++ {
						cs[i].Write(dgram(i+1, 1, 9+i))
						ss[i].Write(dgram(i+1, 2, 11+i))
					}
				}
				quiesce()
				for i := 1; i >= 0; i-- {
					for k, want := range [][]byte{dgram(i+1, 0, 5+i), dgram(i+1, 1, 9+i)} {
						if n, err := ss[i].Read(buf); err != nil || !bytes.Equal(buf[:n], want) {
							vrt.Fail("stream-isolation", "server side of stream %d, datagram %d: read %x, %v; the peer wrote %x", i, k, buf[:n], err, want)
						}
					}
					if n, err := cs[i].Read(buf); err != nil || !bytes.Equal(buf[:n], dgram(i+1, 2, 11+i)) {
						vrt.Fail("stream-isolation", "client side of stream %d: read %x, %v; the peer wrote %x", i, buf[:n], err, dgram(i+1, 2, 11+i))
					}
				}
				vrt.Observe("ok")
			},
		}
		return vx.RunSched(c, sc, sigOf("C14"))
	}})

	// (e) a datagram that arrives just as a reader's deadline expires: the Read either returns it or
	// times out - and then the next Read returns it. Both orders of "deadline" and "arrival" at the same
	// instant are explored.
	vx.Register(&vx.Scenario{Name: "dgram.deadline", Prop: "C14", Run: func(c *vx.Ctx) *vx.Report {
		sc := &vrt.Scenario{
			Opt:      vrt.Options{RandInt: chooseConnOpt(), Delay: c.P("delay", "0") == "1", HorizonNs: int64(60 * time.Second)},
			Classify: deadlockIs("exactly-once: a datagram never arrived (reader blocked forever)"),
			Main: func() {
				r := newMuxRig(rigCfg{conns: 1, unit: 256, unordered: true})
				st, _ := r.cli.OpenStream()
				st.Write(dgram(0, 0, 3))
				conn, err := r.srv.Accept()
				if err != nil {
					vrt.Fail("no-error-on-healthy-session", "Accept: %v", err)
				}
				buf := make([]byte, 64)
				conn.Read(buf)
				d := 150 * time.Millisecond
				off := []time.Duration{-time.Millisecond, 0, time.Millisecond}[vrt.Choose(3, "arrival-vs-deadline")]
				vrt.Go("sender", func() {
					time.Sleep(d + off)
					st.Write(dgram(0, 1, 6))
				})
				conn.SetReadDeadline(time.Now().Add(d))
				n, err := conn.Read(buf)
				if err != nil {
					// timed out: the datagram is still to come (or has just come) and must be readable now
					conn.SetReadDeadline(time.Now().Add(10 * time.Second))
					n, err = conn.Read(buf)
				}
				if err != nil || !bytes.Equal(buf[:n], dgram(0, 1, 6)) {
					vrt.Fail("exactly-once", "a datagram arrived %v relative to the first Read's deadline; the reads returned %x, %v", off, buf[:n], err)
				}
				vrt.Observe("delivered")
			},
		}
		return vx.RunSched(c, sc, sigOf("C14"))
	}})
}
