//go:build verif

package multiplex

import (
	"bytes"
	"fmt"
	"io"
	"sort"
	"time"

	"github.com/cbeuw/Cloak/internal/vrt"
	"github.com/cbeuw/Cloak/internal/vrt/sync"
	"github.com/cbeuw/Cloak/internal/vx"
)

// C02: reassembly in streamBuffer is independent of arrival order.

type c02Frame struct {
	seqOff  int
	payload []byte
	closing bool
}

// c02PayloadBase > 0: payloads of that many bytes (+ the frame index) instead of i+1 - a receive buffer
// holds up to 20480 bytes, more than the 16640 a default sender ever puts into one message
var c02PayloadBase int

// c02hx prints short byte strings in full and long ones as length + checksum.
func c02hx(b []byte) string {
	if len(b) <= 64 {
		return fmt.Sprintf("%x", b)
	}
	var h uint64 = 1469598103934665603
	for _, x := range b {
		h = (h ^ uint64(x)) * 1099511628211
	}
	return fmt.Sprintf("[%d bytes, fnv %x]", len(b), h)
}

func c02Frames(n int) []c02Frame {
	fs := make([]c02Frame, n)
	for i := 0; i < n; i++ {
		p := make([]byte, c02PayloadBase+i+1)
		for j := range p {
			p[j] = byte(16*i + j + j/251 + 1)
		}
		fs[i] = c02Frame{seqOff: i, payload: p, closing: i == n-1}
	}
	return fs
}

// c02Inst is one streamBuffer under test plus what the (non-blocking) reader has taken so far. All
// deliveries go through one reused backing buffer, as switchboard.deplex does.
type c02Inst struct {
	sb       *streamBuffer
	base     uint64
	shared   []byte
	out      []byte
	closedAt int // index of the delivery (0-based) that returned toBeClosed, -1 if none
	ndeliv   int
	err      string
}

func newC02Inst(base uint64) *c02Inst {
	in := &c02Inst{sb: NewStreamBuffer(), base: base, shared: make([]byte, 64+c02PayloadBase), closedAt: -1}
	in.sb.nextRecvSeq = base
	return in
}

func (in *c02Inst) deliver(f c02Frame) {
	for i := range in.shared {
		in.shared[i] = 0xEE
	}
	n := copy(in.shared, f.payload)
	fr := &Frame{StreamID: 1, Seq: in.base + uint64(f.seqOff), Payload: in.shared[:n]}
	if f.closing {
		fr.Closing = closingStream
	}
	tbc, err := in.sb.Write(fr)
	if err != nil {
		in.err = fmt.Sprintf("Write(seq+%d) returned %v", f.seqOff, err)
	}
	if tbc {
		if in.closedAt >= 0 {
			in.err = "toBeClosed reported twice"
		}
		in.closedAt = in.ndeliv
	}
	in.ndeliv++
}

func (in *c02Inst) drain() {
	for in.sb.buf.buf.Len() > 0 {
		b := make([]byte, 3+c02PayloadBase/5)
		n, err := in.sb.Read(b)
		if err != nil {
			in.err = fmt.Sprintf("Read returned %v with %d bytes buffered", err, in.sb.buf.buf.Len())
			return
		}
		in.out = append(in.out, b[:n]...)
	}
}

func (in *c02Inst) canon() string {
	var seqs []int
	for _, f := range in.sb.sh {
		seqs = append(seqs, int(f.Seq-in.base))
	}
	sort.Ints(seqs)
	return fmt.Sprintf("next=%d heap=%v got=%s", in.sb.nextRecvSeq-in.base, seqs, c02hx(append(append([]byte{}, in.out...), in.sb.buf.buf.Bytes()...)))
}

func c02Expected(fs []c02Frame) []byte {
	var e []byte
	for _, f := range fs {
		if !f.closing {
			e = append(e, f.payload...)
		}
	}
	return e
}

func permutations(n int, f func(p []int) bool) {
	p := make([]int, n)
	for i := range p {
		p[i] = i
	}
	var rec func(k int) bool
	rec = func(k int) bool {
		if k == n {
			return f(p)
		}
		for i := k; i < n; i++ {
			p[k], p[i] = p[i], p[k]
			if !rec(k + 1) {
				return false
			}
			p[k], p[i] = p[i], p[k]
		}
		return true
	}
	rec(0)
}

func c02Bases(n int) []uint64 {
	return []uint64{0, 1<<32 - 2, ^uint64(0) - uint64(n)}
}

func init() {
	// brute force: all n! orders x all 2^n drain patterns x 3 base sequence numbers
	vx.Register(&vx.Scenario{Name: "sbuf.orders", Prop: "C02", Run: func(c *vx.Ctx) *vx.Report {
		n := c.PI("n", 5)
		rep := &vx.Report{Job: c.Job, Engine: "enum", Outcomes: map[string]int64{}, Exhaustive: true}
		c02PayloadBase = c.PI("plen", 0)
		defer func() { c02PayloadBase = 0 }()
		fs := c02Frames(n)
		want := c02Expected(fs)
		distinct := map[string]bool{}
		for _, base := range c02Bases(n) {
			permutations(n, func(p []int) bool {
				for mask := 0; mask < 1<<n; mask++ {
					in := newC02Inst(base)
					for k, fi := range p {
						in.deliver(fs[fi])
						if mask>>k&1 == 1 {
							in.drain()
						}
						// prefix property at every moment: what was handed over is a prefix of the expected stream
						got := append(append([]byte{}, in.out...), in.sb.buf.buf.Bytes()...)
						if !bytes.HasPrefix(want, got) {
							in.err = fmt.Sprintf("after %d deliveries the readable bytes %s are not a prefix of %s", k+1, c02hx(got), c02hx(want))
						}
						if in.err != "" {
							break
						}
					}
					in.drain()
					rep.Executions++
					rep.Transitions += int64(n)
					if in.err == "" && !bytes.Equal(in.out, want) {
						in.err = fmt.Sprintf("read %s want %s", c02hx(in.out), c02hx(want))
					}
					if in.err == "" && in.closedAt != n-1 {
						in.err = fmt.Sprintf("toBeClosed reported by delivery %d, expected exactly by the last one (%d)", in.closedAt, n-1)
					}
					distinct[in.canon()+fmt.Sprint(in.closedAt)] = true
					if in.err != "" {
						cs := map[string]any{"n": n, "base": base, "order": append([]int{}, p...), "drain_mask": mask}
						rep.Violations = append(rep.Violations, vx.Violation{Clause: "reassembly-order-independent", Sig: vx.Sig(c.Job, "reassembly-order-independent"), Msg: fmt.Sprintf("order %v drains %b base %d: %s", p, mask, base, in.err), Case: cs})
						rep.Exhaustive = false
						rep.CapHit = "stopped at first violation"
						return false
					}
					if len(rep.Samples) < 2 && mask == 5 {
						rep.Samples = append(rep.Samples, map[string]any{"order": append([]int{}, p...), "drain_mask": mask, "base": base, "final": in.canon()})
					}
				}
				return true
			})
			if len(rep.Violations) > 0 {
				break
			}
		}
		rep.States = rep.Executions
		rep.Outcomes["ok"] = rep.Executions - int64(len(rep.Violations))
		if len(rep.Violations) > 0 {
			rep.Outcomes["violation"] = 1
		}
		rep.Extra = map[string]any{"distinct_final_states": len(distinct)}
		return rep
	}})

	// a long-lived stream: `pairs` pairs of frames, each pair arriving swapped (1,0,3,2,...), read after
	// every pair - never more than one small frame is parked, for millions of frames
	vx.Register(&vx.Scenario{Name: "sbuf.long", Prop: "C02", Run: func(c *vx.Ctx) *vx.Report {
		rep := &vx.Report{Job: c.Job, Engine: "enum", Outcomes: map[string]int64{}, Exhaustive: true}
		pairs := c.PI("pairs", 1500000)
		sb := NewStreamBuffer()
		buf := make([]byte, 64)
		pay := func(seq uint64) []byte {
			return []byte{byte(seq), byte(seq >> 8), byte(seq >> 16), byte(seq >> 24), 0x5a, 0xa5, 0x33, 0xcc}
		}
		for k := 0; k < pairs && len(rep.Violations) == 0; k++ {
			for _, seq := range []uint64{uint64(2*k + 1), uint64(2 * k)} {
				if _, err := sb.Write(&Frame{StreamID: 1, Seq: seq, Payload: pay(seq)}); err != nil {
					rep.Violations = append(rep.Violations, vx.Violation{Clause: "reassembly-order-independent", Sig: vx.Sig(c.Job, "reassembly-order-independent"), Msg: fmt.Sprintf("frame %d of a long-lived stream (pairs arriving swapped, at most one frame parked) was refused: %v", seq, err)})
					rep.Exhaustive = false
					break
				}
				rep.Transitions++
			}
			if len(rep.Violations) > 0 {
				break
			}
			n, _ := io.ReadFull(readerOf(sb), buf[:16])
			want := append(pay(uint64(2*k)), pay(uint64(2*k+1))...)
			if n != 16 || !bytes.Equal(buf[:16], want) {
				rep.Violations = append(rep.Violations, vx.Violation{Clause: "reassembly-order-independent", Sig: vx.Sig(c.Job, "reassembly-order-independent"), Msg: fmt.Sprintf("after frames %d and %d the reader got %x, want %x", 2*k+1, 2*k, buf[:n], want)})
				rep.Exhaustive = false
			}
			rep.Executions++
		}
		rep.States = rep.Executions
		rep.Outcomes["pairs"] = rep.Executions
		return rep
	}})

	// explicit-state BFS over (set of arrived frames, reader position); differential oracle: two
	// histories reaching the same abstract state must reach the same implementation state
	vx.Register(&vx.Scenario{Name: "sbuf.bfs", Prop: "C02", Run: func(c *vx.Ctx) *vx.Report {
		n := c.PI("n", 6)
		rep := &vx.Report{Job: c.Job, Engine: "bfs", Outcomes: map[string]int64{}, Exhaustive: true}
		fs := c02Frames(n)
		want := c02Expected(fs)
		type op struct{ deliver int } // deliver = -1: drain
		for _, base := range c02Bases(n) {
			build := func(h []op) *c02Inst {
				in := newC02Inst(base)
				for _, o := range h {
					if o.deliver < 0 {
						in.drain()
					} else {
						in.deliver(fs[o.deliver])
					}
				}
				return in
			}
			type st struct {
				hist  []op
				canon string
			}
			key := func(h []op) string {
				mask, drainedAfter := 0, 0
				for i, o := range h {
					if o.deliver >= 0 {
						mask |= 1 << o.deliver
					} else {
						drainedAfter = i + 1
					}
				}
				// abstract state: which frames arrived, and whether the reader is fully drained
				d := 0
				if drainedAfter == len(h) {
					d = 1
				}
				return fmt.Sprintf("%b/%d", mask, d)
			}
			seen := map[string]st{}
			frontier := [][]op{{}}
			seen[key(nil)] = st{nil, build(nil).canon()}
			for len(frontier) > 0 && len(rep.Violations) == 0 {
				h := frontier[0]
				frontier = frontier[1:]
				arrived := 0
				for _, o := range h {
					if o.deliver >= 0 {
						arrived |= 1 << o.deliver
					}
				}
				var succ []op
				for i := 0; i < n; i++ {
					if arrived>>i&1 == 0 {
						succ = append(succ, op{i})
					}
				}
				succ = append(succ, op{-1})
				for _, o := range succ {
					nh := append(append([]op{}, h...), o)
					in := build(nh)
					rep.Transitions++
					msg := in.err
					// expected abstract result: longest run 0..k-1 of arrived frames is readable
					mask := arrived
					if o.deliver >= 0 {
						mask |= 1 << o.deliver
					}
					k := 0
					for k < n && mask>>k&1 == 1 {
						k++
					}
					var exp []byte
					for i := 0; i < k && i < n-1; i++ {
						exp = append(exp, fs[i].payload...)
					}
					got := append(append([]byte{}, in.out...), in.sb.buf.buf.Bytes()...)
					if msg == "" && !bytes.Equal(got, exp) {
						msg = fmt.Sprintf("arrived set %b: handed over %x, expected %x", mask, got, exp)
					}
					if msg == "" && (in.closedAt >= 0) != (k == n) {
						msg = fmt.Sprintf("arrived set %b: toBeClosed reported=%v but closing frame next-in-line=%v", mask, in.closedAt >= 0, k == n)
					}
					kk := key(nh)
					if prev, ok := seen[kk]; ok {
						// same abstract state: implementation states must agree, modulo what the reader already took
						if msg == "" && prev.canon != in.canon() {
							msg = fmt.Sprintf("two histories reach abstract state %s with different implementation states: %s vs %s", kk, prev.canon, in.canon())
						}
					} else {
						seen[kk] = st{nh, in.canon()}
						frontier = append(frontier, nh)
					}
					if msg != "" {
						rep.Violations = append(rep.Violations, vx.Violation{Clause: "reassembly-order-independent", Sig: vx.Sig(c.Job, "reassembly-order-independent"), Msg: fmt.Sprintf("base %d history %v: %s", base, nh, msg), Case: map[string]any{"n": n, "base": base, "history": fmt.Sprint(nh)}})
						rep.Exhaustive = false
						rep.CapHit = "stopped at first violation"
						break
					}
				}
			}
			rep.States += int64(len(seen))
			if len(rep.Samples) < 1 {
				for k, v := range seen {
					rep.Samples = append(rep.Samples, map[string]any{"abstract_state": k, "impl_state": v.canon, "history": fmt.Sprint(v.hist)})
					break
				}
			}
			_ = want
		}
		rep.Executions = rep.Transitions
		rep.Outcomes["states"] = rep.States
		rep.Outcomes["transitions"] = rep.Transitions
		return rep
	}})

	// schedules: a blocking reader and a deliverer; the arrival order is an explorer choice
	vx.Register(&vx.Scenario{Name: "sbuf.sched", Prop: "C02", Run: func(c *vx.Ctx) *vx.Report {
		n := c.PI("n", 3)
		fs := c02Frames(n)
		want := c02Expected(fs)
		var orders [][]int
		permutations(n, func(p []int) bool { orders = append(orders, append([]int{}, p...)); return true })
		sc := &vrt.Scenario{
			Classify: deadlockIs("reader-woken: blocked reader never returned"),
			Main: func() {
				sb := NewStreamBuffer()
				ord := orders[vrt.Choose(len(orders), "order")]
				var wg sync.WaitGroup
				var got []byte
				var rerr error
				wg.Add(2)
				vrt.Go("reader", func() {
					defer wg.Done()
					b := make([]byte, 2)
					for {
						k, err := sb.Read(b)
						got = append(got, b[:k]...)
						if err != nil {
							rerr = err
							return
						}
					}
				})
				vrt.Go("deliverer", func() {
					defer wg.Done()
					shared := make([]byte, 16)
					for _, fi := range ord {
						k := copy(shared, fs[fi].payload)
						fr := &Frame{StreamID: 1, Seq: uint64(fi), Payload: shared[:k]}
						if fs[fi].closing {
							fr.Closing = closingStream
						}
						tbc, err := sb.Write(fr)
						if err != nil {
							vrt.Fail("reassembly-order-independent", "Write: %v", err)
						}
						if tbc {
							sb.Close()
						}
					}
				})
				wg.Wait()
				if rerr != io.EOF || !bytes.Equal(got, want) {
					vrt.Fail("reassembly-order-independent", "order %v: reader got %x then %v, want %x then EOF", ord, got, rerr, want)
				}
				vrt.Observe("order=%v", ord)
			},
		}
		return vx.RunSched(c, sc, sigOf("C02"))
	}})

	vx.RegisterJobs("C02", func(tier string) []vx.Job {
		if tier == "quick" {
			return []vx.Job{
				{Scenario: "sbuf.orders", Params: vx.P("n", "6"), Weight: 5},
				{Scenario: "sbuf.orders", Params: vx.P("n", "4"), Weight: 1},
				{Scenario: "sbuf.orders", Params: vx.P("n", "3", "plen", "20000"), Weight: 2},
				{Scenario: "sbuf.long", Params: vx.P("pairs", "1500000"), Weight: 6},
				{Scenario: "sbuf.orders", Params: vx.P("n", "3", "plen", "16639"), Weight: 2},
				{Scenario: "sbuf.bfs", Params: vx.P("n", "7"), Weight: 3},
				{Scenario: "sesh.orders", Params: vx.P("n", "4"), Bound: 1, Weight: 3},
				{Scenario: "sesh.orders", Params: vx.P("n", "4", "lateconn", "1"), Bound: 1, Weight: 3},
				{Scenario: "sesh.orders", Params: vx.P("n", "3", "singleplex", "1"), Bound: 1, Weight: 3},
				{Scenario: "sesh.orders", Params: vx.P("n", "4", "lateconn", "1", "singleplex", "1"), Bound: 1, Weight: 3},
				{Scenario: "sesh.orders", Params: vx.P("n", "4", "empty", "1"), Bound: 1, Weight: 3},
				{Scenario: "sesh.orders", Params: vx.P("n", "4", "empty", "0"), Bound: 1, Weight: 3},
				{Scenario: "sesh.lag", Bound: 0, Weight: 3},
				{Scenario: "sbuf.sched", Params: vx.P("n", "3"), Bound: -1, BudgetS: 100, Weight: 4},
				{Scenario: "sbuf.sched", Params: vx.P("n", "3", "crosscheck", "1"), Bound: 2, BudgetS: 100, Weight: 4},
				// two deliverers (one receive loop per connection) feeding the same stream's buffer concurrently
				{Scenario: "mux.transfer", Params: vx.P("conns", "2", "streams", "1", "writes", "4,4,4", "unit", "4"), Bound: 1, BudgetS: 100, Weight: 6},
				{Scenario: "mux.transfer", Params: vx.P("conns", "3", "streams", "1", "writes", "9", "rbuf", "3", "delay", "1"), Bound: 2, BudgetS: 100, Weight: 6},
			}
		}
		return []vx.Job{
			{Scenario: "sbuf.orders", Params: vx.P("n", "8"), Weight: 9},
			{Scenario: "sbuf.orders", Params: vx.P("n", "7"), Weight: 5},
			{Scenario: "sbuf.orders", Params: vx.P("n", "4", "plen", "20000"), Weight: 5},
			{Scenario: "sbuf.long", Params: vx.P("pairs", "6000000"), Weight: 9},
			{Scenario: "sbuf.orders", Params: vx.P("n", "4", "plen", "16638"), Weight: 5},
			{Scenario: "sbuf.bfs", Params: vx.P("n", "10"), Weight: 5},
			{Scenario: "sesh.orders", Params: vx.P("n", "5"), Bound: 2, BudgetS: 900, Weight: 6},
			{Scenario: "sesh.orders", Params: vx.P("n", "5", "lateconn", "1"), Bound: 2, BudgetS: 900, Weight: 6},
			{Scenario: "sesh.orders", Params: vx.P("n", "5", "singleplex", "1"), Bound: 2, BudgetS: 900, Weight: 6},
			{Scenario: "sesh.orders", Params: vx.P("n", "5", "lateconn", "1", "singleplex", "1"), Bound: 2, BudgetS: 900, Weight: 6},
			{Scenario: "sesh.orders", Params: vx.P("n", "5", "empty", "2"), Bound: 2, BudgetS: 900, Weight: 6},
			{Scenario: "sesh.orders", Params: vx.P("n", "5", "empty", "0"), Bound: 2, BudgetS: 900, Weight: 6},
			{Scenario: "sesh.lag", Params: vx.P("lags", "1,2,63,64,65,127,128,129,255,256,257,511,512,513,1023,1024,1025,2047,2048,2049,4095,4096,4097,10000"), Bound: 0, Weight: 6},
			{Scenario: "sesh.lag", Params: vx.P("lags", "1,2,63,64,65,127,128,129"), Bound: 1, BudgetS: 900, Weight: 6},
			{Scenario: "sbuf.sched", Params: vx.P("n", "3"), Bound: -1, BudgetS: 900, Weight: 4},
			{Scenario: "sbuf.sched", Params: vx.P("n", "4"), Bound: 3, BudgetS: 900, Weight: 6},
			{Scenario: "mux.transfer", Params: vx.P("conns", "2", "streams", "1", "writes", "4,4,4", "unit", "4"), Bound: 2, BudgetS: 900, Weight: 6},
			{Scenario: "mux.transfer", Params: vx.P("conns", "3", "streams", "1", "writes", "9", "rbuf", "3", "delay", "1"), Bound: 3, BudgetS: 900, Weight: 6},
		}
	})
}

var _ = time.Second

// readerOf adapts a streamBuffer to io.Reader.
type sbReader struct{ sb *streamBuffer }

func (r sbReader) Read(b []byte) (int, error) { return r.sb.Read(b) }
func readerOf(sb *streamBuffer) io.Reader     { return sbReader{sb} }
