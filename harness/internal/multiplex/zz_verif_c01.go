//go:build verif

package multiplex

import (
	"bytes"
	"fmt"

	"github.com/cbeuw/Cloak/internal/vrt"
	"github.com/cbeuw/Cloak/internal/vrt/sync"
	"github.com/cbeuw/Cloak/internal/vx"
)

// C01 driver (a): ordered streams over a directly wired Session pair.
//
// params: conns, streams, writes (sizes of the client's Write calls per stream), rbuf (reader
// buffer), method, both (server writes its own sequence back on each stream), adder (a thread adds
// one more connection while traffic flows), unit (payload bytes per frame).
func init() {
	vx.Register(&vx.Scenario{Name: "mux.transfer", Prop: "C01", Run: func(c *vx.Ctx) *vx.Report {
		nconn, nstream := c.PI("conns", 2), c.PI("streams", 1)
		writes := parseInts(c.P("writes", "1,1"))
		swrites := parseInts(c.P("swrites", c.P("writes", "1,1")))
		rbuf := c.PI("rbuf", 64)
		both := c.P("both", "0") == "1"
		adder := c.P("adder", "0") == "1"
		method := methodOf(c.P("method", "plain"))
		unit := c.PI("unit", 4)
		sc := &vrt.Scenario{
			Opt:      vrt.Options{RandInt: chooseConnOpt(), Delay: c.P("delay", "0") == "1"},
			Classify: deadlockIs("liveness: threads blocked forever on a healthy session"),
			Main: func() {
				r := newMuxRig(rigCfg{conns: nconn, method: method, unit: unit, wlimit: c.PI("wlimit", 0)})
				if c.P("preclose", "0") == "1" {
					// history: an earlier stream of this session has come and gone (opened, used and closed by this side)
					p, err := r.cli.OpenStream()
					if err != nil {
						vrt.Fail("harness", "OpenStream: %v", err)
					}
					p.Write([]byte{0xEE})
					x, err := r.srv.Accept()
					if err != nil {
						vrt.Fail("harness", "Accept: %v", err)
					}
					p.Close()
					b := make([]byte, 8)
					for {
						if _, err := x.Read(b); err != nil {
							break
						}
					}
					quiesce()
				}
				var wg sync.WaitGroup
				total, stotal := sum(writes), sum(swrites)
				got := make([][]byte, nstream)  // server side, indexed by stream tag
				cgot := make([][]byte, nstream) // client side
				fail := func(clause, f string, a ...any) { vrt.Fail(clause, f, a...) }

				readN := func(who string, s *Stream, want int, first []byte) []byte {
					acc := append([]byte(nil), first...)
					buf := make([]byte, rbuf)
					for len(acc) < want {
						n, err := s.Read(buf)
						if err != nil {
							fail("no-error-on-healthy-session", "%s: Read returned %v after %d/%d bytes", who, err, len(acc), want)
						}
						acc = append(acc, buf[:n]...)
					}
					return acc
				}
				// server: accept every stream, identify it by its first byte, read (and answer)
				wg.Add(1)
				vrt.Go("srv-accept", func() {
					defer wg.Done()
					for k := 0; k < nstream; k++ {
						conn, err := r.srv.Accept()
						if err != nil {
							fail("no-error-on-healthy-session", "Accept returned %v", err)
						}
						s := conn.(*Stream)
						wg.Add(1)
						vrt.Go(fmt.Sprintf("srv-read%d", k), func() {
							defer wg.Done()
							one := make([]byte, 1)
							n, err := s.Read(one)
							if err != nil || n != 1 {
								fail("no-error-on-healthy-session", "srv first Read: n=%d err=%v", n, err)
							}
							idx := int(one[0] >> 6)
							if idx >= nstream || got[idx] != nil {
								fail("stream-isolation", "first byte %#x on an accepted stream does not identify a fresh client stream", one[0])
							}
							got[idx] = []byte{}
							if both {
								wg.Add(1)
								vrt.Go(fmt.Sprintf("srv-write%d", idx), func() {
									defer wg.Done()
									off := 0
									for _, w := range swrites {
										n, err := s.Write(patternBytes(idx, 1, off, w))
										if err != nil || n != w {
											fail("no-error-on-healthy-session", "srv Write(%d) = %d, %v", w, n, err)
										}
										off += w
									}
								})
							}
							got[idx] = readN(fmt.Sprintf("srv stream %d", idx), s, total, one)
						})
					}
				})
				for i := 0; i < nstream; i++ {
					i := i
					wg.Add(1)
					vrt.Go(fmt.Sprintf("cli-write%d", i), func() {
						defer wg.Done()
						s, err := r.cli.OpenStream()
						if err != nil {
							fail("no-error-on-healthy-session", "OpenStream returned %v", err)
						}
						if both {
							wg.Add(1)
							vrt.Go(fmt.Sprintf("cli-read%d", i), func() {
								defer wg.Done()
								cgot[i] = readN(fmt.Sprintf("cli stream %d", i), s, stotal, nil)
							})
						}
						off := 0
						for _, w := range writes {
							n, err := s.Write(patternBytes(i, 0, off, w))
							if err != nil || n != w {
								fail("no-error-on-healthy-session", "cli Write(%d) = %d, %v", w, n, err)
							}
							off += w
						}
					})
				}
				if adder {
					wg.Add(1)
					vrt.Go("adder", func() {
						defer wg.Done()
						r.addPair()
					})
				}
				wg.Wait()
				quiesce()
				for i := 0; i < nstream; i++ {
					if !bytes.Equal(got[i], patternBytes(i, 0, 0, total)) {
						fail("bytes-exact", "stream %d client->server: read %x want %x", i, got[i], patternBytes(i, 0, 0, total))
					}
					if both && !bytes.Equal(cgot[i], patternBytes(i, 1, 0, stotal)) {
						fail("bytes-exact", "stream %d server->client: read %x want %x", i, cgot[i], patternBytes(i, 1, 0, stotal))
					}
				}
				if r.cli.IsClosed() || r.srv.IsClosed() {
					fail("session-stays-up", "a healthy session closed: client=%v (%q) server=%v (%q)", r.cli.IsClosed(), r.cli.TerminalMsg(), r.srv.IsClosed(), r.srv.TerminalMsg())
				}
				for _, sess := range []*Session{r.cli, r.srv} {
					sess.streamsM.Lock()
					for id, st := range sess.streams {
						if st == nil {
							continue
						}
						sb := st.recvBuf.(*streamBuffer)
						if sb.buf.buf.Len() != 0 || len(sb.sh) != 0 {
							fail("no-extra-bytes", "stream %d has %d unread bytes and %d parked frames after everything was read", id, sb.buf.buf.Len(), len(sb.sh))
						}
					}
					sess.streamsM.Unlock()
				}
				for _, cn := range append(append([]*vnetConn{}, r.ca...), r.sa...) {
					if cn.IsClosed() {
						fail("session-stays-up", "connection %s was closed", cn.Name)
					}
				}
				// which connection carried what: part of the observation, not of the oracle
				per := map[string]int{}
				for _, t := range r.net.Tap {
					per[t.Conn+t.Dir]++
				}
				vrt.Observe("ok frames=%v", fmt.Sprint(per))
			},
		}
		return vx.RunSched(c, sc, sigOf("C01"))
	}})
}

func init() {
	vx.RegisterJobs("C01", func(tier string) []vx.Job {
		q := tier == "quick"
		b := func(quick, thorough int) int {
			if q {
				return quick
			}
			return thorough
		}
		budget := b(100, 900)
		jobs := []vx.Job{
			{Scenario: "mux.transfer", Params: vx.P("conns", "2", "streams", "1", "writes", "1,1"), Bound: b(2, 3), Weight: 5},
			{Scenario: "mux.transfer", Params: vx.P("conns", "2", "streams", "1", "writes", "1,1", "crosscheck", "1"), Bound: 1, Weight: 9},
			{Scenario: "mux.transfer", Params: vx.P("conns", "2", "streams", "1", "writes", "9", "rbuf", "3"), Bound: b(2, 3), Weight: 9},
			{Scenario: "mux.transfer", Params: vx.P("conns", "3", "streams", "1", "writes", "4,4,4"), Bound: b(1, 2), Weight: 9},
			{Scenario: "mux.transfer", Params: vx.P("conns", "2", "streams", "1", "writes", "5", "swrites", "5", "both", "1"), Bound: b(1, 2), Weight: 9},
			{Scenario: "mux.transfer", Params: vx.P("conns", "1", "streams", "1", "writes", "1,1", "adder", "1"), Bound: b(2, 3), Weight: 8},
			{Scenario: "mux.transfer", Params: vx.P("conns", "2", "streams", "2", "writes", "5", "delay", "1"), Bound: b(2, 3), Weight: 9},
			{Scenario: "mux.transfer", Params: vx.P("conns", "1", "streams", "2", "writes", "5"), Bound: b(1, 2), Weight: 7},
			{Scenario: "mux.transfer", Params: vx.P("conns", "2", "streams", "2", "writes", "5,3", "pool", "recycle", "delay", "1"), Bound: b(1, 2), Weight: 7},
			{Scenario: "mux.transfer", Params: vx.P("conns", "1", "streams", "2", "writes", "300", "unit", "256", "pool", "recycle", "preclose", "1"), Bound: b(1, 2), Weight: 7},
			// back-pressure: a Write blocks while the peer's receive loop has not taken the previous message
			{Scenario: "mux.transfer", Params: vx.P("conns", "2", "streams", "2", "writes", "5,3", "both", "1", "swrites", "4", "wlimit", "1", "delay", "1"), Bound: b(1, 2), Weight: 9},
			{Scenario: "mux.transfer", Params: vx.P("conns", "2", "streams", "1", "writes", "16133", "unit", "0", "rbuf", "20000"), Bound: b(1, 2), Weight: 3},
			{Scenario: "mux.transfer", Params: vx.P("conns", "2", "streams", "3", "writes", "1", "delay", "1"), Bound: b(2, 3), Weight: 8},
		}
		for _, m := range []string{"aes-256-gcm", "aes-128-gcm", "chacha20-poly1305"} {
			jobs = append(jobs, vx.Job{Scenario: "mux.transfer", Params: vx.P("conns", "2", "streams", "1", "writes", "5", "method", m), Bound: b(1, 2), Weight: 4})
		}
		// driver (b): proxy client -> RouteTCP -> MakeSession -> dispatcher -> proxy server, and back
		jobs = append(jobs,
			vx.Job{Scenario: "e2e.route", Params: vx.P("numconn", "2", "apps", "2", "sizes", "3,700"), Bound: b(1, 2), Weight: 6},
			vx.Job{Scenario: "e2e.route", Params: vx.P("numconn", "1", "apps", "1", "sizes", "40000"), Bound: b(1, 2), Weight: 8},
			vx.Job{Scenario: "e2e.route", Params: vx.P("numconn", "0", "apps", "2", "sizes", "5,5"), Bound: b(1, 2), Weight: 6},
			vx.Job{Scenario: "e2e.route", Params: vx.P("numconn", "3", "apps", "3", "sizes", "1", "method", "plain", "closeby", "proxy"), Bound: b(0, 1), Weight: 6},
			vx.Job{Scenario: "e2e.route", Params: vx.P("numconn", "0", "apps", "1", "sizes", "20000", "method", "chacha20-poly1305", "closeby", "proxy"), Bound: b(1, 2), Weight: 8},
			// with memory points before unsynchronised writes (package-level or field state shared by connections)
			vx.Job{Scenario: "e2e.route", Params: vx.P("numconn", "2", "apps", "2", "sizes", "5", "mem", "1"), Bound: b(1, 2), Weight: 7},
			// the byte streams segmented by the explorer (one or two reads cut short anywhere)
			vx.Job{Scenario: "e2e.route", Params: vx.P("numconn", "2", "apps", "1", "sizes", "700,5", "seg", "2"), Bound: b(0, 1), Weight: 7},
			vx.Job{Scenario: "e2e.route", Params: vx.P("numconn", "0", "apps", "1", "sizes", "20000", "seg", "1", "method", "aes-256-gcm"), Bound: b(0, 1), Weight: 7},
			// long-lived, regularly used connections (5 requests 100 s apart: beyond the 300 s stream timeout, never idle that long)
			vx.Job{Scenario: "e2e.route", Params: vx.P("numconn", "2", "apps", "1", "sizes", "5", "rounds", "5", "gap", "100"), Bound: b(1, 2), Weight: 5},
			vx.Job{Scenario: "e2e.route", Params: vx.P("numconn", "0", "apps", "2", "sizes", "5", "rounds", "5", "gap", "100"), Bound: b(0, 1), Weight: 5},
			// a long-lived session: 17000 (thorough: 70000) streams come and go beside one that stays open
			vx.Job{Scenario: "mux.longlived", Params: vx.P("n", fmt.Sprint(b(17000, 70000))), Weight: 6},
			// frames still in flight when their stream is closed locally never surface on another stream
			vx.Job{Scenario: "mux.lateframe", Params: vx.P("strict", "1"), Bound: b(1, 2), Weight: 3},
			// several streams sending at once over the WebSocket transport (C05's driver)
			vx.Job{Scenario: "ws.writers", Params: vx.P("writers", "3", "per", "1"), Bound: 2, Weight: 5},
			// "any relative delay between the underlying connections": one connection lagging by up to 3000 frames
			vx.Job{Scenario: "sesh.lag", Bound: 0, Weight: 3},
			// a burst of streams waiting for the server's accept loop (three proxy clients at once over one connection)
			vx.Job{Scenario: "e2e.route", Params: vx.P("numconn", "1", "apps", "3", "sizes", "5"), Bound: b(1, 2), Weight: 5},
			// a download: one request, the answer trickling back for 400 s with nothing sent the other way
			vx.Job{Scenario: "e2e.route", Params: vx.P("numconn", "2", "apps", "1", "sizes", "8", "slowanswer", "5", "gap", "100"), Bound: b(1, 2), Weight: 5},
			vx.Job{Scenario: "e2e.route", Params: vx.P("numconn", "0", "apps", "1", "sizes", "8", "slowanswer", "5", "gap", "100", "closeby", "proxy"), Bound: b(0, 1), Weight: 5},
			// "a session with open streams keeps working": a stream opened or accepted at the very instant the
			// inactivity timer fires is either refused or served, never killed underneath the application
			vx.Job{Scenario: "mux.timeout", Params: vx.P("op", "open"), Bound: b(2, 3), Weight: 4},
			vx.Job{Scenario: "mux.timeout", Params: vx.P("op", "reopen"), Bound: b(2, 3), Weight: 4},
			vx.Job{Scenario: "mux.timeout", Params: vx.P("op", "accept"), Bound: b(1, 2), Weight: 4},
			// more streams pending acceptance than the accept queue holds (1024)
			vx.Job{Scenario: "mux.backlogged", Params: vx.P("streams", "1032"), Bound: 0, Weight: 8},
			// a slow consumer: 6 MiB unread on one stream, which is then given up; the other stream keeps working
			vx.Job{Scenario: "mux.backlog", Params: vx.P("mb", "6", "close", "1"), Bound: b(0, 1), Weight: 4},
			vx.Job{Scenario: "mux.backlog", Params: vx.P("mb", "20", "close", "0"), Bound: 0, Weight: 4},
			vx.Job{Scenario: "mux.backlog", Params: vx.P("mb", "6", "close", "0"), Bound: 0, Weight: 4},
		)
		for i := range jobs {
			jobs[i].BudgetS = budget
		}
		return jobs
	})
}
