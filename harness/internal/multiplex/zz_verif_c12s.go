//go:build verif

package multiplex

import (
	"fmt"
	"net"

	"github.com/cbeuw/Cloak/internal/common"
	"github.com/cbeuw/Cloak/internal/vnet"
	"github.com/cbeuw/Cloak/internal/vrt"
	"github.com/cbeuw/Cloak/internal/vrt/sync"
	"github.com/cbeuw/Cloak/internal/vx"
)

// C12 driver (e): teardown while a write is parked by back-pressure. Connection 0 of a session leads
// to a peer that has stopped draining it, so a Stream.Write is parked inside the connection's Write;
// a reader of the same stream is parked too. Then the session is torn down from elsewhere (an
// explorer choice): connection 1 is reset, connection 1 reaches EOF, or the peer's session-closing
// notice arrives on connection 1. Closing the connections is the only thing that can wake the parked
// writer: every blocked call returns and both connections end up closed.
//
// params: tls=1 (connections wrapped in the record layer, as every non-CDN connection is).
func init() {
	vx.Register(&vx.Scenario{Name: "mux.stalledclose", Prop: "C12", Run: func(c *vx.Ctx) *vx.Report {
		sc := &vrt.Scenario{
			Opt:      vrt.Options{Delay: true, RandInt: chooseConnOpt()},
			Classify: deadlockIs("blocked-calls-return: a call on the session never returned after the teardown"),
			Main: func() {
				o, _ := MakeObfuscator(EncryptionMethodPlain, rigKey)
				nw := vnet.New()
				wrap := func(cn net.Conn) net.Conn {
					if c.P("tls", "0") == "1" {
						return common.NewTLSConn(cn)
					}
					return cn
				}
				a0, b0 := nw.Pair("c0", true)
				a1, b1 := nw.Pair("c1", true)
				b0.SetWriteLimit(1) // writes towards the silent peer stall once anything is queued
				sesh := MakeSession(7, SessionConfig{Obfuscator: o, Valve: UNLIMITED_VALVE, MsgOnWireSizeLimit: 600})
				sesh.AddConnection(wrap(b0))
				peer0, peer1 := wrap(a0), wrap(a1)
				data := []byte("request")
				peer0.Write(c11Encode(&o, 1, 0, 0, data, 0))
				conn, err := sesh.Accept()
				if err != nil {
					vrt.Fail("harness", "Accept: %v", err)
				}
				st := conn.(*Stream)
				var wg sync.WaitGroup
				writerDone, readerDone := false, false
				var werr error
				wg.Add(2)
				vrt.Go("reader", func() {
					defer wg.Done()
					buf := make([]byte, 100)
					for {
						if _, err := st.Read(buf); err != nil {
							readerDone = true
							return
						}
					}
				})
				vrt.Go("writer", func() {
					defer wg.Done()
					for i := 0; i < 4; i++ {
						if _, err := st.Write(make([]byte, 50)); err != nil {
							werr = err
							break
						}
					}
					writerDone = true
				})
				quiesce()
				if writerDone {
					vrt.Fail("harness", "the writer was not stalled by back-pressure (err %v)", werr)
				}
				sesh.AddConnection(wrap(b1))
				quiesce()
				how := vrt.Choose(3, "teardown")
				switch how {
				case 0:
					a1.Reset()
				case 1:
					a1.Close()
				case 2:
					peer1.Write(c11Encode(&o, 0xffffffff, 0, closingSession, []byte{0}, 0))
				}
				quiesce()
				if !sesh.IsClosed() {
					vrt.Fail("session-closed", "teardown %d: the session is still open", how)
				}
				if !readerDone {
					vrt.Fail("blocked-calls-return", "teardown %d: the parked Read did not return", how)
				}
				if !writerDone {
					vrt.Fail("blocked-calls-return", "teardown %d: the Write parked by back-pressure on connection 0 did not return after the session was torn down", how)
				}
				for i, e := range []*vnet.Conn{b0, b1} {
					if !e.IsClosed() {
						vrt.Fail("all-conns-closed", "teardown %d: connection %d of the session is still open after the teardown", how, i)
					}
				}
				wg.Wait()
				vrt.Observe("how=%d werr=%v", how, werr != nil)
			},
		}
		return vx.RunSched(c, sc, sigOf("C12"))
	}})
}

// C12 driver (f): a connection that joins a session too late. The session has already been closed
// (by its application, or by a fault on its only connection - an explorer choice) when one more
// connection is attached to it, as the client's connection goroutines 2..n and the server's dispatcher
// may do. Nobody will ever use that connection; when its peer end goes away (closed or reset) the
// session's side of it is closed as well - "all of the session's connections end up closed" includes
// the late one.
func init() {
	vx.Register(&vx.Scenario{Name: "mux.lateadd", Prop: "C12", Run: func(c *vx.Ctx) *vx.Report {
		sc := &vrt.Scenario{
			Opt:      vrt.Options{Delay: true, RandInt: chooseConnOpt()},
			Classify: deadlockIs("blocked-calls-return"),
			Main: func() {
				r := newMuxRig(rigCfg{conns: 1, unit: 256})
				st, _ := r.cli.OpenStream()
				st.Write([]byte("x"))
				quiesce()
				how := vrt.Choose(3, "closed-by")
				switch how {
				case 0:
					r.cli.Close()
				case 1:
					r.ca[0].Reset()
				case 2:
					r.srv.Close()
				}
				quiesce()
				if !r.cli.IsClosed() {
					vrt.Fail("session-closed", "teardown %d: the client session is still open", how)
				}
				a, b := r.net.Pair("late", true)
				r.cli.AddConnection(a)
				quiesce()
				gone := vrt.Choose(2, "peer-end")
				if gone == 0 {
					b.Close()
				} else {
					b.Reset()
				}
				quiesce()
				if !a.IsClosed() {
					vrt.Fail("all-conns-closed", "a connection attached to the session after it had been torn down (teardown %d) and whose peer end has gone (%d) is still open on the session's side", how, gone)
				}
				if _, err := r.cli.OpenStream(); err == nil {
					vrt.Fail("new-streams-refused", "OpenStream succeeded on the closed session after a late connection was attached")
				}
				vrt.Observe("how=%d gone=%d", how, gone)
			},
		}
		return vx.RunSched(c, sc, sigOf("C12"))
	}})
}

// C12 driver (g): several goroutines blocked in Read on the same stream (net.Conn allows it) when the
// session is torn down - by a reset, by the local application, or by the peer's closing notice (an
// explorer choice), on ordered and unordered sessions. "Every blocked read ... returns": all of them.
func init() {
	vx.Register(&vx.Scenario{Name: "mux.parkedreaders", Prop: "C12", Run: func(c *vx.Ctx) *vx.Report {
		sc := &vrt.Scenario{
			Opt:      vrt.Options{Delay: true, RandInt: chooseConnOpt()},
			Classify: deadlockIs("blocked-calls-return: a Read parked on the stream never returned after the teardown"),
			Main: func() {
				r := newMuxRig(rigCfg{conns: 1, unit: 256, unordered: c.P("unordered", "0") == "1"})
				st, _ := r.cli.OpenStream()
				st.Write([]byte("x"))
				conn, err := r.srv.Accept()
				if err != nil {
					vrt.Fail("harness", "Accept: %v", err)
				}
				b := make([]byte, 8)
				conn.Read(b)
				nr := c.PI("readers", 3)
				var wg sync.WaitGroup
				returned := 0
				for i := 0; i < nr; i++ {
					wg.Add(1)
					vrt.Go(fmt.Sprintf("reader%d", i), func() {
						defer wg.Done()
						buf := make([]byte, 8)
						for {
							if _, err := conn.Read(buf); err != nil {
								returned++
								return
							}
						}
					})
				}
				quiesce()
				how := vrt.Choose(4, "teardown")
				switch how {
				case 0:
					r.sa[0].Reset()
				case 1:
					r.srv.Close()
				case 2:
					r.cli.Close()
				case 3:
					st.Close() // only the stream ends: its readers get the end-of-stream error
				}
				quiesce()
				if returned != nr {
					vrt.Fail("blocked-calls-return", "teardown %d with %d Reads parked on one stream: %d returned", how, nr, returned)
				}
				wg.Wait()
				vrt.Observe("how=%d", how)
			},
		}
		return vx.RunSched(c, sc, sigOf("C12"))
	}})
}
