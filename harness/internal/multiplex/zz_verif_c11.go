//go:build verif

package multiplex

import (
	"bytes"
	"fmt"

	"github.com/cbeuw/Cloak/internal/vrt"
	"github.com/cbeuw/Cloak/internal/vrt/time"
	"github.com/cbeuw/Cloak/internal/vx"
)

func c11Encode(o *Obfuscator, streamID uint32, seq uint64, closing byte, payload []byte, pad int) []byte {
	vrt.PlainRandInt = func(n int) int {
		if pad >= n {
			return n - 1
		}
		return pad
	}
	defer func() { vrt.PlainRandInt = nil }()
	buf := make([]byte, prodLimit)
	n, err := o.obfuscate(&Frame{StreamID: streamID, Seq: seq, Closing: closing, Payload: payload}, buf, 0)
	if err != nil {
		panic(err)
	}
	return append([]byte{}, buf[:n]...)
}

// where in the message a bit lies (for the report)
func c11Region(pos, msgLen, tagLen int) string {
	switch {
	case pos < 4:
		return "stream-id"
	case pos < 12:
		return "sequence-number"
	case pos == 12:
		return "closing-flag"
	case pos == 13:
		return "extra-length"
	case pos >= msgLen-tagLen:
		return "tag"
	}
	return "payload/padding"
}

func init() {
	// (i) every single-bit flip, every truncation, extensions by 1..16 bytes, of messages from the
	// real encoder, under each AEAD method: the decoder must refuse all of them
	vx.Register(&vx.Scenario{Name: "codec.tamper", Prop: "C11", Run: func(c *vx.Ctx) *vx.Report {
		rep := &vx.Report{Job: c.Job, Engine: "enum", Outcomes: map[string]int64{}, Exhaustive: true}
		method := methodOf(c.P("method", "aes-256-gcm"))
		size := c.PI("size", 100)
		pad := c.PI("pad", 3)
		seq := uint64(c.PI("seq", 2))
		o, _ := MakeObfuscator(method, rigKey)
		payload := make([]byte, size)
		for i := range payload {
			payload[i] = byte(i*7 + 1)
		}
		msg := c11Encode(&o, 0x01020304, seq, closingNothing, payload, pad)
		accepted := map[string]int{}
		var first string
		try := func(kind string, pos int, mod []byte) {
			var f Frame
			rep.Executions++
			rep.Transitions++
			err := o.deobfuscate(&f, mod)
			if err == nil {
				region := kind
				if kind == "flip" {
					region = "flip:" + c11Region(pos/8, len(msg), 16)
				}
				accepted[region]++
				if first == "" {
					first = fmt.Sprintf("%s at bit/len %d of a %d-byte message was accepted: stream=%#x seq=%d closing=%d payload=%d bytes (original: stream=0x1020304 seq=%d closing=0 payload=%d bytes)", kind, pos, len(msg), f.StreamID, f.Seq, f.Closing, len(f.Payload), seq, size)
				}
			}
		}
		for bit := 0; bit < len(msg)*8; bit++ {
			mod := append([]byte{}, msg...)
			mod[bit/8] ^= 1 << (bit % 8)
			try("flip", bit, mod)
		}
		for l := 0; l < len(msg); l++ {
			try("truncation", l, append([]byte{}, msg[:l]...))
		}
		for e := 1; e <= 16; e++ {
			try("extension", e, append(append([]byte{}, msg...), bytes.Repeat([]byte{0x42}, e)...))
		}
		rep.States = rep.Executions
		rep.Outcomes["rejected"] = rep.Executions
		for region, n := range accepted {
			rep.Outcomes["rejected"] -= int64(n)
			rep.Outcomes["ACCEPTED "+region] = int64(n)
			rep.Violations = append(rep.Violations, vx.Violation{Clause: "modified-frame-dropped", Sig: vx.Sig(vx.Job{Scenario: "codec.tamper"}, "modified-frame-dropped:"+region) + ":" + region,
				Msg: fmt.Sprintf("%d modified copies (%s) of a %d-byte %s message were accepted; first: %s", n, region, len(msg), c.P("method", ""), first)})
		}
		rep.Samples = append(rep.Samples, map[string]any{"message_bytes": len(msg), "bit_flips": len(msg) * 8, "truncations": len(msg), "extensions": 16})
		return rep
	}})

	// (ii) a message sealed under method/key A is refused under B
	vx.Register(&vx.Scenario{Name: "codec.foreign", Prop: "C11", Run: func(c *vx.Ctx) *vx.Report {
		rep := &vx.Report{Job: c.Job, Engine: "enum", Outcomes: map[string]int64{}, Exhaustive: true}
		otherKey := rigKey
		otherKey[5] ^= 1
		type mk struct {
			m byte
			k [32]byte
		}
		var all []mk
		for _, m := range []byte{0, 1, 2, 3} {
			all = append(all, mk{m, rigKey}, mk{m, otherKey})
		}
		payload := bytes.Repeat([]byte{7}, 50)
		for _, a := range all {
			oa, _ := MakeObfuscator(a.m, a.k)
			msg := c11Encode(&oa, 5, 1, 0, payload, 9)
			for _, b := range all {
				ob, _ := MakeObfuscator(b.m, b.k)
				var f Frame
				err := func() (err error) {
					defer func() {
						if r := recover(); r != nil {
							err = fmt.Errorf("PANIC %v", r)
						}
					}()
					return ob.deobfuscate(&f, append([]byte{}, msg...))
				}()
				rep.Executions++
				rep.Transitions++
				same := a == b
				if b.m != EncryptionMethodPlain && !same && err == nil {
					rep.Violations = append(rep.Violations, vx.Violation{Clause: "foreign-frame-dropped", Sig: vx.Sig(c.Job, "foreign-frame-dropped"), Msg: fmt.Sprintf("message sealed with method %d was accepted under method %d (same key: %v)", a.m, b.m, a.k == b.k)})
					rep.Exhaustive = false
				}
				if err != nil && len(err.Error()) > 5 && err.Error()[:5] == "PANIC" {
					rep.Violations = append(rep.Violations, vx.Violation{Clause: "no-panic", Sig: vx.Sig(c.Job, "no-panic"), Msg: err.Error()})
				}
				if same && err != nil {
					rep.Violations = append(rep.Violations, vx.Violation{Clause: "own-frame-accepted", Sig: vx.Sig(c.Job, "own-frame-accepted"), Msg: err.Error()})
				}
				rep.Outcomes[fmt.Sprintf("same=%v accepted=%v", same, err == nil)]++
			}
		}
		rep.States = rep.Executions
		rep.Samples = append(rep.Samples, map[string]any{"matrix": "4 methods x 2 keys, sealed x opened"})
		return rep
	}})

	// (iii) arbitrary bytes of every length through Session.recvDataFromRemote: never a panic; under an
	// AEAD method never an effect; and a valid frame afterwards is still delivered
	vx.Register(&vx.Scenario{Name: "session.garbage", Prop: "C11", Run: func(c *vx.Ctx) *vx.Report {
		rep := &vx.Report{Job: c.Job, Engine: "enum", Outcomes: map[string]int64{}, Exhaustive: true}
		method := methodOf(c.P("method", "aes-256-gcm"))
		maxLen := c.PI("maxlen", 20480)
		step := c.PI("step", 1)
		o, _ := MakeObfuscator(method, rigKey)
		mk := func() *Session {
			return MakeSession(1, SessionConfig{Obfuscator: o, InactivityTimeout: 1000 * time.Hour, MsgOnWireSizeLimit: prodLimit})
		}
		sesh := mk()
		fill := func(kind, n int) []byte {
			b := make([]byte, n)
			switch kind {
			case 1:
				for i := range b {
					b[i] = 0xff
				}
			case 2:
				x := uint64(n)*2654435761 + 12345
				for i := range b {
					x = x*6364136223846793005 + 1442695040888963407
					b[i] = byte(x >> 33)
				}
			}
			return b
		}
		nextSeq := uint64(0)
		var live *Stream
		// short messages (around the header / tag lengths) get many more pseudo-random fills: whether a
		// length check is reached depends on single decrypted header bytes
		extraFills := c.PI("shortfills", 400)
		for n := 0; n <= maxLen; n += step {
			kinds := 3
			if n <= 64 {
				kinds = 3 + extraFills
			}
			for kind := 0; kind < kinds; kind++ {
				data := fill(kind, n)
				if kind >= 3 {
					x := uint64(n)*1000003 + uint64(kind)*7919 + 17
					for i := range data {
						x = x*6364136223846793005 + 1442695040888963407
						data[i] = byte(x >> 33)
					}
				}
				var perr any
				err := func() (err error) {
					defer func() { perr = recover() }()
					return sesh.recvDataFromRemote(data)
				}()
				rep.Executions++
				rep.Transitions++
				if perr != nil {
					rep.Violations = append(rep.Violations, vx.Violation{Clause: "no-panic", Sig: vx.Sig(c.Job, "no-panic"), Msg: fmt.Sprintf("%d bytes of kind %d: panic %v", n, kind, perr)})
					rep.Exhaustive = false
					rep.States = rep.Executions
					return rep
				}
				if method != EncryptionMethodPlain {
					if err == nil {
						rep.Violations = append(rep.Violations, vx.Violation{Clause: "garbage-dropped", Sig: vx.Sig(c.Job, "garbage-dropped"), Msg: fmt.Sprintf("%d bytes of kind %d were processed without error under an authenticated method", n, kind)})
						rep.Exhaustive = false
						rep.States = rep.Executions
						return rep
					}
					sesh.streamsM.Lock()
					ns := len(sesh.streams)
					sesh.streamsM.Unlock()
					wantStreams := 0
					if live != nil {
						wantStreams = 1
					}
					if sesh.IsClosed() || ns != wantStreams {
						rep.Violations = append(rep.Violations, vx.Violation{Clause: "garbage-without-effect", Sig: vx.Sig(c.Job, "garbage-without-effect"), Msg: fmt.Sprintf("%d bytes of kind %d changed the session: closed=%v streams=%d", n, kind, sesh.IsClosed(), ns)})
						rep.Exhaustive = false
						rep.States = rep.Executions
						return rep
					}
				} else if sesh.IsClosed() {
					sesh = mk() // plain may legitimately read garbage as a closing notice
					live, nextSeq = nil, 0
					rep.Outcomes["plain-session-closed-by-garbage"]++
				}
			}
			// every 64 lengths: a valid frame must still get through (AEAD only - under plain the garbage may have opened streams)
			if method != EncryptionMethodPlain && n%(64*step) == 0 {
				payload := []byte{byte(n), byte(n >> 8), 0x77}
				msg := c11Encode(&o, 9, nextSeq, 0, payload, 5)
				nextSeq++
				if err := sesh.recvDataFromRemote(msg); err != nil {
					rep.Violations = append(rep.Violations, vx.Violation{Clause: "valid-frame-after-garbage", Sig: vx.Sig(c.Job, "valid-frame-after-garbage"), Msg: fmt.Sprintf("valid frame after garbage of length %d: %v", n, err)})
					rep.Exhaustive = false
					break
				}
				if live == nil {
					cn, err := sesh.Accept()
					if err != nil {
						rep.Violations = append(rep.Violations, vx.Violation{Clause: "valid-frame-after-garbage", Sig: vx.Sig(c.Job, "valid-frame-after-garbage"), Msg: "Accept: " + err.Error()})
						break
					}
					live = cn.(*Stream)
				}
				got := make([]byte, 8)
				k, err := live.Read(got)
				if err != nil || !bytes.Equal(got[:k], payload) {
					rep.Violations = append(rep.Violations, vx.Violation{Clause: "valid-frame-after-garbage", Sig: vx.Sig(c.Job, "valid-frame-after-garbage"), Msg: fmt.Sprintf("after garbage of length %d the stream delivered %x, %v; want %x", n, got[:k], err, payload)})
					rep.Exhaustive = false
					break
				}
				rep.Outcomes["valid-frame-delivered"]++
			}
		}
		rep.States = rep.Executions
		rep.Outcomes["garbage-inputs"] = rep.Executions
		rep.Samples = append(rep.Samples, map[string]any{"lengths": fmt.Sprintf("0..%d step %d", maxLen, step), "fills": []string{"zeros", "ones", "lcg"}})
		return rep
	}})

	vx.RegisterJobs("C11", func(tier string) []vx.Job {
		var jobs []vx.Job
		sizes := []string{"1", "15", "100", "1000"}
		if tier == "thorough" {
			sizes = append(sizes, "16132")
		}
		for _, m := range []string{"aes-256-gcm", "aes-128-gcm", "chacha20-poly1305"} {
			for _, sz := range sizes {
				jobs = append(jobs, vx.Job{Scenario: "codec.tamper", Params: vx.P("method", m, "size", sz, "seq", "2"), Weight: 5})
			}
			jobs = append(jobs, vx.Job{Scenario: "codec.tamper", Params: vx.P("method", m, "size", "40", "seq", "7", "pad", "0"), Weight: 3})
			if tier == "quick" {
				jobs = append(jobs, vx.Job{Scenario: "codec.tamper", Params: vx.P("method", m, "size", "16132", "seq", "9", "pad", "0"), Weight: 9})
			}
		}
		jobs = append(jobs, vx.Job{Scenario: "codec.foreign", Weight: 1})
		step := "7"
		if tier == "thorough" {
			step = "1"
		}
		for _, m := range []string{"plain", "aes-256-gcm", "aes-128-gcm", "chacha20-poly1305"} {
			jobs = append(jobs, vx.Job{Scenario: "session.garbage", Params: vx.P("method", m, "step", step), Weight: 8})
		}
		for _, m := range []string{"aes-256-gcm", "aes-128-gcm", "chacha20-poly1305", "plain"} {
			jobs = append(jobs, vx.Job{Scenario: "mux.garbagerecord", Params: vx.P("method", m), Bound: 0, BudgetS: 100, Weight: 2})
		}
		for _, m := range []string{"aes-256-gcm", "chacha20-poly1305", "plain"} {
			jobs = append(jobs, vx.Job{Scenario: "mux.garbagerecord", Params: vx.P("method", m, "ws", "1"), Bound: 0, BudgetS: 100, Weight: 3})
		}
		jobs = append(jobs, vx.Job{Scenario: "ws.textflood", Weight: 4})
		jobs = append(jobs, vx.Job{Scenario: "mux.junkidle", Params: vx.P("method", "aes-256-gcm", "every", "4"), Bound: 1, BudgetS: 100, Weight: 3},
			vx.Job{Scenario: "mux.junkidle", Params: vx.P("method", "chacha20-poly1305", "every", "9"), Bound: 1, BudgetS: 100, Weight: 3})
		// short lengths with the step-free sweep (the big sweep may stride over them in the quick tier)
		for _, m := range []string{"aes-256-gcm", "aes-128-gcm", "chacha20-poly1305", "plain"} {
			jobs = append(jobs, vx.Job{Scenario: "session.garbage", Params: vx.P("method", m, "maxlen", "64", "step", "1", "shortfills", "3000"), Weight: 4})
		}
		jobs = append(jobs, vx.Job{Scenario: "mux.garbagerecord", Params: vx.P("method", "aes-256-gcm", "conns", "2", "pool", "recycle", "delay", "0"), Bound: 1, BudgetS: 100, Weight: 5},
			vx.Job{Scenario: "mux.garbagerecord", Params: vx.P("method", "chacha20-poly1305", "conns", "2", "delay", "0"), Bound: 1, BudgetS: 100, Weight: 5})
		return jobs
	})
}
