//go:build verif

package ckclient

import (
	"bytes"
	"encoding/base64"
	"encoding/json"
	"flag"
	"fmt"
	"net"
	"os"
	rtime "time"

	"github.com/cbeuw/Cloak/internal/common"
	"github.com/cbeuw/Cloak/internal/ecdh"
	"github.com/cbeuw/Cloak/internal/server"
	"github.com/cbeuw/Cloak/internal/vx"
)

// C20 driver through the client program itself: ck-client's main() is started (free-running, on
// loopback sockets of addresses private to this process) with a configuration file that sets
// LocalHost, LocalPort, RemoteHost, RemotePort and ProxyMethod, and with every subset of the
// command-line options -i -l -s -p -proxy that override them. Where the program then listens, where it
// dials when a proxy client connects, and the proxy method inside its first packet (opened with the
// server's key) are what the command line says where given and what the file says otherwise.
func init() {
	vx.Register(&vx.Scenario{Name: "climain.flags", Prop: "C20", Run: func(c *vx.Ctx) *vx.Report {
		rep := &vx.Report{Job: c.Job, Engine: "enum", Outcomes: map[string]int64{}, Exhaustive: true}
		pid := os.Getpid()
		o2, o3 := 1+pid%250, 1+(pid/250)%250
		seed := make([]byte, 32)
		for i := range seed {
			seed[i] = byte(5*i + 2)
		}
		pv, pub, _ := ecdh.GenerateKey(bytes.NewReader(seed))
		uid := []byte("fedcba9876543210")
		fail := func(msg string) *vx.Report {
			rep.Violations = append(rep.Violations, vx.Violation{Clause: "config-reaches-the-wire", Sig: vx.Sig(c.Job, "command-line-over-file"), Msg: msg})
			rep.Exhaustive = false
			return rep
		}
		const wait = 120 * rtime.Second // generous: only ever reached when nothing is listening / dialling at all
		for mask := 0; mask < 32; mask++ {
			host := func(k int) string { return fmt.Sprintf("127.%d.%d.%d", o2, o3, 1+(mask*4+k)%250) }
			file := map[string]string{"i": host(0), "l": "31984", "s": host(1), "p": "30443", "proxy": "filemethod"}
			cli := map[string]string{"i": host(2), "l": "31985", "s": host(3), "p": "30444", "proxy": "climethod"}
			want := map[string]string{}
			args := []string{"ck-client", "-verbosity", "fatal"}
			given := ""
			for bit, name := range []string{"i", "l", "s", "p", "proxy"} {
				if mask&(1<<bit) != 0 {
					want[name] = cli[name]
					args = append(args, "-"+name, cli[name])
					given += " -" + name
				} else {
					want[name] = file[name]
				}
			}
			cfg, _ := json.Marshal(map[string]any{
				"Transport": "direct", "ProxyMethod": file["proxy"], "EncryptionMethod": "plain", "UID": base64.StdEncoding.EncodeToString(uid),
				"PublicKey": base64.StdEncoding.EncodeToString(ecdh.Marshal(pub)), "ServerName": "example.com", "NumConn": 1, "BrowserSig": "firefox", "StreamTimeout": 300,
				"LocalHost": file["i"], "LocalPort": file["l"], "RemoteHost": file["s"], "RemotePort": file["p"],
			})
			path := fmt.Sprintf("/dev/shm/vx-%d-ckclient-%d.json", pid, mask)
			if err := os.WriteFile(path, cfg, 0o600); err != nil {
				rep.HarnessError = err.Error()
				return rep
			}
			args = append(args, "-c", path)
			// the four places a connection from the program could arrive
			type hit struct {
				addr  string
				first []byte
			}
			hits := make(chan hit, 8)
			var ls []net.Listener
			for _, h := range []string{file["s"], cli["s"]} {
				for _, p := range []string{file["p"], cli["p"]} {
					l, err := net.Listen("tcp", net.JoinHostPort(h, p))
					if err != nil {
						rep.HarnessError = "listen " + h + ":" + p + ": " + err.Error()
						return rep
					}
					ls = append(ls, l)
					go func(l net.Listener) {
						cn, err := l.Accept()
						if err != nil {
							return
						}
						b := make([]byte, 4096)
						cn.SetReadDeadline(rtime.Now().Add(wait))
						k, _ := cn.Read(b)
						hits <- hit{l.Addr().String(), b[:k]}
						cn.Close()
					}(l)
				}
			}
			os.Args = args
			flag.CommandLine = flag.NewFlagSet("ck-client", flag.ContinueOnError)
			go Main()
			// where does it listen?
			listening := ""
			deadline := rtime.Now().Add(wait)
			var app net.Conn
			for listening == "" && rtime.Now().Before(deadline) {
				for _, h := range []string{file["i"], cli["i"]} {
					for _, p := range []string{file["l"], cli["l"]} {
						if cn, err := net.DialTimeout("tcp", net.JoinHostPort(h, p), rtime.Second); err == nil {
							listening, app = net.JoinHostPort(h, p), cn
						}
					}
				}
				if listening == "" {
					rtime.Sleep(5 * rtime.Millisecond)
				}
			}
			os.Remove(path)
			rep.Executions++
			rep.Transitions++
			wantListen := net.JoinHostPort(want["i"], want["l"])
			if listening != wantListen {
				return fail(fmt.Sprintf("file says LocalHost=%s LocalPort=%s, command line gives%s (%v): ck-client listens on %q, expected %q", file["i"], file["l"], given, args[3:len(args)-2], listening, wantListen))
			}
			app.Write([]byte("first bytes of a proxy client"))
			var h hit
			select {
			case h = <-hits:
			case <-rtime.After(wait):
				return fail(fmt.Sprintf("command line gives%s: a proxy client connected and wrote, but ck-client dialled none of the candidate remote addresses", given))
			}
			app.Close()
			for _, l := range ls {
				l.Close()
			}
			wantRemote := net.JoinHostPort(want["s"], want["p"])
			if h.addr != wantRemote {
				return fail(fmt.Sprintf("file says RemoteHost=%s RemotePort=%s, command line gives%s: ck-client dialled %s, expected %s", file["s"], file["p"], given, h.addr, wantRemote))
			}
			sta := &server.State{StaticPv: pv, UsedRandom: map[[32]byte]int64{}, WorldState: common.WorldState{Now: rtime.Now}}
			ci, _, err := server.AuthFirstPacket(h.first, server.TLS{}, sta)
			if err != nil {
				return fail(fmt.Sprintf("command line gives%s: the first packet ck-client sent does not open with the server's key: %v", given, err))
			}
			if ci.ProxyMethod != want["proxy"] {
				return fail(fmt.Sprintf("file says ProxyMethod=%s, command line gives%s: the first packet asks for proxy method %q, expected %q", file["proxy"], given, ci.ProxyMethod, want["proxy"]))
			}
			rep.Outcomes["agrees"]++
		}
		rep.States = rep.Executions
		return rep
	}})
}
