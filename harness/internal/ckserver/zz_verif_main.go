//go:build verif

package ckserver

import (
	"bytes"
	"encoding/base64"
	"encoding/json"
	"flag"
	"fmt"
	"net"
	"os"

	"github.com/cbeuw/Cloak/internal/client"
	"github.com/cbeuw/Cloak/internal/common"
	"github.com/cbeuw/Cloak/internal/ecdh"
	"github.com/cbeuw/Cloak/internal/vnet"
	"github.com/cbeuw/Cloak/internal/vrt"
	"github.com/cbeuw/Cloak/internal/vrt/sync"
	"github.com/cbeuw/Cloak/internal/vrt/time"
	"github.com/cbeuw/Cloak/internal/vx"
)

// VerifListen stands where ck-server's main calls net.Listen (rewritten when the mirror is built).
var VerifListen = net.Listen

// C08 driver through the server program itself: ck-server's main() is started with a configuration
// that binds two ports (its default is :443 and :80), on the in-memory network. One genuine first
// packet, captured from the real client, is presented on both ports at the same time (and, in a second
// phase, once more on each): exactly one presentation is answered as a Cloak client, whatever the
// schedule - the listeners of one server share one replay cache.
func init() {
	vx.Register(&vx.Scenario{Name: "srvmain.replay", Prop: "C08", Run: func(c *vx.Ctx) *vx.Report {
		sc := &vrt.Scenario{
			Opt: vrt.Options{HorizonNs: int64(120 * time.Second), Delay: c.P("delay", "1") == "1", MemVars: true, MemPoints: c.P("mem", "1") == "1"},
			Main: func() {
				n := vnet.New()
				VerifListen = func(network, addr string) (net.Listener, error) { return n.Listen(addr, false), nil }
				defer func() { VerifListen = net.Listen }()
				seed := make([]byte, 32)
				for i := range seed {
					seed[i] = byte(3*i + 1)
				}
				pv, pub, _ := ecdh.GenerateKey(bytes.NewReader(seed))
				uid := []byte("0123456789abcdef")
				cfg, _ := json.Marshal(map[string]any{
					"ProxyBook":  map[string][]string{"shadowsocks": {"tcp", "127.0.0.1:9"}},
					"BindAddr":   []string{"127.0.0.1:443", "127.0.0.1:80"},
					"BypassUID":  []string{base64.StdEncoding.EncodeToString(uid)},
					"RedirAddr":  "127.0.0.1",
					"PrivateKey": base64.StdEncoding.EncodeToString(pv.(*[32]byte)[:]),
				})
				// (a file: ck-server's "-c <content>" form does not work, its ParseConfig unmarshals the empty
				// result of the failed file read - observation O4 in DESIGN.md)
				path := fmt.Sprintf("/dev/shm/vx-%d-ckserver.json", os.Getpid())
				if err := os.WriteFile(path, cfg, 0o600); err != nil {
					vrt.Fail("harness", "writing the configuration: %v", err)
				}
				defer os.Remove(path)
				os.Args = []string{"ck-server", "-c", path, "-verbosity", "fatal"}
				flag.CommandLine = flag.NewFlagSet("ck-server", flag.ContinueOnError)
				vrt.Go("ck-server", Main)
				time.Sleep(time.Millisecond) // both listeners are up
				raw := client.RawConfig{
					ServerName: "example.com", ProxyMethod: "shadowsocks", EncryptionMethod: "plain", UID: uid, PublicKey: ecdh.Marshal(pub),
					NumConn: 1, LocalHost: "127.0.0.1", LocalPort: "1984", RemoteHost: "127.0.0.1", RemotePort: "443",
					BrowserSig: "firefox", Transport: "direct", StreamTimeout: 300,
				}
				_, remote, auth, err := raw.ProcessRawConfig(common.RealWorldState)
				if err != nil {
					vrt.Fail("harness", "ProcessRawConfig: %v", err)
				}
				auth.SessionId = 5
				// the genuine first packet
				ca, cb := n.Pair("capture", false)
				var wg sync.WaitGroup
				wg.Add(1)
				vrt.Go("capture-client", func() {
					defer wg.Done()
					remote.Transport.CreateTransport().Handshake(ca, auth)
				})
				buf := make([]byte, 4096)
				k, _ := cb.Read(buf)
				hello := append([]byte{}, buf[:k]...)
				for cb.Queued() > 0 {
					k, _ = cb.Read(buf)
					hello = append(hello, buf[:k]...)
				}
				cb.Close()
				ca.Close()
				wg.Wait()
				d := &vnet.Dialer{N: n}
				accepted := 0
				present := func(name, addr string) {
					conn, err := d.Dial("tcp", addr)
					if err != nil {
						vrt.Fail("harness", "dial %s: %v", addr, err)
					}
					conn.Write(hello)
					conn.SetReadDeadline(time.Now().Add(20 * time.Second))
					b := make([]byte, 16)
					if k, _ := conn.Read(b); k >= 3 && b[0] == 0x16 && b[1] == 0x03 && b[2] == 0x03 {
						accepted++ // answered with a ServerHello: treated as a Cloak client
					}
					conn.Close()
				}
				for i, addr := range []string{"127.0.0.1:443", "127.0.0.1:80"} {
					i, addr := i, addr
					wg.Add(1)
					vrt.Go(fmt.Sprintf("presenter%d", i), func() {
						defer wg.Done()
						present(fmt.Sprintf("p%d", i), addr)
					})
				}
				wg.Wait()
				if accepted != 1 {
					vrt.Fail("accepted-at-most-once", "one handshake presented at the same time on the server's two listening ports: %d presentations were answered as a Cloak client", accepted)
				}
				for _, addr := range []string{"127.0.0.1:80", "127.0.0.1:443"} {
					present("again", addr)
				}
				if accepted != 1 {
					vrt.Fail("accepted-at-most-once", "the same handshake presented again afterwards on either port: %d presentations in total were answered as a Cloak client", accepted)
				}
				vrt.Observe("accepted=%d", accepted)
			},
		}
		return vx.RunSched(c, sc, nil)
	}})
}
