//go:build verif

// Package vself holds self-tests of the cooperative runtime and explorer: tiny programs with a
// known set of behaviours (a lost update, a lock-order inversion, a lost wake-up, a timer race).
package vself

import (
	"fmt"

	"github.com/cbeuw/Cloak/internal/vnet"
	"github.com/cbeuw/Cloak/internal/vrt"
	"github.com/cbeuw/Cloak/internal/vrt/atomic"
	"github.com/cbeuw/Cloak/internal/vrt/sync"
	"github.com/cbeuw/Cloak/internal/vrt/time"
	"github.com/cbeuw/Cloak/internal/vx"
)

func sig(v *vrt.Violation) string { return "self|" + v.Clause }

func init() {
	vx.Register(&vx.Scenario{Name: "self.lostupdate", Prop: "SELF", Run: func(c *vx.Ctx) *vx.Report {
		n := c.PI("threads", 2)
		sc := &vrt.Scenario{Main: func() {
			var x uint32
			var wg sync.WaitGroup
			for i := 0; i < n; i++ {
				wg.Add(1)
				vrt.Go(fmt.Sprintf("inc%d", i), func() {
					v := atomic.LoadUint32(&x)
					atomic.StoreUint32(&x, v+1)
					wg.Done()
				})
			}
			wg.Wait()
			vrt.Observe("x=%d", x)
			if int(x) != n {
				vrt.Fail("lost-update", "x=%d want %d", x, n)
			}
		}}
		return vx.RunSched(c, sc, sig)
	}})
	vx.Register(&vx.Scenario{Name: "self.mutex", Prop: "SELF", Run: func(c *vx.Ctx) *vx.Report {
		n := c.PI("threads", 2)
		sc := &vrt.Scenario{Main: func() {
			var x int
			var mu sync.Mutex
			var wg sync.WaitGroup
			order := ""
			for i := 0; i < n; i++ {
				wg.Add(1)
				i := i
				vrt.Go(fmt.Sprintf("inc%d", i), func() {
					mu.Lock()
					x++
					order += fmt.Sprint(i)
					mu.Unlock()
					wg.Done()
				})
			}
			wg.Wait()
			vrt.Observe("order=%s", order)
			if x != n {
				vrt.Fail("lost-update", "x=%d want %d", x, n)
			}
		}}
		return vx.RunSched(c, sc, sig)
	}})
	vx.Register(&vx.Scenario{Name: "self.deadlock", Prop: "SELF", Run: func(c *vx.Ctx) *vx.Report {
		sc := &vrt.Scenario{Main: func() {
			var a, b sync.Mutex
			var wg sync.WaitGroup
			wg.Add(2)
			vrt.Go("ab", func() { a.Lock(); b.Lock(); b.Unlock(); a.Unlock(); wg.Done() })
			vrt.Go("ba", func() { b.Lock(); a.Lock(); a.Unlock(); b.Unlock(); wg.Done() })
			wg.Wait()
			vrt.Observe("done")
		}, Classify: func(r *vrt.Result) string {
			if r.Status == vrt.Deadlock {
				return "deadlock"
			}
			return ""
		}}
		return vx.RunSched(c, sc, sig)
	}})
	// a consumer that checks the condition outside the lock: lost wake-up => deadlock
	vx.Register(&vx.Scenario{Name: "self.lostwake", Prop: "SELF", Run: func(c *vx.Ctx) *vx.Report {
		broken := c.P("broken", "1") == "1"
		sc := &vrt.Scenario{Main: func() {
			var mu sync.Mutex
			cond := sync.NewCond(&mu)
			var ready uint32
			var wg sync.WaitGroup
			wg.Add(2)
			vrt.Go("consumer", func() {
				if broken {
					if atomic.LoadUint32(&ready) == 0 {
						mu.Lock()
						cond.Wait()
						mu.Unlock()
					}
				} else {
					mu.Lock()
					for atomic.LoadUint32(&ready) == 0 {
						cond.Wait()
					}
					mu.Unlock()
				}
				wg.Done()
			})
			vrt.Go("producer", func() {
				mu.Lock()
				atomic.StoreUint32(&ready, 1)
				cond.Broadcast()
				mu.Unlock()
				wg.Done()
			})
			wg.Wait()
			vrt.Observe("done")
		}, Classify: func(r *vrt.Result) string {
			if r.Status == vrt.Deadlock {
				return "deadlock"
			}
			return ""
		}}
		return vx.RunSched(c, sc, sig)
	}})
	// timer callback and a sleeper due at the same instant race; a message pipe carries the result
	vx.Register(&vx.Scenario{Name: "self.timer", Prop: "SELF", Run: func(c *vx.Ctx) *vx.Report {
		sc := &vrt.Scenario{Main: func() {
			n := vnet.New()
			a, b := n.Pair("p", true)
			var flag uint32
			time.AfterFunc(5*time.Second, func() { atomic.StoreUint32(&flag, 1) })
			vrt.Go("sleeper", func() {
				time.Sleep(5 * time.Second)
				v := atomic.LoadUint32(&flag)
				a.Write([]byte{byte(v)})
			})
			buf := make([]byte, 4)
			k, err := b.Read(buf)
			vrt.Observe("read=%d err=%v v=%d t=%v", k, err, buf[0], time.Now().Sub(vrt.VEpoch))
		}}
		return vx.RunSched(c, sc, sig)
	}})
	vx.RegisterJobs("SELF", func(tier string) []vx.Job {
		return []vx.Job{
			{Scenario: "self.lostupdate", Bound: 2},
			{Scenario: "self.mutex", Params: vx.P("threads", "3"), Bound: -1},
			{Scenario: "self.deadlock", Bound: 2},
			{Scenario: "self.lostwake", Bound: 2},
			{Scenario: "self.lostwake", Params: vx.P("broken", "0"), Bound: -1},
			{Scenario: "self.timer", Bound: -1},
		}
	})
}
