//go:build verif

package server

import (
	"fmt"
	mux "github.com/cbeuw/Cloak/internal/multiplex"
	"github.com/cbeuw/Cloak/internal/vnet"
	"net"
	"strings"

	"github.com/cbeuw/Cloak/internal/server/usermanager"
	"github.com/cbeuw/Cloak/internal/vrt"
	"github.com/cbeuw/Cloak/internal/vrt/sync"
	"github.com/cbeuw/Cloak/internal/vrt/time"
	"github.com/cbeuw/Cloak/internal/vx"
)

// C15 driver: N simultaneous real handshakes (client Transport.Handshake against dispatchConnection)
// for a set of (user, session id) pairs, with a per-user session cap.
//
// params: conns = comma list <u>.<s>; cap; closer = <u>.<s> closed by a thread meanwhile (never
// the user's last one); db = mem|bolt.
func init() {
	vx.Register(&vx.Scenario{Name: "srv.join", Prop: "C15", Run: func(c *vx.Ctx) *vx.Report {
		conns := splitNE(c.P("conns", "0.1,0.1,0.2"))
		cap := c.PI("cap", 2)
		pre := splitNE(c.P("pre", ""))
		closer := c.P("closer", "")
		db := c.P("db", "mem")
		var rig *e2eRig
		var capViolation string
		known := map[*mux.Session]int{}
		bypassUser := c.P("bypass", "0") == "1"
		sc := &vrt.Scenario{
			Opt: vrt.Options{HorizonNs: int64(200 * time.Second), Delay: c.P("delay", "1") == "1", MemVars: true, MemPoints: c.P("mem", "0") == "1", Invariant: func() {
				if rig == nil {
					return
				}
				for u := 0; u < 2; u++ {
					// every session ever seen in the user's table counts for as long as it is open - also one that has
					// just been taken out of the table and not been closed yet
					for _, s := range sessionsOf(rig.sta.Panel, uidOf(u)) {
						known[s] = u
					}
					live := 0
					for s, ku := range known {
						if ku == u && !s.IsClosed() {
							live++
						}
					}
					if live > cap && !(bypassUser && u == 0) {
						capViolation = fmt.Sprintf("user %d has %d live sessions, cap is %d", u, live, cap)
						vrt.Fail("session-cap", "%s", capViolation)
					}
				}
			}},
			Classify: deadlockIs("no-deadlock"),
			Main: func() {
				rig = nil
				for k := range known {
					delete(known, k)
				}
				var base usermanager.UserManager
				if db == "bolt" {
					base = freshBoltManager()
					for u := 0; u < 2; u++ {
						base.WriteUserInfo(usermanager.UserInfo{UID: uidOf(u), SessionsCap: i32(int32(cap)), UpRate: i64(1 << 40), DownRate: i64(1 << 40), UpCredit: i64(1 << 40), DownCredit: i64(1 << 40), ExpiryTime: i64(1 << 40)})
					}
				} else {
					mm := newMemManager()
					for u := 0; u < 2; u++ {
						mm.add(uidOf(u), memUser{upRate: 1 << 40, downRate: 1 << 40, upCredit: 1 << 40, downCredit: 1 << 40, expiry: 1 << 40, cap: cap})
					}
					base = mm
				}
				var bypass [][]byte
				if c.P("bypass", "0") == "1" {
					// user 0 is a bypass UID (no database record consulted, no cap): the server without a database
					bypass = [][]byte{uidOf(0)}
				}
				r := newE2ERig(newEvManager(base), bypass, nil)
				rig = r
				// replyfault=first: the server cannot write its reply on the first of the connections that arrive
				// together (the client has gone); no connection that ever belonged to a session fails
				faultedPair := ""
				if c.P("replyfault", "") == "first" {
					r.wrapAccepted = func(i int, cn net.Conn) net.Conn {
						if i == len(pre) {
							faultedPair = strings.TrimSuffix(cn.(*vnet.Conn).Name, "/b")
							return deafConn{cn}
						}
						return cn
					}
				}
				r.serve(len(conns) + len(pre))
				// listeners=2: the server listens on two ports (ck-server's default is :443 and :80), connections
				// arriving through either belong to the same users and sessions
				twoPorts := c.P("listeners", "1") == "2"
				if twoPorts {
					r.serveOn(r.net.Listen("server:80", false), len(conns)+len(pre))
				}
				port := map[string]string{}
				type res struct {
					u, s int
					key  [32]byte
					err  error
					conn net.Conn
				}
				var dialled []net.Conn
				results := make([]res, len(conns))
				connect := func(spec string) res {
					var u, s int
					fmt.Sscanf(spec, "%d.%d", &u, &s)
					remote, auth := r.clientCfg(uidOf(u), uint32(s), "plain", "firefox", "example.com", 1, false, "shadowsocks")
					addr := "server:443"
					if p := port[spec]; p != "" {
						addr = "server:" + p
					}
					conn, err := r.dialer.Dial("tcp", addr)
					if err != nil {
						vrt.Fail("harness", "dial: %v", err)
					}
					dialled = append(dialled, conn)
					// a connection the server neither answers nor closes must not block the harness forever
					conn.SetReadDeadline(time.Now().Add(5 * time.Second)) // well below the 30 s inactivity timeout of the sessions
					tr := remote.Transport.CreateTransport()
					key, err := tr.Handshake(conn, auth)
					return res{u, s, key, err, conn}
				}
				for _, p := range pre {
					if rr := connect(p); rr.err != nil {
						vrt.Fail("harness", "pre-admitted connection %s failed: %v", p, rr.err)
					}
				}
				dialled = nil // the fault concerns the connections that arrive together, not the pre-admitted ones
				var wg sync.WaitGroup
				for i, spec := range conns {
					i, spec := i, spec
					if twoPorts && i%2 == 1 {
						spec += "@80"
						port[spec] = "80"
					}
					wg.Add(1)
					vrt.Go("client:"+spec, func() {
						defer wg.Done()
						results[i] = connect(spec)
					})
				}
				var faulted net.Conn // (no connection-level fault in this driver; see replyfault)
				if closer != "" {
					var u, s int
					fmt.Sscanf(closer, "%d.%d", &u, &s)
					wg.Add(1)
					vrt.Go("closer:"+closer, func() {
						defer wg.Done()
						if rec := r.sta.Panel.activeUsers[arr16(uidOf(u))]; rec != nil {
							rec.CloseSession(uint32(s), "closed by test")
						}
					})
				}
				wg.Wait()
				// same (user, session id) => same key, one session; different => different sessions
				keyOf := map[string][32]byte{}
				okCount := map[int]map[int]bool{}
				for _, rr := range results {
					if rr.err != nil {
						continue
					}
					k := fmt.Sprintf("%d.%d", rr.u, rr.s)
					if prev, ok := keyOf[k]; ok && prev != rr.key {
						vrt.Fail("same-session-same-key", "two connections of user %d session %d were given different session keys", rr.u, rr.s)
					}
					keyOf[k] = rr.key
					if okCount[rr.u] == nil {
						okCount[rr.u] = map[int]bool{}
					}
					okCount[rr.u][rr.s] = true
				}
				seen := map[[32]byte]string{}
				for k, key := range keyOf {
					if other, dup := seen[key]; dup {
						vrt.Fail("different-sessions-different-keys", "sessions %s and %s share a session key", k, other)
					}
					seen[key] = k
				}
				for k, key := range keyOf {
					var u, s int
					fmt.Sscanf(k, "%d.%d", &u, &s)
					sesh := sessionsOf(r.sta.Panel, uidOf(u))[uint32(s)]
					if sesh == nil {
						// a refused sibling connection runs dispatchConnection's error path, which closes
						// whatever session carries that id (observation O1 in DESIGN.md); the property does not
						// forbid that, so only an unexplained disappearance is judged
						refusedSibling := false
						for _, rr := range results {
							if rr.err != nil && rr.u == u && rr.s == s {
								refusedSibling = true
							}
						}
						if closer == k || refusedSibling {
							continue
						}
						vrt.Fail("joined-the-session", "client of %s completed the handshake but the server has no such session", k)
					}
					if sesh.GetSessionKey() != key {
						vrt.Fail("joined-the-session", "client of %s holds a key different from the server session's key", k)
					}
				}
				// the cap: with no closures, exactly min(cap, distinct session ids) sessions are admitted
				if closer == "" {
					for u := 0; u < 2; u++ {
						want := map[int]bool{}
						for _, spec := range append(append([]string{}, pre...), conns...) {
							var uu, s int
							fmt.Sscanf(spec, "%d.%d", &uu, &s)
							if uu == u {
								want[s] = true
							}
						}
						admitted := len(sessionsOf(r.sta.Panel, uidOf(u)))
						exp := len(want)
						if exp > cap {
							exp = cap
						}
						if admitted != exp {
							vrt.Fail("session-cap", "user %d asked for %d distinct sessions with cap %d: %d admitted, expected %d", u, len(want), cap, admitted, exp)
						}
					}
				}
				// nothing stands in the way of these connections (no closure, every user within its cap): each
				// client completes its handshake - a reply the client cannot open is not an answer
				if closer == "" {
					within := true
					for u := 0; u < 2; u++ {
						want := map[int]bool{}
						for _, spec := range append(append([]string{}, pre...), conns...) {
							var uu, s int
							fmt.Sscanf(spec, "%d.%d", &uu, &s)
							if uu == u {
								want[s] = true
							}
						}
						if len(want) > cap {
							within = false
						}
					}
					if within {
						for i, rr := range results {
							if rr.err != nil && rr.conn != faulted && !(faultedPair != "" && strings.TrimSuffix(rr.conn.(*vnet.Conn).Name, "/a") == faultedPair) {
								vrt.Fail("joined-the-session", "connection %d (%s) is within its user's cap and nothing was closed, yet the client's handshake failed: %v", i, conns[i], rr.err)
							}
						}
					}
				}
				ok := 0
				for _, rr := range results {
					if rr.err == nil {
						ok++
					}
				}
				vrt.Observe("answered=%d/%d sessions0=%d", ok, len(results), len(sessionsOf(r.sta.Panel, uidOf(0))))
			},
		}
		return vx.RunSched(c, sc, nil)
	}})

	vx.RegisterJobs("C15", func(tier string) []vx.Job {
		q := tier == "quick"
		b := func(quick, thorough int) int {
			if q {
				return quick
			}
			return thorough
		}
		jobs := []vx.Job{
			{Scenario: "srv.join", Params: vx.P("conns", "0.1,0.1", "cap", "2"), Bound: b(2, 3), Weight: 6},
			{Scenario: "srv.join", Params: vx.P("conns", "0.1,0.2", "cap", "1"), Bound: b(2, 3), Weight: 6},
			{Scenario: "srv.join", Params: vx.P("conns", "0.1,1.1", "cap", "1"), Bound: b(2, 3), Weight: 6},
			{Scenario: "srv.join", Params: vx.P("conns", "0.1,0.1,0.2", "cap", "2"), Bound: b(2, 3), Weight: 9},
			{Scenario: "srv.join", Params: vx.P("conns", "0.1,0.2,0.3", "cap", "2"), Bound: b(2, 3), Weight: 9},
			{Scenario: "srv.join", Params: vx.P("conns", "0.1,0.1,0.1", "cap", "1"), Bound: b(2, 3), Weight: 9},
			{Scenario: "srv.join", Params: vx.P("conns", "0.1,0.2", "cap", "0"), Bound: b(2, 3), Weight: 4},
			{Scenario: "srv.join", Params: vx.P("conns", "0.3,0.3", "pre", "0.1,0.2", "cap", "2", "closer", "0.1"), Bound: b(2, 3), Weight: 9},
			{Scenario: "srv.join", Params: vx.P("conns", "0.3,0.3", "pre", "0.1,0.2", "cap", "3", "closer", "0.1"), Bound: b(2, 3), Weight: 9},
			{Scenario: "srv.join", Params: vx.P("conns", "0.1,0.2", "cap", "1", "db", "bolt"), Bound: b(1, 2), Weight: 7},
			{Scenario: "srv.join", Params: vx.P("conns", "0.1,0.2,0.3", "cap", "2", "db", "bolt"), Bound: b(1, 2), Weight: 8},
			{Scenario: "srv.join", Params: vx.P("conns", "0.1,0.2", "cap", "0", "db", "bolt"), Bound: b(1, 2), Weight: 5},
			{Scenario: "srv.join", Params: vx.P("conns", "0.1,0.1", "cap", "2", "delay", "0"), Bound: b(1, 2), Weight: 8},
			// with memory points before unsynchronised writes (shared package-level state touched by two handshakes)
			{Scenario: "srv.join", Params: vx.P("conns", "0.1,0.1,0.1", "cap", "2", "pre", "0.7", "replyfault", "first"), Bound: b(2, 3), Weight: 7},
			{Scenario: "srv.join", Params: vx.P("conns", "0.1,1.1", "cap", "1", "mem", "1"), Bound: b(1, 2), Weight: 6},
			{Scenario: "srv.join", Params: vx.P("conns", "0.1,0.1", "cap", "1", "mem", "1"), Bound: b(1, 2), Weight: 6},
			// bypass UIDs (servers without a user database): the same session id still means one session, one key
			{Scenario: "srv.join", Params: vx.P("conns", "0.1,0.1", "cap", "9", "bypass", "1"), Bound: b(2, 3), Weight: 6},
			{Scenario: "srv.join", Params: vx.P("conns", "0.1,0.1,0.2", "cap", "9", "bypass", "1"), Bound: b(1, 2), Weight: 7},
			{Scenario: "srv.join", Params: vx.P("conns", "0.2,0.2", "pre", "0.1", "cap", "9", "bypass", "1", "closer", "0.1"), Bound: b(1, 2), Weight: 7},
			// through two listening ports
			{Scenario: "srv.join", Params: vx.P("conns", "0.1,0.1", "cap", "1", "listeners", "2"), Bound: b(1, 2), Weight: 6},
			{Scenario: "srv.join", Params: vx.P("conns", "0.1,0.2,0.3", "cap", "2", "listeners", "2"), Bound: b(1, 2), Weight: 7},
			{Scenario: "srv.join", Params: vx.P("conns", "0.2,0.2", "pre", "0.1", "cap", "2", "listeners", "2"), Bound: b(1, 2), Weight: 7},
		}
		jobs = append(jobs, vx.Job{Scenario: "panel.history", Params: vx.P("depth", fmt.Sprint(b(6, 9))), Weight: 6})
		for i := range jobs {
			jobs[i].BudgetS = b(100, 900)
		}
		return jobs
	})
}
