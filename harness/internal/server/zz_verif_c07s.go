//go:build verif

package server

import (
	"bytes"
	"encoding/base64"
	"encoding/binary"
	"fmt"
	rtime "time"

	"github.com/cbeuw/Cloak/internal/common"
	"github.com/cbeuw/Cloak/internal/vrt"
	"github.com/cbeuw/Cloak/internal/vx"
)

// C07 driver: first packets forged without the server's public key. The ephemeral key is replaced by
// each u-coordinate of small order (the seven points, each with the unused top bit clear and set, and
// the non-canonical encodings 2p-1.. that fit 255 bits are among them): X25519 with any private key
// gives the all-zero output for these, so the forger knows the "shared secret". The sealed block is a
// well-formed, timely block for a real user sealed under that all-zero key (and, for comparison, under
// a few other keys the forger could guess: all ones, the point itself). None of them authenticates.
func init() {
	vx.Register(&vx.Scenario{Name: "auth.smallorder", Prop: "C07", Run: func(c *vx.Ctx) *vx.Report {
		rep := &vx.Report{Job: c.Job, Engine: "enum", Outcomes: map[string]int64{}, Exhaustive: true}
		cs := hsCase{Transport: c.P("transport", "direct"), Browser: c.P("browser", "firefox"), Method: "aes-256-gcm", ProxyMethod: "shadowsocks", SID: 77, ServerName: "example.com"}
		uid := uidOf(0)
		vrt.SeedPlainRand(c.Seed)
		first, r := captureFirst(cs, uid)
		vrt.UnseedPlainRand()
		tr := transportOf(cs.Transport)
		now := rtime.Now()
		auth := func(pkt []byte) (ClientInfo, error) {
			sta := &State{StaticPv: r.sta.StaticPv, UsedRandom: map[[32]byte]int64{}, WorldState: common.WorldState{Now: func() rtime.Time { return now }}}
			ci, _, err := AuthFirstPacket(pkt, tr, sta)
			return ci, err
		}
		if _, err := auth(first); err != nil {
			rep.HarnessError = "the captured packet does not authenticate: " + err.Error()
			return rep
		}
		// forge(point, sealed64) puts the material where the transport carries it
		var forge func(point, sealed []byte) []byte
		if cs.Transport == "direct" {
			ch, err := parseClientHello(first)
			if err != nil {
				rep.HarnessError = err.Error()
				return rep
			}
			ks, _ := parseKeyShare(ch.extensions[[2]byte{0x00, 0x33}])
			at := func(f []byte) int { return bytes.Index(first, f) }
			iR, iS, iK := at(ch.random), at(ch.sessionId), at(ks)
			if iR < 0 || iS < 0 || iK < 0 || len(ch.sessionId) != 32 || len(ks) != 32 {
				rep.HarnessError = "cannot locate the authentication fields in the captured ClientHello"
				return rep
			}
			forge = func(point, sealed []byte) []byte {
				p := append([]byte{}, first...)
				copy(p[iR:], point)
				copy(p[iS:], sealed[:32])
				copy(p[iK:], sealed[32:64])
				return p
			}
		} else {
			i := bytes.Index(bytes.ToLower(first), []byte("hidden: "))
			j := i + 8 + bytes.Index(first[i+8:], []byte("\r\n"))
			forge = func(point, sealed []byte) []byte {
				h := base64.StdEncoding.EncodeToString(append(append([]byte{}, point...), sealed...))
				return append(append(append([]byte{}, first[:i+8]...), h...), first[j:]...)
			}
		}
		plaintext := make([]byte, 48)
		copy(plaintext, uid)
		copy(plaintext[16:28], "shadowsocks")
		plaintext[28] = 1
		binary.BigEndian.PutUint64(plaintext[29:37], uint64(now.Unix()))
		binary.BigEndian.PutUint32(plaintext[37:41], 99)
		hex := func(s string) []byte {
			var b []byte
			fmt.Sscanf(s, "%x", &b)
			return b
		}
		points := [][]byte{
			make([]byte, 32),
			append([]byte{1}, make([]byte, 31)...),
			hex("e0eb7a7c3b41b8ae1656e3faf19fc46ada098deb9c32b1fd866205165f49b800"),
			hex("5f9c95bca3508c24b1d0b1559c83ef5b04445cc4581c8e86d8224eddd09f1157"),
			hex("ecffffffffffffffffffffffffffffffffffffffffffffffffffffffffffff7f"),
			hex("edffffffffffffffffffffffffffffffffffffffffffffffffffffffffffff7f"),
			hex("eeffffffffffffffffffffffffffffffffffffffffffffffffffffffffffff7f"),
		}
		for _, pt := range append([][]byte{}, points...) {
			hi := append([]byte{}, pt...)
			hi[31] |= 0x80
			points = append(points, hi)
		}
		ones := bytes.Repeat([]byte{0xff}, 32)
		for pi, pt := range points {
			keys := map[string][]byte{"all-zero": make([]byte, 32), "all-ones": ones, "the-point": pt}
			for _, kn := range []string{"all-zero", "all-ones", "the-point"} {
				sealed, err := common.AESGCMEncrypt(pt[:12], keys[kn], plaintext)
				if err != nil || len(sealed) != 64 {
					rep.HarnessError = fmt.Sprintf("sealing: %v (%d bytes)", err, len(sealed))
					return rep
				}
				pkt := forge(pt, sealed)
				var ci ClientInfo
				var aerr error
				if p := catch(func() { ci, aerr = auth(pkt) }); p != "" {
					rep.Violations = append(rep.Violations, vx.Violation{Clause: "no-panic", Sig: vx.Sig(c.Job, "no-panic"), Msg: fmt.Sprintf("ephemeral key %x: %s", pt, p)})
					rep.Exhaustive = false
					return rep
				}
				rep.Executions++
				rep.Transitions++
				if aerr == nil {
					rep.Violations = append(rep.Violations, vx.Violation{Clause: "only-key-holders-authenticate", Sig: vx.Sig(c.Job, "only-key-holders-authenticate"),
						Msg: fmt.Sprintf("a first packet made without the server's public key authenticated as user %x: ephemeral key %x (small-order point %d), block sealed under the %s key", ci.UID, pt, pi%7, kn)})
					rep.Exhaustive = false
					return rep
				}
				rep.Outcomes["rejected:"+kn]++
			}
		}
		rep.States = rep.Executions
		rep.Samples = append(rep.Samples, map[string]any{"points": len(points), "transport": cs.Transport})
		return rep
	}})
}
