//go:build verif

package server

import (
	"bytes"
	"encoding/binary"
	"fmt"
	"github.com/cbeuw/Cloak/internal/common"
	"github.com/cbeuw/Cloak/internal/vrt/sync"
	"net"
	"strings"
	rtime "time"

	"github.com/cbeuw/Cloak/internal/vnet"
	"github.com/cbeuw/Cloak/internal/vrt"
	"github.com/cbeuw/Cloak/internal/vrt/time"
	"github.com/cbeuw/Cloak/internal/vx"
)

type redirInput struct {
	name       string
	data       []byte
	complete   bool // a complete first record/request or an unrecognisable first byte: everything must be relayed
	replayed   bool // the hello's random is already in the replay cache
	replayedWS bool
	method     string
}

func tlsRecord(declared int, body []byte) []byte {
	return append([]byte{0x16, 0x03, 0x01, byte(declared >> 8), byte(declared)}, body...)
}

func patternN(n int, seed byte) []byte {
	b := make([]byte, n)
	for i := range b {
		b[i] = seed + byte(i*13)
	}
	return b
}

// redirInputs builds the input classes. hello / helloBadUID / helloBadMethod are real first packets.
func redirInputs(family string, hello, helloBadUID, helloBadMethod []byte) []redirInput {
	var in []redirInput
	switch family {
	case "firstbyte":
		for b := 0; b < 256; b++ {
			d := append([]byte{byte(b)}, []byte("xyz-tail")...)
			in = append(in, redirInput{name: fmt.Sprintf("first-byte-%02x", b), data: d, complete: b != 0x16 && b != 0x47})
		}
	case "records":
		for _, L := range []int{0, 1, 100, 2994, 2995, 2996, 16384, 65535} {
			bodies := map[string][]byte{"short": patternN(min(L/2, 40), 7), "exact": patternN(L, 9), "longer": patternN(L+33, 11)}
			for bn, body := range bodies {
				if len(body) > 20000 {
					body = body[:20000]
				}
				complete := len(body) >= L || L+5 > firstPacketSize
				in = append(in, redirInput{name: fmt.Sprintf("record-len%d-%s", L, bn), data: tlsRecord(L, body), complete: complete})
			}
		}
	case "hello":
		rnd := append([]byte{}, hello...)
		for i := 11; i < 11+32; i++ {
			rnd[i] ^= 0x5a // a browser's own random: not a key Cloak can use
		}
		in = append(in, redirInput{name: "browser-hello-foreign-random", data: rnd, complete: true})
		in = append(in, redirInput{name: "browser-hello-plus-appdata", data: append(append([]byte{}, rnd...), patternN(100, 3)...), complete: true})
		for _, cut := range []int{1, 4, 5, 6, 50, len(hello) - 1} {
			in = append(in, redirInput{name: fmt.Sprintf("cloak-hello-truncated-%d", cut), data: hello[:cut], complete: false})
		}
		// positions whose change makes the packet structurally invalid or breaks the sealed material
		// (flips elsewhere leave a valid Cloak handshake - C07 enumerates those)
		for _, pos := range []int{0, 1, 2, 3, 5, 6, 11, 20, 42, 43, 44, 60} {
			m := append([]byte{}, hello...)
			m[pos] ^= 0x04
			// a changed declared record length makes the record incomplete or over-long
			complete := pos != 3 // a changed declared record length leaves the record incomplete
			in = append(in, redirInput{name: fmt.Sprintf("cloak-hello-bitflip-byte%d", pos), data: m, complete: complete})
		}
		// a browser hello whose extensions declare inconsistent inner lengths (the record and handshake framing
		// stay intact): server_name list / name lengths, and the first length field of every other extension
		if i := bytes.Index(rnd, []byte("example.com")); i > 9 {
			for _, f := range []struct {
				name string
				at   int
			}{{"sni-name-len", i - 2}, {"sni-list-len", i - 5}, {"sni-ext-len", i - 7}} {
				for _, v := range []uint16{0, 1, uint16(len("example.com")) + 1, uint16(len("example.com")) - 1, 0x0100, 0xffff} {
					m := append([]byte{}, rnd...)
					binary.BigEndian.PutUint16(m[f.at:], v)
					in = append(in, redirInput{name: fmt.Sprintf("browser-hello-%s-%d", f.name, v), data: m, complete: true})
				}
			}
			m := append([]byte{}, rnd...)
			m[i-3] = 0x07 // name type other than host_name
			in = append(in, redirInput{name: "browser-hello-sni-name-type-7", data: m, complete: true})
		}
		in = append(in, redirInput{name: "cloak-hello-replayed", data: hello, complete: true, replayed: true})
		in = append(in, redirInput{name: "cloak-hello-unauthorised-uid", data: helloBadUID, complete: true})
		in = append(in, redirInput{name: "cloak-hello-unknown-proxy-method", data: helloBadMethod, complete: true})
		in = append(in, redirInput{name: "cloak-hello-unauthorised-uid-then-data", data: append(append([]byte{}, helloBadUID...), patternN(64, 5)...), complete: true})
	case "http":
		get := func(hidden string, extra string) []byte {
			s := "GET /path HTTP/1.1\r\nHost: example.com\r\n"
			if hidden != "-" {
				s += "hidden: " + hidden + "\r\n"
			}
			return []byte(s + extra + "\r\n")
		}
		in = append(in, redirInput{name: "get-no-hidden", data: get("-", ""), complete: true})
		in = append(in, redirInput{name: "get-short-hidden", data: get("QUJD", ""), complete: true})
		in = append(in, redirInput{name: "get-garbage-base64", data: get("!!!not base64!!!", ""), complete: true})
		in = append(in, redirInput{name: "get-wrong-length-hidden", data: get(strings.Repeat("QUJD", 33), ""), complete: true})
		in = append(in, redirInput{name: "get-exact-length-garbage-hidden", data: get(strings.Repeat("QUJD", 32), ""), complete: true})
		in = append(in, redirInput{name: "get-then-body", data: append(get("-", ""), patternN(50, 1)...), complete: true})
		in = append(in, redirInput{name: "get-long-header-line", data: get("-", "X-Long: "+strings.Repeat("a", 3100)+"\r\n"), complete: true})
		in = append(in, redirInput{name: "get-200-header-lines", data: get("-", strings.Repeat("X-H: v\r\n", 200)), complete: true})
		if len(hello) > 0 {
			// hello / helloBadUID / helloBadMethod are WebSocket GETs in this family
			in = append(in, redirInput{name: "cloak-ws-replayed", data: hello, complete: true, replayedWS: true})
			in = append(in, redirInput{name: "cloak-ws-unauthorised-uid", data: helloBadUID, complete: true})
			in = append(in, redirInput{name: "cloak-ws-unknown-proxy-method", data: helloBadMethod, complete: true})
			in = append(in, redirInput{name: "cloak-ws-unauthorised-uid-then-data", data: append(append([]byte{}, helloBadUID...), patternN(40, 9)...), complete: true})
		}
		in = append(in, redirInput{name: "get-unterminated", data: []byte("GET / HTTP/1.1\r\nHost: x\r\n"), complete: false})
		in = append(in, redirInput{name: "get-bare-G", data: []byte("G"), complete: false})
		in = append(in, redirInput{name: "get-no-crlf-3100", data: []byte("G" + strings.Repeat("b", 3100)), complete: true})
	}
	return in
}

var redirScripts = []string{"silent", "one", "two", "reply-close", "close", "dialfail"}

// redirOne: one connection from an unauthenticated peer, delivered in the given segments.
func redirOne(in redirInput, cuts []int, script string, hello []byte) {
	mm := newMemManager()
	mm.add(uidOf(0), memUser{upRate: 1 << 30, downRate: 1 << 30, upCredit: 1 << 30, downCredit: 1 << 30, expiry: 1 << 40, cap: 5})
	r := newE2ERig(mm, nil, nil)
	if in.replayed {
		var rnd [32]byte
		copy(rnd[:], hello[11:43])
		rnd[31] &= 0x7f
		r.sta.UsedRandom[rnd] = time.Now().Unix()
		var raw [32]byte
		copy(raw[:], hello[11:43])
		r.sta.UsedRandom[raw] = time.Now().Unix()
	}
	if in.replayedWS {
		var rnd [32]byte
		copy(rnd[:], hiddenOf(in.data))
		r.sta.UsedRandom[rnd] = time.Now().Unix()
		rnd[31] &= 0x7f
		r.sta.UsedRandom[rnd] = time.Now().Unix()
	}
	if script == "dialfail" {
		r.sta.RedirDialer = &vnet.Dialer{N: r.net, FailAll: true}
	}
	reply := [][]byte{[]byte("HTTP/1.1 400 Bad Request\r\n\r\n"), []byte("<html>second chunk</html>")}
	var webGot []byte
	webAccepted, webOpen := false, false
	vrt.Go("web", func() {
		wc, err := r.webL.Accept()
		if err != nil {
			return
		}
		webAccepted, webOpen = true, true
		switch script {
		case "close":
			wc.Close()
			webOpen = false
			return
		case "one", "reply-close":
			wc.Write(reply[0])
		case "two":
			wc.Write(reply[0])
			wc.Write(reply[1])
		}
		if script == "reply-close" {
			wc.Close()
			webOpen = false
			return
		}
		b := make([]byte, 4096)
		for {
			k, err := wc.Read(b)
			webGot = append(webGot, b[:k]...)
			if err != nil {
				webOpen = false
				return
			}
			if bytes.HasSuffix(webGot, lateProbe) {
				wc.Write(lateReply)
			}
		}
	})
	r.serve(1)
	conn, err := r.dialer.Dial("tcp", "server:443")
	if err != nil {
		vrt.Fail("harness", "dial: %v", err)
	}
	peer := conn.(*vnet.Conn)
	prev := 0
	for _, c := range append(append([]int{}, cuts...), len(in.data)) {
		if c <= prev || c > len(in.data) {
			continue
		}
		if _, err := peer.Write(in.data[prev:c]); err != nil {
			break
		}
		prev = c
		quiesce() // the segment has been consumed as far as the server can before the next one arrives
	}
	time.Sleep(20 * time.Second) // beyond the server's 15 s first-packet timeout
	var peerGot []byte
	b := make([]byte, 4096)
	for peer.Queued() > 0 {
		k, _ := peer.Read(b)
		peerGot = append(peerGot, b[:k]...)
	}
	var script0 []byte
	switch script {
	case "one", "reply-close":
		script0 = reply[0]
	case "two":
		script0 = append(append([]byte{}, reply[0]...), reply[1]...)
	}
	sent := in.data[:prev]
	if script == "close" || script == "reply-close" {
		// the relay goroutine may already have consumed bytes the closed target never got: what matters is
		// that nothing but a prefix reached it
	}
	if !bytes.HasPrefix(sent, webGot) {
		vrt.Fail("target-gets-exact-prefix", "input %s cuts %v script %s: the redirect target received %d bytes that are not a prefix of the %d bytes the peer sent (first difference at %d)", in.name, cuts, script, len(webGot), len(sent), firstDiff(sent, webGot))
	}
	if !bytes.HasPrefix(script0, peerGot) {
		vrt.Fail("peer-gets-only-target-bytes", "input %s cuts %v script %s: the peer received %q, the target only ever sent %q", in.name, cuts, script, trunc40(peerGot), trunc40(script0))
	}
	if in.complete && (script == "silent" || script == "one" || script == "two") {
		if !webAccepted {
			vrt.Fail("complete-input-is-relayed", "input %s cuts %v: the peer sent a complete first packet but the redirect target was never contacted", in.name, cuts)
		}
		if !bytes.Equal(webGot, sent) {
			vrt.Fail("complete-input-is-relayed", "input %s cuts %v script %s: the peer sent %d bytes, the redirect target received %d", in.name, cuts, script, len(sent), len(webGot))
		}
		if !bytes.Equal(peerGot, script0) {
			vrt.Fail("peer-gets-target-bytes", "input %s cuts %v script %s: the target replied %d bytes, the peer received %d", in.name, cuts, script, len(script0), len(peerGot))
		}
	}
	if in.complete && (script == "silent" || script == "one" || script == "two") {
		if !webOpen {
			vrt.Fail("relay-stays-transparent", "input %s script %s: 20 s after accept the connection to the redirect target has been closed although neither the peer nor the target closed theirs", in.name, script)
		}
		// the relay is transparent for as long as both ends keep the connection: 20 s after the
		// connection was accepted (and again 40 s later) the peer sends more and the target answers
		for round := 0; round < 2; round++ {
			if _, err := peer.Write(lateProbe); err != nil {
				vrt.Fail("relay-stays-transparent", "input %s script %s: %d s after accept, with both ends still open, the peer's write failed: %v", in.name, script, 20+40*round, err)
			}
			quiesce()
			var late []byte
			for peer.Queued() > 0 {
				k, _ := peer.Read(b)
				late = append(late, b[:k]...)
			}
			if !bytes.HasSuffix(webGot, lateProbe) || !bytes.Equal(late, lateReply) {
				vrt.Fail("relay-stays-transparent", "input %s script %s: %d s after accept the peer sent %d more bytes and the target answered %d: the target has %d bytes in all (late bytes arrived: %v), the peer received %d", in.name, script, 20+40*round, len(lateProbe), len(lateReply), len(webGot), bytes.HasSuffix(webGot, lateProbe), len(late))
			}
			time.Sleep(40 * time.Second)
		}
	}
	if in.complete && script == "dialfail" {
		// "a transparent relay to the redirect target (or just closes)": with the target unreachable there is
		// nothing to relay to, so the server closes the peer's connection - it does not keep it open with
		// nobody reading it
		srvEnd := r.net.ConnByName(strings.TrimSuffix(peer.Name, "/a") + "/b")
		if srvEnd != nil && !srvEnd.IsClosed() {
			vrt.Fail("relay-or-close", "input %s cuts %v: the redirect target cannot be reached; 20 s after the peer's complete first packet the server has neither relayed nor closed the peer's connection (it stays open with nothing attending to it)", in.name, cuts)
		}
	}
	vrt.Observe("%s web=%d/%d peer=%d/%d open=%v", script, len(webGot), len(sent), len(peerGot), len(script0), webOpen)
}

var lateProbe, lateReply = []byte("LATE-PROBE-FROM-PEER"), []byte("late reply from target")

func firstDiff(a, b []byte) int {
	for i := 0; i < len(a) && i < len(b); i++ {
		if a[i] != b[i] {
			return i
		}
	}
	return min(len(a), len(b))
}

func trunc40(b []byte) []byte {
	if len(b) > 40 {
		return b[:40]
	}
	return b
}

func init() {
	vx.Register(&vx.Scenario{Name: "redir.relay", Prop: "C09", Run: func(c *vx.Ctx) *vx.Report {
		rep := &vx.Report{Job: c.Job, Engine: "enum+sched-dfs", Outcomes: map[string]int64{}, Exhaustive: true}
		family := c.P("family", "firstbyte")
		cutMode := c.P("cuts", "single")
		// real first packets, captured once with the real client (free-running)
		uid := uidOf(0)
		vrt.SeedPlainRand(c.Seed)
		// the packets are stamped with the virtual epoch, the server clock of the scheduled runs below
		voff := int(vrt.VEpoch.Unix() - rtime.Now().Unix())
		hello, _ := captureFirst(hsCase{Transport: "direct", Browser: "firefox", Method: "plain", ProxyMethod: "shadowsocks", SID: 4, ServerName: "example.com", Offset: voff}, uid)
		helloBadUID, _ := captureFirst(hsCase{Transport: "direct", Browser: "firefox", Method: "plain", ProxyMethod: "shadowsocks", SID: 4, ServerName: "example.com", Offset: voff}, uidOf(1))
		helloBadMethod, _ := captureFirst(hsCase{Transport: "direct", Browser: "firefox", Method: "plain", ProxyMethod: "nosuchmethod", SID: 4, ServerName: "example.com", Offset: voff}, uid)
		if family == "http" {
			// the WebSocket shape of the same three packets (captured behind the TLS terminator)
			hello, _ = captureFirst(hsCase{Transport: "cdn", Browser: "chrome", Method: "plain", ProxyMethod: "shadowsocks", SID: 4, ServerName: "example.com", Offset: voff}, uid)
			helloBadUID, _ = captureFirst(hsCase{Transport: "cdn", Browser: "chrome", Method: "plain", ProxyMethod: "shadowsocks", SID: 4, ServerName: "example.com", Offset: voff}, uidOf(1))
			helloBadMethod, _ = captureFirst(hsCase{Transport: "cdn", Browser: "chrome", Method: "plain", ProxyMethod: "nosuchmethod", SID: 4, ServerName: "example.com", Offset: voff}, uid)
		}
		vrt.UnseedPlainRand()
		inputs := redirInputs(family, hello, helloBadUID, helloBadMethod)
		if family == "http" {
			res := runSchedOnce(c.Seed, 10*time.Second, func() {
				r := newE2ERig(nil, nil, nil)
				if _, _, err := AuthFirstPacket(hello, WebSocket{}, r.sta); err != nil {
					vrt.Fail("harness", "the captured WebSocket request does not authenticate on the virtual clock: %v", err)
				}
			})
			if res.Status != vrt.Complete {
				rep.HarnessError = res.Msg
				return rep
			}
		}
		if family == "hello" {
			// self-check: on the virtual clock the captured hello authenticates, so the rejected variants
			// below are rejected for the reason their name says
			res := runSchedOnce(c.Seed, 10*time.Second, func() {
				r := newE2ERig(nil, nil, nil)
				if _, _, err := AuthFirstPacket(hello, TLS{}, r.sta); err != nil {
					vrt.Fail("harness", "the captured hello does not authenticate on the virtual clock: %v", err)
				}
			})
			if res.Status != vrt.Complete {
				rep.HarnessError = res.Msg
				return rep
			}
		}
		scripts := redirScripts
		if s := c.P("scripts", ""); s != "" {
			scripts = strings.Split(s, ",")
		}
		bound := c.Job.Bound
		for _, in := range inputs {
			var cutSets [][]int
			L := len(in.data)
			interesting := map[int]bool{}
			for _, p := range []int{1, 2, 4, 5, 6, 7, 10, 11, 43, 44, L - 1, L - 2, 3000, 2999, 3001} {
				if p > 0 && p < L {
					interesting[p] = true
				}
			}
			cutSets = append(cutSets, nil)
			switch cutMode {
			case "none":
			case "single":
				for p := 1; p < L; p++ {
					if L <= 80 || interesting[p] {
						cutSets = append(cutSets, []int{p})
					}
				}
			case "pairs":
				for p := 1; p < L; p++ {
					if !(L <= 24 || interesting[p]) {
						continue
					}
					cutSets = append(cutSets, []int{p})
					for q := p + 1; q < L; q++ {
						if L <= 24 || interesting[q] {
							cutSets = append(cutSets, []int{p, q})
						}
					}
				}
			}
			for _, cuts := range cutSets {
				for _, script := range scripts {
					if !c.Deadline.IsZero() && time.Now().After(c.Deadline) && false {
						break
					}
					in, cuts, script := in, cuts, script
					sc := &vrt.Scenario{Opt: vrt.Options{Seed: c.Seed, Delay: true, HorizonNs: int64(300 * time.Second)}, Main: func() { redirOne(in, cuts, script, hello) }}
					e := &vrt.Explorer{Sc: sc, Bound: bound, StopFirst: true, Deadline: c.Deadline}
					e.Explore()
					rep.Executions += e.Stats.Executions
					rep.Transitions += e.Stats.Transitions
					rep.States += e.Stats.States
					for k, v := range e.Stats.Outcomes {
						rep.Outcomes[k] += v
					}
					if !e.Stats.Exhaustive && e.Viol == nil {
						rep.Exhaustive = false
						rep.CapHit = e.Stats.CapHit
					}
					if e.Viol != nil {
						v := e.Viol
						if err := e.CheckDeterminism(v.Choices); err != nil {
							rep.HarnessError = err.Error()
						}
						rr, _ := e.Replay(v.Choices)
						rep.Violations = append(rep.Violations, vx.Violation{Clause: v.Clause, Sig: vx.Sig(c.Job, v.Clause), Msg: v.Msg, Status: v.Status, Choices: v.Choices, Trace: rr.Trace,
							Case: map[string]any{"input": in.name, "cuts": cuts, "script": script}, Sites: vrt.SharedSiteList()})
						rep.Exhaustive = false
						rep.CapHit = "stopped at first violation"
						return rep
					}
				}
			}
			if len(rep.Samples) < 3 {
				rep.Samples = append(rep.Samples, map[string]any{"input": in.name, "bytes": len(in.data), "cut_sets": len(cutSets), "scripts": scripts})
			}
		}
		return rep
	}})

	// redir.pair: two unauthenticated peers at the same time (one of them a correctly sealed hello that
	// is rejected only after authentication: unknown proxy method / unauthorised UID; the other a plain
	// request). Each relay carries its own peer's bytes: the two target connections receive exactly the
	// two peers' streams, one each - in every interleaving up to the bound.
	vx.Register(&vx.Scenario{Name: "redir.pair", Prop: "C09", Run: func(c *vx.Ctx) *vx.Report {
		uid := uidOf(0)
		vrt.SeedPlainRand(c.Seed)
		voff := int(vrt.VEpoch.Unix() - rtime.Now().Unix())
		helloBadMethod, _ := captureFirst(hsCase{Transport: "direct", Browser: "firefox", Method: "plain", ProxyMethod: "nosuchmethod", SID: 4, ServerName: "example.com", Offset: voff}, uid)
		helloBadUID, _ := captureFirst(hsCase{Transport: "direct", Browser: "firefox", Method: "plain", ProxyMethod: "shadowsocks", SID: 4, ServerName: "example.com", Offset: voff}, uidOf(1))
		helloOK, _ := captureFirst(hsCase{Transport: "direct", Browser: "firefox", Method: "plain", ProxyMethod: "shadowsocks", SID: 4, ServerName: "example.com", Offset: voff}, uid)
		vrt.UnseedPlainRand()
		first := helloBadMethod
		if c.P("first", "badmethod") == "baduid" {
			first = helloBadUID
		}
		// first=genuine second=replay: the same valid handshake on two connections at once - one of them is
		// the client, the other a replay, which is relayed like any other unauthenticated peer
		replayPair := c.P("first", "") == "genuine"
		second := []byte("GET /index.html HTTP/1.1\r\nHost: example.com\r\nUser-Agent: probe\r\n\r\n")
		if c.P("second", "get") == "garbage" {
			second = append([]byte{0x00}, patternN(300, 3)...)
		}
		if replayPair {
			first, second = helloOK, helloOK
		}
		sc := &vrt.Scenario{
			Opt:      vrt.Options{Delay: true, HorizonNs: int64(100 * time.Second), MemVars: true},
			Classify: deadlockIs("no-deadlock"),
			Main: func() {
				mm := newMemManager()
				mm.add(uidOf(0), memUser{upRate: 1 << 30, downRate: 1 << 30, upCredit: 1 << 30, downCredit: 1 << 30, expiry: 1 << 40, cap: 5})
				r := newE2ERig(mm, nil, nil)
				var got [][]byte
				answered := 0
				vrt.Go("web", func() {
					for {
						wc, err := r.webL.Accept()
						if err != nil {
							return
						}
						k := len(got)
						got = append(got, nil)
						vrt.Go("web-conn", func() {
							b := make([]byte, 8192)
							for {
								n, err := wc.Read(b)
								got[k] = append(got[k], b[:n]...)
								if err != nil {
									return
								}
							}
						})
					}
				})
				r.serve(2)
				var wg sync.WaitGroup
				for i, data := range [][]byte{first, second} {
					i, data := i, data
					wg.Add(1)
					vrt.Go(fmt.Sprintf("peer%d", i), func() {
						defer wg.Done()
						conn, err := r.dialer.Dial("tcp", "server:443")
						if err != nil {
							vrt.Fail("harness", "dial: %v", err)
						}
						conn.Write(data)
						if replayPair {
							conn.SetReadDeadline(time.Now().Add(10 * time.Second))
							b := make([]byte, 16)
							if k, _ := conn.Read(b); k >= 3 && b[0] == 0x16 && b[1] == 0x03 && b[2] == 0x03 {
								answered++
							}
						}
					})
				}
				wg.Wait()
				time.Sleep(20 * time.Second)
				if replayPair {
					if answered != 1 || len(got) != 1 || !bytes.Equal(got[0], helloOK) {
						n := -1
						if len(got) > 0 {
							n = len(got[0])
						}
						vrt.Fail("complete-input-is-relayed", "one valid handshake presented on two connections at once: %d were answered by the server itself, %d were relayed to the redirect target (first relayed stream: %d of %d bytes); expected one of each", answered, len(got), n, len(helloOK))
					}
					vrt.Observe("one-each")
					return
				}
				if len(got) != 2 {
					vrt.Fail("complete-input-is-relayed", "two peers sent complete first packets; the redirect target was contacted %d times", len(got))
				}
				ok := (bytes.Equal(got[0], first) && bytes.Equal(got[1], second)) || (bytes.Equal(got[0], second) && bytes.Equal(got[1], first))
				if !ok {
					which := func(b []byte) string {
						switch {
						case bytes.Equal(b, first):
							return "peer 0's stream"
						case bytes.Equal(b, second):
							return "peer 1's stream"
						case bytes.HasPrefix(first, b):
							return fmt.Sprintf("a %d-byte prefix of peer 0's stream", len(b))
						case bytes.HasPrefix(second, b):
							return fmt.Sprintf("a %d-byte prefix of peer 1's stream", len(b))
						}
						return fmt.Sprintf("%d bytes that are neither peer's stream (first difference from peer 0 at %d, from peer 1 at %d)", len(b), firstDiff(first, b), firstDiff(second, b))
					}
					vrt.Fail("target-gets-exact-prefix", "two simultaneous unauthenticated peers: one target connection received %s, the other %s", which(got[0]), which(got[1]))
				}
				vrt.Observe("relayed")
			},
		}
		return vx.RunSched(c, sc, nil)
	}})

	// redir.realstate: a State built by the server's own InitState (real dialers, real loopback TCP
	// towards the redirect target), probed right after start-up and again `wait` seconds later: an
	// unauthenticated peer is relayed at any age of the server.
	vx.Register(&vx.Scenario{Name: "redir.realstate", Prop: "C09", Run: func(c *vx.Ctx) *vx.Report {
		rep := &vx.Report{Job: c.Job, Engine: "enum", Outcomes: map[string]int64{}, Exhaustive: true}
		wait := c.PI("wait", 12)
		target, err := net.Listen("tcp", "127.0.0.1:0")
		if err != nil {
			rep.HarnessError = "cannot open a loopback TCP listener: " + err.Error()
			return rep
		}
		defer target.Close()
		got := make(chan []byte, 8)
		go func() {
			for {
				tc, err := target.Accept()
				if err != nil {
					return
				}
				go func() {
					b := make([]byte, 4096)
					tc.SetReadDeadline(rtime.Now().Add(20 * rtime.Second))
					k, _ := tc.Read(b)
					tc.Write([]byte("TARGET-REPLY"))
					got <- b[:k]
					tc.Close()
				}()
			}
		}()
		pv := make([]byte, 32)
		for i := range pv {
			pv[i] = byte(i + 1)
		}
		sta, err := InitState(RawConfig{
			ProxyBook:  map[string][]string{"shadowsocks": {"tcp", "127.0.0.1:9"}},
			RedirAddr:  target.Addr().String(),
			PrivateKey: pv,
		}, common.WorldState{Rand: vWorld().Rand, Now: rtime.Now})
		if err != nil {
			rep.HarnessError = "InitState: " + err.Error()
			return rep
		}
		probe := func(when string) string {
			n := vnet.New()
			a, b := n.Pair("probe", false)
			serveConn("probe", b, sta)
			req := []byte("GET /" + when + " HTTP/1.1\r\nHost: example.com\r\n\r\n")
			a.Write(req)
			select {
			case g := <-got:
				if !bytes.Equal(g, req) {
					return fmt.Sprintf("%s: the redirect target received %q, the peer sent %q", when, g, req)
				}
			case <-rtime.After(20 * rtime.Second):
				return when + ": the peer's request never reached the redirect target"
			}
			a.SetReadDeadline(rtime.Now().Add(20 * rtime.Second))
			buf := make([]byte, 64)
			k, _ := a.Read(buf)
			if string(buf[:k]) != "TARGET-REPLY" {
				return fmt.Sprintf("%s: the peer received %q, the target replied TARGET-REPLY", when, buf[:k])
			}
			a.Close()
			return ""
		}
		for _, step := range []struct {
			name  string
			sleep int
		}{{"right after start-up", 0}, {fmt.Sprintf("%d s after start-up", wait), wait}} {
			rtime.Sleep(rtime.Duration(step.sleep) * rtime.Second)
			msg := probe(strings.ReplaceAll(step.name, " ", "-"))
			rep.Executions++
			rep.Transitions++
			if msg != "" {
				rep.Violations = append(rep.Violations, vx.Violation{Clause: "complete-input-is-relayed", Sig: vx.Sig(c.Job, "complete-input-is-relayed"), Msg: msg})
				rep.Exhaustive = false
				break
			}
			rep.Outcomes["relayed"]++
		}
		rep.States = rep.Executions
		return rep
	}})

	// redir.target: which address the relay connects to. The configured redirect host, on the
	// configured port or - when none is configured - on the port the peer contacted; for every sequence
	// of probes (up to `depth`) arriving on the server's two ports.
	vx.Register(&vx.Scenario{Name: "redir.target", Prop: "C09", Run: func(c *vx.Ctx) *vx.Report {
		rep := &vx.Report{Job: c.Job, Engine: "enum", Outcomes: map[string]int64{}, Exhaustive: true}
		depth := c.PI("depth", 3)
		ports := []string{"443", "80"}
		var seqs [][]string
		var gen func(pre []string)
		gen = func(pre []string) {
			if len(pre) > 0 {
				seqs = append(seqs, append([]string{}, pre...))
			}
			if len(pre) == depth {
				return
			}
			for _, p := range ports {
				gen(append(pre, p))
			}
		}
		gen(nil)
		for _, cfgPort := range []string{"", "8443"} {
			for _, seq := range seqs {
				cfgPort, seq := cfgPort, seq
				var got, want []string
				res := runSchedOnce(c.Seed, 100*time.Second, func() {
					want = nil
					r := newE2ERig(nil, nil, nil)
					r.sta.RedirPort = cfgPort
					switch c.P("host", "") {
					case "v4":
						r.sta.RedirHost = &net.IPAddr{IP: net.IPv4(192, 0, 2, 7)}
					case "v6":
						// RedirAddr given as an IPv6 literal: the dialled address is "[2001:db8::2]:port"
						r.sta.RedirHost = &net.IPAddr{IP: net.ParseIP("2001:db8::2")}
					case "v6zone":
						r.sta.RedirHost = &net.IPAddr{IP: net.ParseIP("fe80::1"), Zone: "eth0"}
					}
					l80 := r.net.Listen("server:80", false)
					vrt.Go("web", func() {
						for {
							wc, err := r.webL.Accept()
							if err != nil {
								return
							}
							_ = wc
						}
					})
					for i, p := range seq {
						conn, err := r.dialer.Dial("tcp", "server:"+p)
						if err != nil {
							vrt.Fail("harness", "dial: %v", err)
						}
						l := r.srvL
						if p == "80" {
							l = l80
						}
						sc, err := l.Accept()
						if err != nil {
							vrt.Fail("harness", "accept: %v", err)
						}
						serveConn(fmt.Sprintf("dispatch%d", i), sc, r.sta)
						conn.Write([]byte("hello, not a handshake\n"))
						quiesce()
						wp := cfgPort
						if wp == "" {
							wp = p
						}
						want = append(want, net.JoinHostPort(r.sta.RedirHost.String(), wp))
					}
					got = append([]string{}, redirAddrs...)
				})
				rep.Executions++
				rep.Transitions += int64(len(seq))
				msg := ""
				if res.Status != vrt.Complete {
					msg = fmt.Sprintf("%s: %s", res.Status, res.Msg)
				} else if fmt.Sprint(got) != fmt.Sprint(want) {
					msg = fmt.Sprintf("redirect port configured %q, probes arriving on ports %v: the relay connected to %v, expected %v", cfgPort, seq, got, want)
				}
				rep.Outcomes[fmt.Sprintf("configured=%q", cfgPort)]++
				if msg != "" {
					rep.Violations = append(rep.Violations, vx.Violation{Clause: "relay-goes-to-configured-target", Sig: vx.Sig(c.Job, "relay-goes-to-configured-target"), Msg: msg})
					rep.Exhaustive = false
					rep.States = rep.Executions
					return rep
				}
			}
		}
		rep.States = rep.Executions
		return rep
	}})

	vx.RegisterJobs("C09", func(tier string) []vx.Job {
		q := tier == "quick"
		var jobs []vx.Job
		for _, fam := range []string{"firstbyte", "records", "hello", "http"} {
			cuts := "single"
			if fam == "firstbyte" {
				cuts = "none"
			}
			jobs = append(jobs, vx.Job{Scenario: "redir.relay", Params: vx.P("family", fam, "cuts", cuts), Bound: 0, BudgetS: 110, Weight: 8})
			if q {
				jobs = append(jobs, vx.Job{Scenario: "redir.relay", Params: vx.P("family", fam, "cuts", "none", "scripts", "one,reply-close,close"), Bound: 1, BudgetS: 110, Weight: 9})
			} else {
				jobs = append(jobs, vx.Job{Scenario: "redir.relay", Params: vx.P("family", fam, "cuts", "pairs"), Bound: 0, BudgetS: 900, Weight: 9})
				jobs = append(jobs, vx.Job{Scenario: "redir.relay", Params: vx.P("family", fam, "cuts", "single", "scripts", "one,two,reply-close,close"), Bound: 2, BudgetS: 900, Weight: 9})
			}
		}
		jobs = append(jobs, vx.Job{Scenario: "redir.pair", Params: vx.P("first", "badmethod", "second", "get"), Bound: map[bool]int{true: 2, false: 3}[q], BudgetS: 110, Weight: 5},
			vx.Job{Scenario: "redir.pair", Params: vx.P("first", "baduid", "second", "garbage"), Bound: map[bool]int{true: 2, false: 3}[q], BudgetS: 110, Weight: 5},
			vx.Job{Scenario: "redir.pair", Params: vx.P("first", "genuine", "second", "replay"), Bound: map[bool]int{true: 2, false: 3}[q], BudgetS: 110, Weight: 5})
		// a first packet naming a live session of its user but an unknown proxy method is web traffic as well
		jobs = append(jobs, vx.Job{Scenario: "auth.second", Params: vx.P("transport", "direct"), Weight: 3})
		jobs = append(jobs, vx.Job{Scenario: "redir.realstate", Params: vx.P("wait", "12"), Weight: 6})
		jobs = append(jobs, vx.Job{Scenario: "redir.tcp", Weight: 3})
		// valid hellos with an unauthorised UID or an unserved method against a State built by InitState (C07's driver)
		jobs = append(jobs, vx.Job{Scenario: "auth.initstate", Weight: 2})
		jobs = append(jobs, vx.Job{Scenario: "redir.target", Params: vx.P("depth", map[bool]string{true: "3", false: "5"}[q]), Weight: 1})
		for _, h := range []string{"v4", "v6", "v6zone"} {
			jobs = append(jobs, vx.Job{Scenario: "redir.target", Params: vx.P("depth", "2", "host", h), Weight: 1})
		}
		return jobs
	})
}
