//go:build verif

package server

import (
	"bytes"
	"encoding/base64"
	"encoding/json"
	"fmt"
	"io"
	"math"
	"net/http/httptest"
	"os"
	"sort"
	"strings"
	"time"

	"github.com/cbeuw/Cloak/internal/common"
	"github.com/cbeuw/Cloak/internal/server/usermanager"
	"github.com/cbeuw/Cloak/internal/vx"
)

// C18: the user database behind the admin API as a keyed store. Explicit-state BFS: a state is a
// bbolt file (a true snapshot: successors work on copies), transitions are HTTP requests served by
// the real APIRouter; the reference model is a map uid -> field -> value.

var c18Fields = []string{"SessionsCap", "UpRate", "DownRate", "UpCredit", "DownCredit", "ExpiryTime"}

const c18Now = int64(1700000000)

var c18Canon = map[string]int64{"SessionsCap": 2, "UpRate": 1000, "DownRate": 2000, "UpCredit": 3000, "DownCredit": 4000, "ExpiryTime": c18Now + 86400}

type c18Ref map[string]map[string]int64 // uid (raw string) -> present fields

func (r c18Ref) clone() c18Ref {
	n := c18Ref{}
	for u, f := range r {
		m := map[string]int64{}
		for k, v := range f {
			m[k] = v
		}
		n[u] = m
	}
	return n
}

func (r c18Ref) key() string {
	var us []string
	for u := range r {
		us = append(us, u)
	}
	sort.Strings(us)
	var sb strings.Builder
	for _, u := range us {
		fmt.Fprintf(&sb, "%x{", u)
		for _, f := range c18Fields {
			if v, ok := r[u][f]; ok {
				fmt.Fprintf(&sb, "%s=%d,", f, v)
			}
		}
		sb.WriteString("}")
	}
	return sb.String()
}

// c18UIDLen: the API takes UIDs of any length; 16 bytes is what clients use. Other lengths are the first
// bytes of, or an extension of, the usual test UIDs.
var c18UIDLen = 16

// c18UIDKind "urlsafe": UIDs whose URL-safe base64 form (the one the API's paths use) contains '-' and
// '_' and whose standard form contains '+' and '/' - about half of all random UIDs do.
var c18UIDKind = ""

func c18uid(u int) []byte {
	b := uidOf(u)
	if c18UIDKind == "urlsafe" {
		b = append([]byte{}, b...)
		b[0], b[1], b[2] = 0xfb, 0xef, 0xbe // "----" / "++++"
		b[3], b[4], b[5] = 0xff, 0xff, 0xff // "____" / "////"
	}
	if c18UIDLen <= 16 {
		return b[:c18UIDLen]
	}
	for len(b) < c18UIDLen {
		b = append(b, byte(0x40+len(b)))
	}
	return b
}

type c18Op struct {
	Kind   string           `json:"kind"` // post, mismatch, garbage, badcap, get, list, delete, reopen
	UID    int              `json:"uid"`
	Fields map[string]int64 `json:"fields,omitempty"`
}

func (o c18Op) String() string {
	b, _ := json.Marshal(o)
	return string(b)
}

func c18Alphabet(full bool) []c18Op {
	var ops []c18Op
	for u := 0; u < 2; u++ {
		if full {
			for mask := 0; mask < 64; mask++ {
				f := map[string]int64{}
				for i, name := range c18Fields {
					if mask>>i&1 == 1 {
						f[name] = c18Canon[name] + int64(u)
					}
				}
				ops = append(ops, c18Op{Kind: "post", UID: u, Fields: f})
			}
		} else {
			all := map[string]int64{}
			for _, name := range c18Fields {
				all[name] = c18Canon[name] + int64(u)
			}
			ops = append(ops, c18Op{Kind: "post", UID: u, Fields: all}, c18Op{Kind: "post", UID: u, Fields: map[string]int64{}},
				c18Op{Kind: "post", UID: u, Fields: map[string]int64{"UpCredit": 5, "DownCredit": 6}}, c18Op{Kind: "post", UID: u, Fields: map[string]int64{"SessionsCap": 1, "ExpiryTime": c18Now + 5}})
		}
		for _, name := range c18Fields {
			vals := []int64{0, -1, 1, math.MaxInt64, math.MinInt64}
			if name == "SessionsCap" {
				vals = []int64{0, -1, 1, math.MaxInt32, math.MinInt32}
			}
			if !full {
				vals = vals[:2]
			}
			for _, v := range vals {
				ops = append(ops, c18Op{Kind: "post", UID: u, Fields: map[string]int64{name: v}})
			}
		}
		ops = append(ops, c18Op{Kind: "mismatch", UID: u, Fields: map[string]int64{"UpCredit": 777}}, c18Op{Kind: "garbage", UID: u}, c18Op{Kind: "badcap", UID: u},
			c18Op{Kind: "get", UID: u}, c18Op{Kind: "delete", UID: u})
	}
	ops = append(ops, c18Op{Kind: "list"}, c18Op{Kind: "reopen"})
	return ops
}

func c18World() common.WorldState {
	return common.WorldState{Rand: nil, Now: func() time.Time { return time.Unix(c18Now, 0) }}
}

func copyFileC18(src, dst string) {
	in, err := os.Open(src)
	if err != nil {
		panic(err)
	}
	defer in.Close()
	out, err := os.Create(dst)
	if err != nil {
		panic(err)
	}
	defer out.Close()
	io.Copy(out, in)
}

type c18Closer interface {
	usermanager.UserManager
	Close() error
}

func c18Open(path string) c18Closer {
	m, err := usermanager.MakeLocalManager(path, c18World())
	if err != nil {
		panic(err)
	}
	return m
}

func b64url(uid []byte) string { return base64.URLEncoding.EncodeToString(uid) }

func c18Body(uid []byte, fields map[string]int64) []byte {
	m := map[string]any{"UID": uid}
	for k, v := range fields {
		m[k] = v
	}
	b, _ := json.Marshal(m)
	return b
}

// readBack compares everything the API returns for the whole store with the reference.
func c18ReadBack(mgr usermanager.UserManager, ref c18Ref) string {
	router := usermanager.APIRouterOf(mgr)
	for u := 0; u < 2; u++ {
		uid := c18uid(u)
		rec := httptest.NewRecorder()
		perr := catch(func() { router.ServeHTTP(rec, httptest.NewRequest("GET", "/admin/users/"+b64url(uid), nil)) })
		if perr != "" {
			return fmt.Sprintf("GET user %d panics: %s", u, perr)
		}
		want, exists := ref[string(uid)]
		if !exists {
			if rec.Code != 404 {
				return fmt.Sprintf("GET of absent user %d answered %d", u, rec.Code)
			}
			continue
		}
		if rec.Code != 200 {
			return fmt.Sprintf("GET of existing user %d answered %d: %s", u, rec.Code, rec.Body.String())
		}
		if msg := c18CompareInfo(rec.Body.Bytes(), uid, want); msg != "" {
			return fmt.Sprintf("GET user %d: %s", u, msg)
		}
	}
	rec := httptest.NewRecorder()
	if perr := catch(func() { router.ServeHTTP(rec, httptest.NewRequest("GET", "/admin/users", nil)) }); perr != "" {
		return "LIST panics: " + perr
	}
	if rec.Code != 200 {
		return fmt.Sprintf("LIST answered %d", rec.Code)
	}
	var arr []json.RawMessage
	if err := json.Unmarshal(rec.Body.Bytes(), &arr); err != nil {
		return "LIST returned invalid JSON: " + err.Error()
	}
	if len(arr) != len(ref) {
		return fmt.Sprintf("LIST returned %d users, the store should hold %d", len(arr), len(ref))
	}
	for _, raw := range arr {
		var head struct{ UID []byte }
		json.Unmarshal(raw, &head)
		want, ok := ref[string(head.UID)]
		if !ok {
			return fmt.Sprintf("LIST returned unknown user %x", head.UID)
		}
		if msg := c18CompareInfo(raw, head.UID, want); msg != "" {
			return "LIST: " + msg
		}
	}
	return ""
}

func c18CompareInfo(body []byte, uid []byte, want map[string]int64) string {
	var got map[string]any
	dec := json.NewDecoder(bytes.NewReader(body))
	dec.UseNumber()
	if err := dec.Decode(&got); err != nil {
		return "invalid JSON: " + err.Error()
	}
	gu, _ := got["UID"].(string)
	if gu != base64.StdEncoding.EncodeToString(uid) {
		return fmt.Sprintf("UID %q", gu)
	}
	for _, f := range c18Fields {
		w, set := want[f]
		g := got[f]
		if g == nil {
			if set {
				return fmt.Sprintf("field %s missing, stored %d", f, w)
			}
			continue
		}
		n, err := g.(json.Number).Int64()
		if err != nil {
			return fmt.Sprintf("field %s = %v", f, g)
		}
		if n != w { // a never-set field reads as 0
			return fmt.Sprintf("field %s = %d, the operations so far imply %d", f, n, w)
		}
	}
	return ""
}

func catch(f func()) (msg string) {
	defer func() {
		if r := recover(); r != nil {
			msg = fmt.Sprint(r)
		}
	}()
	f()
	return
}

// c18Probe: nothing the API can create may crash the paths that use the record.
func c18Probe(path string, ref c18Ref, scratch string) string {
	for uidStr := range ref {
		uid := []byte(uidStr)
		copyFileC18(path, scratch)
		mgr := c18Open(scratch)
		var msg string
		try := func(what string, f func()) {
			if msg == "" {
				if p := catch(f); p != "" {
					msg = fmt.Sprintf("%s panics for record %v: %s", what, ref[uidStr], p)
				}
			}
		}
		try("ListAllUsers", func() { mgr.ListAllUsers() })
		try("GetUserInfo", func() { mgr.GetUserInfo(uid) })
		try("AuthenticateUser", func() { mgr.AuthenticateUser(uid) })
		try("AuthoriseNewSession", func() { mgr.AuthoriseNewSession(uid, usermanager.AuthorisationInfo{NumExistingSessions: 0}) })
		try("the owner connecting (userPanel.GetUser)", func() {
			panel := &userPanel{Manager: mgr, activeUsers: map[[16]byte]*ActiveUser{}, usageUpdateQueue: map[[16]byte]*usagePair{}}
			panel.GetUser(uid)
		})
		try("UploadStatus", func() {
			mgr.UploadStatus([]usermanager.StatusUpdate{{UID: uid, Active: true, NumSession: 1, UpUsage: 1, DownUsage: 1, Timestamp: c18Now}})
		})
		mgr.Close()
		if msg != "" {
			return msg
		}
	}
	return ""
}

// c18Apply serves one request on the database at path and returns the expected successor state.
func c18Apply(path string, op c18Op, ref c18Ref) (next c18Ref, msg string) {
	next = ref.clone()
	mgr := c18Open(path)
	defer func() { mgr.Close() }()
	router := usermanager.APIRouterOf(mgr)
	uid := c18uid(op.UID)
	other := c18uid(1 - op.UID)
	do := func(method, url string, body []byte) *httptest.ResponseRecorder {
		rec := httptest.NewRecorder()
		var rd io.Reader
		if body != nil {
			rd = bytes.NewReader(body)
		}
		if p := catch(func() { router.ServeHTTP(rec, httptest.NewRequest(method, url, rd)) }); p != "" {
			msg = fmt.Sprintf("%s %s panics: %s", method, url, p)
		}
		return rec
	}
	switch op.Kind {
	case "post":
		rec := do("POST", "/admin/users/"+b64url(uid), c18Body(uid, op.Fields))
		if msg == "" && rec.Code != 201 {
			msg = fmt.Sprintf("valid POST answered %d: %s", rec.Code, rec.Body.String())
		}
		if next[string(uid)] == nil {
			next[string(uid)] = map[string]int64{}
		}
		for k, v := range op.Fields {
			next[string(uid)][k] = v
		}
	case "mismatch":
		rec := do("POST", "/admin/users/"+b64url(uid), c18Body(other, op.Fields))
		if msg == "" && rec.Code/100 != 4 {
			msg = fmt.Sprintf("POST with mismatching UIDs answered %d", rec.Code)
		}
	case "garbage":
		rec := do("POST", "/admin/users/"+b64url(uid), []byte(`{"UID": "AAAA", "UpRate": }`))
		if msg == "" && rec.Code/100 != 4 {
			msg = fmt.Sprintf("POST with malformed JSON answered %d", rec.Code)
		}
	case "badcap":
		rec := do("POST", "/admin/users/"+b64url(uid), []byte(`{"UID":"`+base64.StdEncoding.EncodeToString(uid)+`","SessionsCap":2147483648,"UpCredit":99}`))
		if msg == "" && rec.Code/100 != 4 {
			msg = fmt.Sprintf("POST with SessionsCap out of the int32 range answered %d", rec.Code)
		}
	case "get":
		do("GET", "/admin/users/"+b64url(uid), nil)
	case "list":
		do("GET", "/admin/users", nil)
	case "delete":
		rec := do("DELETE", "/admin/users/"+b64url(uid), nil)
		if _, ok := ref[string(uid)]; ok && msg == "" && rec.Code != 200 {
			msg = fmt.Sprintf("DELETE of an existing user answered %d", rec.Code)
		}
		delete(next, string(uid))
	case "reopen":
		mgr.Close()
		mgr = c18Open(path)
	}
	if msg != "" {
		return
	}
	// every request, accepted or rejected, must leave the store equal to the reference
	if m := c18ReadBack(mgr, next); m != "" {
		msg = fmt.Sprintf("after %s: %s", op, m)
		return
	}
	// and the state must survive closing and reopening
	mgr.Close()
	mgr = c18Open(path)
	if m := c18ReadBack(mgr, next); m != "" {
		msg = fmt.Sprintf("after %s and a close/reopen: %s", op, m)
	}
	return
}

// c18Class names what failed, so that a known finding covers one kind of failure only.
func c18Class(msg string) string {
	switch {
	case strings.Contains(msg, "mismatching") || (strings.Contains(msg, `"kind":"mismatch"`) && strings.Contains(msg, "imply")):
		return "rejected-request-changes-nothing:uid-mismatch"
	case strings.Contains(msg, `"kind":"mismatch"`):
		return "rejected-request-changes-nothing:uid-mismatch"
	case strings.Contains(msg, "the owner connecting") && strings.Contains(msg, "panics"):
		return "no-panic:owner-connects"
	case strings.Contains(msg, "panics"):
		return "no-panic:partial-record"
	}
	return "keyed-store"
}

func init() {
	vx.Register(&vx.Scenario{Name: "adminapi.bfs", Prop: "C18", Run: func(c *vx.Ctx) *vx.Report {
		rep := &vx.Report{Job: c.Job, Engine: "bfs", Outcomes: map[string]int64{}, Exhaustive: true}
		depth := c.PI("depth", 2)
		full := c.P("alphabet", "full") == "full"
		c18UIDLen = c.PI("uidlen", 16)
		c18UIDKind = c.P("uidkind", "")
		defer func() { c18UIDLen, c18UIDKind = 16, "" }()
		shard, shards := c.PI("shard", 0), c.PI("shards", 1)
		dir := fmt.Sprintf("/dev/shm/vx-c18-%d", os.Getpid())
		os.RemoveAll(dir)
		os.MkdirAll(dir, 0o700)
		defer os.RemoveAll(dir)
		ops := c18Alphabet(full)
		type node struct {
			path  string
			ref   c18Ref
			hist  []string
			depth int
		}
		root := dir + "/s0.db"
		c18Open(root).Close()
		seen := map[string]bool{c18Ref{}.key(): true}
		frontier := []node{{root, c18Ref{}, nil, 0}}
		nfile := 1
		reported := map[string]bool{}
		for len(frontier) > 0 {
			nd := frontier[0]
			frontier = frontier[1:]
			if nd.depth >= depth {
				continue
			}
			if !c.Deadline.IsZero() && time.Now().After(c.Deadline) {
				rep.Exhaustive = false
				rep.CapHit = fmt.Sprintf("time budget: %d states still in the frontier", len(frontier)+1)
				break
			}
			for oi, op := range ops {
				if nd.depth == 0 && oi%shards != shard {
					continue // level-1 successors are split between the shards
				}
				work := fmt.Sprintf("%s/w.db", dir)
				copyFileC18(nd.path, work)
				next, msg := c18Apply(work, op, nd.ref)
				rep.Transitions++
				rep.Executions++
				if msg == "" {
					msg = c18Probe(work, next, dir+"/probe.db")
				}
				if msg != "" {
					cls := c18Class(msg + op.String())
					if !reported[cls] {
						reported[cls] = true
						rep.Violations = append(rep.Violations, vx.Violation{Clause: strings.SplitN(cls, ":", 2)[0], Sig: "adminapi.bfs{}|" + cls,
							Msg: fmt.Sprintf("history %v then %s: %s", nd.hist, op, msg), Case: map[string]any{"history": nd.hist, "op": op}})
					}
					rep.Outcomes["violating-transition:"+cls]++
					continue // do not expand a state the reference does not describe
				}
				k := next.key()
				if !seen[k] {
					seen[k] = true
					p := fmt.Sprintf("%s/s%d.db", dir, nfile)
					nfile++
					os.Rename(work, p)
					frontier = append(frontier, node{p, next, append(append([]string{}, nd.hist...), op.String()), nd.depth + 1})
					if len(rep.Samples) < 2 && nd.depth == 1 {
						rep.Samples = append(rep.Samples, map[string]any{"history": append(append([]string{}, nd.hist...), op.String()), "state": k})
					}
				}
			}
			if nd.path != root {
				os.Remove(nd.path)
			}
		}
		rep.States = int64(len(seen))
		rep.Outcomes["states"] = rep.States
		rep.Outcomes["alphabet"] = int64(len(ops))
		if len(rep.Violations) > 0 {
			rep.Exhaustive = false
			rep.CapHit = "violating transitions are not expanded"
		}
		if len(rep.Samples) == 0 {
			rep.Samples = append(rep.Samples, map[string]any{"alphabet_size": len(ops), "depth": depth})
		}
		return rep
	}})

	vx.RegisterJobs("C18", func(tier string) []vx.Job {
		var jobs []vx.Job
		if tier == "quick" {
			for s := 0; s < 16; s++ {
				jobs = append(jobs, vx.Job{Scenario: "adminapi.bfs", Params: vx.P("depth", "2", "alphabet", "full", "shard", fmt.Sprint(s), "shards", "16"), Weight: 5})
			}
		} else {
			for s := 0; s < 32; s++ {
				jobs = append(jobs, vx.Job{Scenario: "adminapi.bfs", Params: vx.P("depth", "2", "alphabet", "full", "shard", fmt.Sprint(s), "shards", "32"), Weight: 5})
			}
			for s := 0; s < 32; s++ {
				jobs = append(jobs, vx.Job{Scenario: "adminapi.bfs", Params: vx.P("depth", "3", "alphabet", "reduced", "shard", fmt.Sprint(s), "shards", "32"), BudgetS: 900, Weight: 8})
				jobs = append(jobs, vx.Job{Scenario: "adminapi.bfs", Params: vx.P("depth", "4", "alphabet", "reduced", "shard", fmt.Sprint(s), "shards", "32"), BudgetS: 600, Weight: 9})
			}
		}
		// UIDs that are not 16 bytes long (the API accepts any length)
		for _, l := range []string{"4", "20"} {
			jobs = append(jobs, vx.Job{Scenario: "adminapi.bfs", Params: vx.P("depth", "2", "alphabet", "reduced", "uidlen", l), Weight: 4})
		}
		// UIDs whose base64 forms differ between the URL-safe and the standard alphabet
		jobs = append(jobs, vx.Job{Scenario: "adminapi.bfs", Params: vx.P("depth", "2", "alphabet", "reduced", "uidkind", "urlsafe"), Weight: 4})
		// the API through a real admin session, with fast and slow database operations
		jobs = append(jobs, vx.Job{Scenario: "adminapi.session", Weight: 3})
		// "fields not mentioned in an update keep their value" while the server is running: a partial update
		// overlapping a usage upload (every interleaving of their database transactions)
		jobs = append(jobs, vx.Job{Scenario: "panel.usage", Params: vx.P("sessions", "0.1", "ops", "up0.1:10,round,cap0", "db", "bolt"), Bound: map[string]int{"quick": 1, "thorough": 2}[tier], BudgetS: map[string]int{"quick": 100, "thorough": 900}[tier], Weight: 7})
		// two users in one upload round: each record keeps its own values (the store stays keyed), also after reopening
		jobs = append(jobs, vx.Job{Scenario: "panel.usage", Params: vx.P("sessions", "0.1,1.1", "ops", "up0.1:40,up1.1:25,down0.1:30,round,down1.1:9,round", "seq", "1", "db", "bolt"), Bound: 0, Weight: 3})
		// the upload round that follows a deletion / an exhausted credit when the user's last session has already gone
		jobs = append(jobs, vx.Job{Scenario: "panel.usage", Params: vx.P("sessions", "0.1", "ops", "up0.1:30,close0.1,delete0,round", "seq", "1", "db", "bolt"), Bound: 0, Weight: 3},
			vx.Job{Scenario: "panel.usage", Params: vx.P("sessions", "0.1", "ops", "up0.1:300,close0.1,round", "upcredit", "200", "seq", "1", "db", "bolt"), Bound: 0, Weight: 3})
		return jobs
	})
}
