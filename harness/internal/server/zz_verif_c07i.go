//go:build verif

package server

import (
	"bytes"
	"fmt"
	"net"
	rtime "time"

	"github.com/cbeuw/Cloak/internal/client"
	"github.com/cbeuw/Cloak/internal/common"
	"github.com/cbeuw/Cloak/internal/ecdh"
	"github.com/cbeuw/Cloak/internal/vnet"
	"github.com/cbeuw/Cloak/internal/vx"
)

// C07 driver on a State built the way ck-server builds it (InitState from a RawConfig, no user
// database): every combination of {AdminUID configured or not} x {BypassUID list empty or not} x the
// UID a client presents {all zero bytes, an unknown one, the bypass UID, the admin UID} x the proxy
// method it names {a served tcp entry, entries whose network is not tcp/udp ("tcp4", "unix"), an
// absent one}. Each client runs the real handshake against the dispatcher; it is answered as a Cloak
// client exactly when its UID is authorised by that configuration and the method names an endpoint
// the server can reach - everything else goes to the redirection target.
func init() {
	vx.Register(&vx.Scenario{Name: "auth.initstate", Prop: "C07", Run: func(c *vx.Ctx) *vx.Report {
		rep := &vx.Report{Job: c.Job, Engine: "enum", Outcomes: map[string]int64{}, Exhaustive: true}
		seed := make([]byte, 32)
		for i := range seed {
			seed[i] = byte(7*i + 5)
		}
		pv, pub, _ := ecdh.GenerateKey(bytes.NewReader(seed))
		bypassUID, adminUID, unknownUID, zeroUID := uidOf(0), uidOf(1), uidOf(2), make([]byte, 16)
		for _, withAdmin := range []bool{false, true} {
			for _, withBypass := range []bool{false, true} {
				raw := RawConfig{
					ProxyBook:  map[string][]string{"shadowsocks": {"tcp", "127.0.0.1:9"}, "tor": {"tcp4", "127.0.0.1:9050"}, "legacy": {"unix", "/run/legacy.sock"}},
					RedirAddr:  "127.0.0.1",
					PrivateKey: pv.(*[32]byte)[:],
				}
				if withAdmin {
					raw.AdminUID = adminUID
				}
				if withBypass {
					raw.BypassUID = [][]byte{bypassUID}
				}
				sta, err := InitState(raw, common.WorldState{Rand: vWorld().Rand, Now: rtime.Now})
				if err != nil {
					rep.HarnessError = "InitState: " + err.Error()
					return rep
				}
				n := vnet.New()
				webL := n.Listen("web:443", false)
				proxyL := n.Listen("proxy:9", false)
				_ = proxyL
				d := &vnet.Dialer{N: n}
				redirected := make(chan struct{}, 64)
				go func() {
					for {
						wc, err := webL.Accept()
						if err != nil {
							return
						}
						redirected <- struct{}{}
						go func() {
							// the cover site takes the forwarded bytes and hangs up: the client's handshake fails quickly
							// (hanging up before the server has forwarded anything would leave the client waiting: on a
							// failed forward the dispatcher returns without closing the peer - not this driver's subject)
							b := make([]byte, 4096)
							wc.Read(b)
							wc.Close()
						}()
					}
				}()
				sta.RedirDialer = fixedDialer{d, "web:443"}
				sta.ProxyDialer = fixedDialer{d, "proxy:9"}
				for ui, uid := range [][]byte{zeroUID, unknownUID, bypassUID, adminUID} {
					for _, method := range []string{"shadowsocks", "tor", "legacy", "nothere"} {
						rawc := client.RawConfig{
							ServerName: "example.com", ProxyMethod: method, EncryptionMethod: "plain", UID: uid, PublicKey: ecdh.Marshal(pub),
							NumConn: 1, LocalHost: "127.0.0.1", LocalPort: "1984", RemoteHost: "server", RemotePort: "443",
							BrowserSig: "firefox", Transport: "direct", StreamTimeout: 300,
						}
						_, remote, auth, err := rawc.ProcessRawConfig(common.WorldState{Rand: vWorld().Rand, Now: rtime.Now})
						if err != nil {
							rep.HarnessError = "ProcessRawConfig: " + err.Error()
							return rep
						}
						auth.SessionId = 5
						a, b := n.Pair(fmt.Sprintf("c%d%s", ui, method), false)
						serveConn("srv", b, sta)
						a.SetReadDeadline(rtime.Now().Add(60 * rtime.Second)) // only reached if the server neither answers nor redirects
						t0 := rtime.Now()
						_, herr := remote.Transport.CreateTransport().Handshake(a, auth)
						a.Close()
						if rtime.Since(t0) > 5*rtime.Second {
							rep.Notes = append(rep.Notes, fmt.Sprintf("slow case: admin=%v bypass=%v uid=%d method=%s took %v: %v", withAdmin, withBypass, ui, method, rtime.Since(t0), herr))
						}
						answered := herr == nil
						authorised := (withBypass && ui == 2) || (withAdmin && ui == 3)
						want := authorised && method == "shadowsocks"
						rep.Executions++
						rep.Transitions++
						who := []string{"the all-zero UID", "an unknown UID", "the bypass UID", "the admin UID"}[ui]
						if answered != want {
							rep.Violations = append(rep.Violations, vx.Violation{Clause: "accepted-only-authorised", Sig: vx.Sig(c.Job, "accepted-only-authorised"),
								Msg: fmt.Sprintf("server configured with AdminUID=%v BypassUID=%v, ProxyBook {shadowsocks: tcp, tor: tcp4, legacy: unix}: a client presenting %s and naming proxy method %q was answered as a Cloak client: %v, expected %v (handshake error: %v)", withAdmin, withBypass, who, method, answered, want, herr)})
							rep.Exhaustive = false
							return rep
						}
						rep.Outcomes[fmt.Sprintf("answered=%v", answered)]++
					}
				}
				webL.Close()
			}
		}
		rep.States = rep.Executions
		return rep
	}})
}

// fixedDialer connects to one in-memory address whatever it is asked for.
type fixedDialer struct {
	d    *vnet.Dialer
	addr string
}

func (f fixedDialer) Dial(network, address string) (net.Conn, error) { return f.d.Dial("tcp", f.addr) }
