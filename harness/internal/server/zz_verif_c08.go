//go:build verif

package server

import (
	"bytes"
	"encoding/base64"
	"encoding/binary"
	"errors"
	"fmt"
	"net"

	"github.com/cbeuw/Cloak/internal/common"
	"github.com/cbeuw/Cloak/internal/vnet"
	"github.com/cbeuw/Cloak/internal/vrt"
	"github.com/cbeuw/Cloak/internal/vrt/sync"
	"github.com/cbeuw/Cloak/internal/vrt/time"
	"github.com/cbeuw/Cloak/internal/vx"
	rtime "time"
)

// captureHello runs the real client handshake against a connection nobody answers and returns the
// first packet it sent (the client is then unblocked by closing the connection).
// captureLead: the capturing client's clock runs this far ahead of (or, negative, behind) the server's.
var captureLead time.Duration

func (r *e2eRig) captureHello(uid []byte, sid uint32, browser string) []byte {
	remote, auth := r.clientCfg(uid, sid, "plain", browser, "example.com", 1, false, "shadowsocks")
	if lead := captureLead; lead != 0 {
		auth.WorldState.Now = func() time.Time { return time.Now().Add(lead) }
	}
	n := vnet.New()
	a, b := n.Pair("cap", false)
	done := make(chan struct{})
	run := func() {
		tr := remote.Transport.CreateTransport()
		tr.Handshake(a, auth)
		close(done)
	}
	if vrt.Cur() != nil {
		var wg sync.WaitGroup
		wg.Add(1)
		vrt.Go("capture-client", func() { defer wg.Done(); tr := remote.Transport.CreateTransport(); tr.Handshake(a, auth) })
		buf := make([]byte, 4096)
		k, _ := b.Read(buf)
		first := append([]byte{}, buf[:k]...)
		// the hello is written with one Write; drain in case it was segmented
		for b.Queued() > 0 {
			k, _ = b.Read(buf)
			first = append(first, buf[:k]...)
		}
		b.Close()
		a.Close()
		wg.Wait()
		return first
	}
	go run()
	buf := make([]byte, 4096)
	k, _ := b.Read(buf)
	first := append([]byte{}, buf[:k]...)
	b.Close()
	a.Close()
	<-done
	return first
}

// sealedOf extracts the 96 bytes that carry the authentication (ephemeral key, sealed block) from a
// TLS first packet.
func sealedOf(hello []byte) []byte {
	ch, err := parseClientHello(hello)
	if err != nil {
		panic(err)
	}
	ks, err := parseKeyShare(ch.extensions[[2]byte{0x00, 0x33}])
	if err != nil {
		panic(err)
	}
	return append(append(append([]byte{}, ch.random...), ch.sessionId...), ks...)
}

// asWebSocket re-wraps the sealed material of a captured TLS hello as a WebSocket upgrade request:
// something anyone who saw the hello can do without any key.
func asWebSocket(hello []byte) []byte {
	return []byte("GET / HTTP/1.1\r\nHost: example.com\r\nUpgrade: websocket\r\nConnection: Upgrade\r\nSec-WebSocket-Key: AAAAAAAAAAAAAAAAAAAAAA==\r\nSec-WebSocket-Version: 13\r\nhidden: " +
		base64.StdEncoding.EncodeToString(sealedOf(hello)) + "\r\n\r\n")
}

// asTLS re-wraps 96 sealed bytes into the shape of a ClientHello, using a captured hello as template.
func asTLS(template []byte, sealed []byte) []byte {
	old := sealedOf(template)
	out := append([]byte{}, template...)
	for part := 0; part < 3; part++ {
		i := bytes.Index(out, old[part*32:part*32+32])
		if i < 0 {
			panic("template field not found")
		}
		copy(out[i:], sealed[part*32:part*32+32])
	}
	return out
}

// keyBit255Variant flips the top bit of the ephemeral public key carried in ClientHello.random.
func keyBit255Variant(hello []byte) []byte {
	// record header(5) + handshake header(4) + version(2) = 11; random is the next 32 bytes
	v := append([]byte{}, hello...)
	v[11+31] ^= 0x80
	return v
}

// C08 driver (a): histories. Every step is an explorer choice among: present P1 / present the
// bit-255 variant of P1 / present P2 / let the server clock advance by one of the listed amounts.
// The replay-cache cleaner runs under the virtual clock; the first step chooses its phase.
func init() {
	vx.Register(&vx.Scenario{Name: "replay.history", Prop: "C08", Run: func(c *vx.Ctx) *vx.Report {
		depth := c.PI("depth", 4)
		steps := []time.Duration{time.Second, 179 * time.Second, 181 * time.Second, 359 * time.Second, 361 * time.Second, 12*time.Hour - time.Second, 12 * time.Hour}
		phases := []time.Duration{0, 12*time.Hour - 400*time.Second, 12*time.Hour - 2*time.Second}
		withVariant := c.P("variant", "1") == "1"
		cross := c.P("cross", "0") == "1"
		// lead: the clients' clocks are this many seconds ahead of the server's (within the tolerance), so
		// that their handshakes stay timely - and must stay remembered - for up to tolerance+lead seconds
		captureLead = time.Duration(c.PI("lead", 0)) * time.Second
		defer func() { captureLead = 0 }()
		sc := &vrt.Scenario{
			Opt: vrt.Options{HorizonNs: int64(100 * time.Hour), StepCap: 2000000},
			Main: func() {
				r := newE2ERig(nil, [][]byte{uidOf(0), uidOf(1)}, nil) // no panel: its minute-ly upload loop would dominate 12-hour sleeps
				vrt.Go("cleaner", r.sta.UsedRandomCleaner)
				time.Sleep(phases[vrt.Choose(len(phases), "phase")])
				var pkt [2][]byte // created (with the then-current timestamp) when first presented
				accepted := map[int]int{}
				hist := ""
				present := func(id int, variant bool) {
					if pkt[id] == nil {
						pkt[id] = r.captureHello(uidOf(id), uint32(10+id), "firefox")
					}
					data := pkt[id]
					var tr Transport = TLS{}
					if variant && cross {
						// the same sealed block, presented on the other transport
						data, tr = asWebSocket(data), WebSocket{}
					} else if variant {
						data = keyBit255Variant(data)
					}
					_, _, err := AuthFirstPacket(data, tr, r.sta)
					if err == nil {
						accepted[id]++
						if accepted[id] > 1 {
							vrt.Fail("accepted-at-most-once", "history [%s]: the handshake of client %d was accepted a second time (server time %v after start)", hist, id, time.Duration(vrt.NowNs()))
						}
					} else if !errors.Is(err, ErrReplay) && !errors.Is(err, ErrBadDecryption) {
						vrt.Fail("harness", "unexpected AuthFirstPacket error: %v", err)
					}
				}
				nAlt := 2 + len(steps)
				if withVariant {
					nAlt++
				}
				// excursion=1: one more kind of step - the server's clock is set back by an hour for 30 seconds
				// (whatever is due in that half minute, a clean-up for instance, sees the earlier time) and then
				// corrected again; no handshake is presented while the clock is wrong
				excursion := c.P("excursion", "0") == "1"
				if excursion {
					nAlt++
				}
				for d := 0; d < depth; d++ {
					ch := vrt.Choose(nAlt, "step")
					if excursion && ch == nAlt-1 {
						hist += "clock-1h-for-30s "
						var back time.Duration = time.Hour
						r.sta.WorldState.Now = func() time.Time { return time.Now().Add(-back) }
						time.Sleep(30 * time.Second)
						r.sta.WorldState.Now = time.Now
						continue
					}
					switch {
					case ch == 0:
						hist += "P1 "
						present(0, false)
					case ch == 1:
						hist += "P2 "
						present(1, false)
					case withVariant && ch == 2:
						hist += "P1' "
						present(0, true)
					default:
						i := ch - 2
						if withVariant {
							i--
						}
						hist += fmt.Sprintf("+%v ", steps[i])
						time.Sleep(steps[i])
					}
				}
				vrt.Observe("acc=%d/%d", accepted[0], accepted[1])
			},
		}
		return vx.RunSched(c, sc, nil)
	}})

	// driver (b): N threads present the same packet at once while the cleaner is due at that instant
	vx.Register(&vx.Scenario{Name: "replay.concurrent", Prop: "C08", Run: func(c *vx.Ctx) *vx.Report {
		n := c.PI("threads", 3)
		sc := &vrt.Scenario{
			Opt: vrt.Options{HorizonNs: int64(100 * time.Hour), Delay: c.P("delay", "0") == "1"},
			Main: func() {
				r := newE2ERig(nil, [][]byte{uidOf(0)}, nil)
				vrt.Go("cleaner", r.sta.UsedRandomCleaner)
				if c.P("atcleanup", "0") == "1" {
					time.Sleep(12 * time.Hour)
				}
				hello := r.captureHello(uidOf(0), 5, "firefox")
				variant := keyBit255Variant(hello)
				var wg sync.WaitGroup
				acc := 0
				for i := 0; i < n; i++ {
					i := i
					wg.Add(1)
					vrt.Go(fmt.Sprintf("presenter%d", i), func() {
						defer wg.Done()
						data := hello
						if i == n-1 && c.P("variant", "0") == "1" {
							data = variant
						}
						if _, _, err := AuthFirstPacket(data, TLS{}, r.sta); err == nil {
							acc++
						}
					})
				}
				wg.Wait()
				if acc != 1 {
					vrt.Fail("accepted-at-most-once", "%d simultaneous presentations of one handshake: %d accepted", n, acc)
				}
				vrt.Observe("acc=%d", acc)
			},
		}
		return vx.RunSched(c, sc, nil)
	}})

	// the sealed block of a captured handshake re-wrapped for the other transport, both directions
	vx.Register(&vx.Scenario{Name: "replay.crosstransport", Prop: "C08", Run: func(c *vx.Ctx) *vx.Report {
		rep := &vx.Report{Job: c.Job, Engine: "enum", Outcomes: map[string]int64{}, Exhaustive: true}
		uid := uidOf(0)
		tlsPkt, r := captureFirst(hsCase{Transport: "direct", Browser: "firefox", Method: "plain", ProxyMethod: "shadowsocks", SID: 3, ServerName: "example.com"}, uid)
		wsPkt, _ := captureFirst(hsCase{Transport: "cdn", Browser: "chrome", Method: "plain", ProxyMethod: "shadowsocks", SID: 4, ServerName: "example.com"}, uid)
		template, _ := captureFirst(hsCase{Transport: "direct", Browser: "chrome", Method: "plain", ProxyMethod: "shadowsocks", SID: 5, ServerName: "example.com"}, uid)
		type pres struct {
			name string
			data []byte
			tr   Transport
		}
		// every ordered pair of representations of one sealed block: original packet, re-wrapped for
		// either transport, and each of those with bit 255 of the ephemeral key flipped (the bit X25519
		// ignores, so the server derives the same secret) - anyone who saw the handshake can build them
		wsOf := func(sealed []byte) []byte {
			return []byte("GET / HTTP/1.1\r\nHost: example.com\r\nUpgrade: websocket\r\nConnection: Upgrade\r\nSec-WebSocket-Key: AAAAAAAAAAAAAAAAAAAAAA==\r\nSec-WebSocket-Version: 13\r\nhidden: " +
				base64.StdEncoding.EncodeToString(sealed) + "\r\n\r\n")
		}
		flip := func(sealed []byte) []byte {
			v := append([]byte{}, sealed...)
			v[31] ^= 0x80
			return v
		}
		var cases [][]pres
		for _, src := range []struct {
			name   string
			orig   []byte
			tr     Transport
			sealed []byte
		}{{"tls", tlsPkt, TLS{}, sealedOf(tlsPkt)}, {"websocket", wsPkt, WebSocket{}, hiddenOf(wsPkt)}} {
			reps := []pres{
				{src.name + " original", src.orig, src.tr},
				{"as tls", asTLS(template, src.sealed), TLS{}},
				{"as websocket", wsOf(src.sealed), WebSocket{}},
				{"as tls, key bit 255 flipped", asTLS(template, flip(src.sealed)), TLS{}},
				{"as websocket, key bit 255 flipped", wsOf(flip(src.sealed)), WebSocket{}},
			}
			for _, a := range reps {
				for _, b := range reps {
					cases = append(cases, []pres{a, b})
				}
			}
		}
		for _, seq := range cases {
			sta := &State{StaticPv: r.sta.StaticPv, UsedRandom: map[[32]byte]int64{}, WorldState: common.WorldState{Now: rtime.Now}}
			acc := 0
			var names []string
			for _, p := range seq {
				_, _, err := AuthFirstPacket(p.data, p.tr, sta)
				if err == nil {
					acc++
				}
				names = append(names, fmt.Sprintf("%s:%v", p.name, err == nil))
				rep.Transitions++
			}
			rep.Executions++
			if acc != 1 {
				rep.Violations = append(rep.Violations, vx.Violation{Clause: "accepted-at-most-once", Sig: vx.Sig(c.Job, "accepted-at-most-once"), Msg: fmt.Sprintf("presentations %v: %d accepted, want exactly the first", names, acc)})
				rep.Exhaustive = false
			}
			rep.Outcomes[fmt.Sprint(names)]++
		}
		rep.States = rep.Executions
		rep.Samples = append(rep.Samples, "tls hello re-wrapped as websocket GET and vice versa")
		return rep
	}})

	// replay.flood: the memory of a handshake does not depend on how many other first packets the
	// server has seen since: after `n` other well-formed hellos with fresh randoms (anyone can send
	// them), all inside the acceptance window, the captured handshake is still refused.
	vx.Register(&vx.Scenario{Name: "replay.flood", Prop: "C08", Run: func(c *vx.Ctx) *vx.Report {
		rep := &vx.Report{Job: c.Job, Engine: "enum", Outcomes: map[string]int64{}, Exhaustive: true}
		n := c.PI("n", 70000)
		uid := uidOf(0)
		hello, r := captureFirst(hsCase{Transport: "direct", Browser: "firefox", Method: "plain", ProxyMethod: "shadowsocks", SID: 3, ServerName: "example.com"}, uid)
		t0 := rtime.Now()
		clock := t0
		sta := &State{StaticPv: r.sta.StaticPv, UsedRandom: map[[32]byte]int64{}, WorldState: common.WorldState{Now: func() rtime.Time { return clock }}}
		if _, _, err := AuthFirstPacket(hello, TLS{}, sta); err != nil {
			rep.HarnessError = "the captured handshake is not accepted: " + err.Error()
			return rep
		}
		junk := append([]byte{}, hello...)
		checkpoints := map[int]bool{1: true, 1000: true, 1024: true, 4096: true, 16384: true, 65535: true, 65536: true, 65537: true, n: true}
		for i := 1; i <= n; i++ {
			// a fresh 32-byte random (ClientHello.random starts at offset 11); the sealed block no longer opens
			binary.BigEndian.PutUint64(junk[11:], uint64(i)*0x9e3779b97f4a7c15)
			binary.BigEndian.PutUint64(junk[19:], uint64(i))
			AuthFirstPacket(junk, TLS{}, sta)
			rep.Transitions++
			clock = t0.Add(rtime.Duration(i) * 60 * rtime.Second / rtime.Duration(n)) // one minute in all
			if checkpoints[i] {
				_, _, err := AuthFirstPacket(hello, TLS{}, sta)
				rep.Executions++
				if err == nil {
					rep.Violations = append(rep.Violations, vx.Violation{Clause: "accepted-at-most-once", Sig: vx.Sig(c.Job, "accepted-at-most-once"), Msg: fmt.Sprintf("after %d other first packets within one minute the captured handshake was accepted a second time", i)})
					rep.Exhaustive = false
					break
				}
				rep.Outcomes["refused"]++
			}
		}
		rep.States = rep.Executions
		return rep
	}})

	// replay.afterfault: the first presentation authenticates but the server cannot write its reply
	// (the peer has gone - anyone on the path can cause that); the same bytes presented again are a replay:
	// relayed to the redirect target, never answered.
	vx.Register(&vx.Scenario{Name: "replay.afterfault", Prop: "C08", Run: func(c *vx.Ctx) *vx.Report {
		sc := &vrt.Scenario{
			Opt:      vrt.Options{Delay: true, HorizonNs: int64(100 * time.Second)},
			Classify: deadlockIs("no-deadlock"),
			Main: func() {
				r := newE2ERig(newMemManager(), [][]byte{uidOf(0)}, nil)
				hello := r.captureHello(uidOf(0), 5, c.P("browser", "firefox"))
				r.wrapAccepted = func(i int, cn net.Conn) net.Conn {
					if i == 0 {
						return deafConn{cn}
					}
					return cn
				}
				var webGot []byte
				vrt.Go("web", func() {
					wc, err := r.webL.Accept()
					if err != nil {
						return
					}
					b := make([]byte, 4096)
					for {
						k, err := wc.Read(b)
						webGot = append(webGot, b[:k]...)
						if err != nil {
							return
						}
					}
				})
				r.serve(2)
				c1, _ := r.dialer.Dial("tcp", "server:443")
				c1.Write(hello)
				quiesce()
				c1.Close()
				quiesce()
				c2, _ := r.dialer.Dial("tcp", "server:443")
				c2.Write(hello)
				time.Sleep(20 * time.Second)
				peer := c2.(*vnet.Conn)
				if peer.Queued() > 0 {
					b := make([]byte, 64)
					k, _ := peer.Read(b)
					vrt.Fail("accepted-at-most-once", "the handshake was presented once (the reply could not be written) and then again: the second presentation was answered with %d bytes starting % x", k, b[:min(k, 6)])
				}
				if !bytes.Equal(webGot, hello) {
					vrt.Fail("accepted-at-most-once", "the second presentation of a handshake whose first reply could not be written was not relayed to the redirect target (target received %d of %d bytes)", len(webGot), len(hello))
				}
				vrt.Observe("refused")
			},
		}
		return vx.RunSched(c, sc, nil)
	}})

	vx.RegisterJobs("C08", func(tier string) []vx.Job {
		q := tier == "quick"
		b := func(quick, thorough int) int {
			if q {
				return quick
			}
			return thorough
		}
		jobs := []vx.Job{
			{Scenario: "replay.history", Params: vx.P("depth", fmt.Sprint(b(4, 5))), Bound: 1, Weight: 9},
			{Scenario: "replay.history", Params: vx.P("depth", fmt.Sprint(b(5, 6)), "variant", "0"), Bound: 0, Weight: 9},
			{Scenario: "replay.history", Params: vx.P("depth", fmt.Sprint(b(3, 4)), "cross", "1"), Bound: 0, Weight: 7},
			{Scenario: "replay.history", Params: vx.P("depth", fmt.Sprint(b(4, 5)), "variant", "0", "lead", "170"), Bound: 0, Weight: 8},
			{Scenario: "replay.history", Params: vx.P("depth", fmt.Sprint(b(3, 4)), "lead", "-170"), Bound: 0, Weight: 6},
			{Scenario: "replay.history", Params: vx.P("depth", "3", "variant", "0", "excursion", "1"), Bound: 0, Weight: 4},
			{Scenario: "replay.crosstransport", Weight: 2},
			{Scenario: "replay.flood", Params: vx.P("n", fmt.Sprint(b(70000, 300000))), Weight: 6},
			{Scenario: "replay.afterfault", Params: vx.P("browser", "firefox"), Bound: 1, Weight: 3},
			{Scenario: "replay.afterfault", Params: vx.P("browser", "chrome"), Bound: 1, Weight: 3},
			{Scenario: "replay.concurrent", Params: vx.P("threads", "3"), Bound: -1, Weight: 5},
			{Scenario: "replay.concurrent", Params: vx.P("threads", "2", "crosscheck", "1"), Bound: 3, Weight: 5},
			{Scenario: "replay.concurrent", Params: vx.P("threads", "2", "variant", "1"), Bound: -1, Weight: 5},
			{Scenario: "replay.concurrent", Params: vx.P("threads", "2", "atcleanup", "1"), Bound: b(2, 4), Weight: 5},
			// a replay delivered slowly across a clean-up, through the dispatcher
			{Scenario: "replay.slow", Params: vx.P("lead", "170"), Bound: 0, Weight: 4},
			{Scenario: "replay.slow", Params: vx.P("lead", "179"), Bound: 0, Weight: 4},
			{Scenario: "replay.slow", Params: vx.P("lead", "0"), Bound: 0, Weight: 4},
			// the server program itself (ck-server's main) listening on two ports, one handshake on both at once
			{Scenario: "srvmain.replay", Bound: b(2, 3), Weight: 6},
		}
		for i := range jobs {
			jobs[i].BudgetS = b(100, 900)
		}
		return jobs
	})
}
