//go:build verif

package server

import (
	"errors"
	"fmt"

	"github.com/cbeuw/Cloak/internal/vnet"
	"github.com/cbeuw/Cloak/internal/vrt"
	"github.com/cbeuw/Cloak/internal/vrt/sync"
	"github.com/cbeuw/Cloak/internal/vrt/time"
	"github.com/cbeuw/Cloak/internal/vx"
)

// captureHello runs the real client handshake against a connection nobody answers and returns the
// first packet it sent (the client is then unblocked by closing the connection).
func (r *e2eRig) captureHello(uid []byte, sid uint32, browser string) []byte {
	remote, auth := r.clientCfg(uid, sid, "plain", browser, "example.com", 1, false, "shadowsocks")
	n := vnet.New()
	a, b := n.Pair("cap", false)
	done := make(chan struct{})
	run := func() {
		tr := remote.Transport.CreateTransport()
		tr.Handshake(a, auth)
		close(done)
	}
	if vrt.Cur() != nil {
		var wg sync.WaitGroup
		wg.Add(1)
		vrt.Go("capture-client", func() { defer wg.Done(); tr := remote.Transport.CreateTransport(); tr.Handshake(a, auth) })
		buf := make([]byte, 4096)
		k, _ := b.Read(buf)
		first := append([]byte{}, buf[:k]...)
		// the hello is written with one Write; drain in case it was segmented
		for b.Queued() > 0 {
			k, _ = b.Read(buf)
			first = append(first, buf[:k]...)
		}
		b.Close()
		a.Close()
		wg.Wait()
		return first
	}
	go run()
	buf := make([]byte, 4096)
	k, _ := b.Read(buf)
	first := append([]byte{}, buf[:k]...)
	b.Close()
	a.Close()
	<-done
	return first
}

// keyBit255Variant flips the top bit of the ephemeral public key carried in ClientHello.random.
func keyBit255Variant(hello []byte) []byte {
	// record header(5) + handshake header(4) + version(2) = 11; random is the next 32 bytes
	v := append([]byte{}, hello...)
	v[11+31] ^= 0x80
	return v
}

// C08 driver (a): histories. Every step is an explorer choice among: present P1 / present the
// bit-255 variant of P1 / present P2 / let the server clock advance by one of the listed amounts.
// The replay-cache cleaner runs under the virtual clock; the first step chooses its phase.
func init() {
	vx.Register(&vx.Scenario{Name: "replay.history", Prop: "C08", Run: func(c *vx.Ctx) *vx.Report {
		depth := c.PI("depth", 4)
		steps := []time.Duration{time.Second, 179 * time.Second, 181 * time.Second, 359 * time.Second, 361 * time.Second, 12*time.Hour - time.Second, 12 * time.Hour}
		phases := []time.Duration{0, 12*time.Hour - 400*time.Second, 12*time.Hour - 2*time.Second}
		withVariant := c.P("variant", "1") == "1"
		sc := &vrt.Scenario{
			Opt: vrt.Options{HorizonNs: int64(100 * time.Hour), StepCap: 2000000},
			Main: func() {
				r := newE2ERig(nil, [][]byte{uidOf(0), uidOf(1)}, nil) // no panel: its minute-ly upload loop would dominate 12-hour sleeps
				vrt.Go("cleaner", r.sta.UsedRandomCleaner)
				time.Sleep(phases[vrt.Choose(len(phases), "phase")])
				var pkt [2][]byte // created (with the then-current timestamp) when first presented
				accepted := map[int]int{}
				hist := ""
				present := func(id int, variant bool) {
					if pkt[id] == nil {
						pkt[id] = r.captureHello(uidOf(id), uint32(10+id), "firefox")
					}
					data := pkt[id]
					if variant {
						data = keyBit255Variant(data)
					}
					_, _, err := AuthFirstPacket(data, TLS{}, r.sta)
					if err == nil {
						accepted[id]++
						if accepted[id] > 1 {
							vrt.Fail("accepted-at-most-once", "history [%s]: the handshake of client %d was accepted a second time (server time %v after start)", hist, id, time.Duration(vrt.NowNs()))
						}
					} else if !errors.Is(err, ErrReplay) && !errors.Is(err, ErrBadDecryption) {
						vrt.Fail("harness", "unexpected AuthFirstPacket error: %v", err)
					}
				}
				nAlt := 2 + len(steps)
				if withVariant {
					nAlt++
				}
				for d := 0; d < depth; d++ {
					ch := vrt.Choose(nAlt, "step")
					switch {
					case ch == 0:
						hist += "P1 "
						present(0, false)
					case ch == 1:
						hist += "P2 "
						present(1, false)
					case withVariant && ch == 2:
						hist += "P1' "
						present(0, true)
					default:
						i := ch - 2
						if withVariant {
							i--
						}
						hist += fmt.Sprintf("+%v ", steps[i])
						time.Sleep(steps[i])
					}
				}
				vrt.Observe("acc=%d/%d", accepted[0], accepted[1])
			},
		}
		return vx.RunSched(c, sc, nil)
	}})

	// driver (b): N threads present the same packet at once while the cleaner is due at that instant
	vx.Register(&vx.Scenario{Name: "replay.concurrent", Prop: "C08", Run: func(c *vx.Ctx) *vx.Report {
		n := c.PI("threads", 3)
		sc := &vrt.Scenario{
			Opt: vrt.Options{HorizonNs: int64(100 * time.Hour), Delay: c.P("delay", "0") == "1"},
			Main: func() {
				r := newE2ERig(nil, [][]byte{uidOf(0)}, nil)
				vrt.Go("cleaner", r.sta.UsedRandomCleaner)
				if c.P("atcleanup", "0") == "1" {
					time.Sleep(12 * time.Hour)
				}
				hello := r.captureHello(uidOf(0), 5, "firefox")
				variant := keyBit255Variant(hello)
				var wg sync.WaitGroup
				acc := 0
				for i := 0; i < n; i++ {
					i := i
					wg.Add(1)
					vrt.Go(fmt.Sprintf("presenter%d", i), func() {
						defer wg.Done()
						data := hello
						if i == n-1 && c.P("variant", "0") == "1" {
							data = variant
						}
						if _, _, err := AuthFirstPacket(data, TLS{}, r.sta); err == nil {
							acc++
						}
					})
				}
				wg.Wait()
				if acc != 1 {
					vrt.Fail("accepted-at-most-once", "%d simultaneous presentations of one handshake: %d accepted", n, acc)
				}
				vrt.Observe("acc=%d", acc)
			},
		}
		return vx.RunSched(c, sc, nil)
	}})

	vx.RegisterJobs("C08", func(tier string) []vx.Job {
		q := tier == "quick"
		b := func(quick, thorough int) int {
			if q {
				return quick
			}
			return thorough
		}
		jobs := []vx.Job{
			{Scenario: "replay.history", Params: vx.P("depth", fmt.Sprint(b(4, 5))), Bound: 1, Weight: 9},
			{Scenario: "replay.history", Params: vx.P("depth", fmt.Sprint(b(5, 6)), "variant", "0"), Bound: 0, Weight: 9},
			{Scenario: "replay.concurrent", Params: vx.P("threads", "3"), Bound: -1, Weight: 5},
			{Scenario: "replay.concurrent", Params: vx.P("threads", "2", "variant", "1"), Bound: -1, Weight: 5},
			{Scenario: "replay.concurrent", Params: vx.P("threads", "2", "atcleanup", "1"), Bound: b(2, 4), Weight: 5},
		}
		for i := range jobs {
			jobs[i].BudgetS = b(100, 900)
		}
		return jobs
	})
}
