//go:build verif

package server

import (
	"bufio"
	"fmt"
	"net/http"
	"net/http/httptest"
	rtime "time"

	"github.com/cbeuw/Cloak/internal/client"
	"github.com/cbeuw/Cloak/internal/server/usermanager"
	"github.com/cbeuw/Cloak/internal/vx"
)

// slowManager delays the database's write operations (a contended write lock, a stalled disk) and
// tells when each has finished.
type slowManager struct {
	usermanager.UserManager
	delay rtime.Duration
	done  chan string
}

func (s *slowManager) WriteUserInfo(u usermanager.UserInfo) error {
	rtime.Sleep(s.delay)
	err := s.UserManager.WriteUserInfo(u)
	s.done <- "write"
	return err
}

func (s *slowManager) DeleteUser(uid []byte) error {
	rtime.Sleep(s.delay)
	err := s.UserManager.DeleteUser(uid)
	s.done <- "delete"
	return err
}

// C18 driver: the admin API as an administrator reaches it - through a real admin session (the admin
// UID with session id 0 handshakes with the dispatcher, the HTTP request travels over a stream) - with
// database operations that take 0 or 7 seconds. What the administrator is told agrees with what the
// database holds once the operation has finished: a request answered with an error changed nothing,
// one answered with success did what it said. (Free-running, on the real clock: a slow database is a
// matter of real time for net/http.)
func init() {
	vx.Register(&vx.Scenario{Name: "adminapi.session", Prop: "C18", Run: func(c *vx.Ctx) *vx.Report {
		rep := &vx.Report{Job: c.Job, Engine: "enum", Outcomes: map[string]int64{}, Exhaustive: true}
		admin, target := uidOf(1), uidOf(0)
		for _, delayS := range []int{0, c.PI("slow", 7)} {
			for _, opName := range []string{"create", "delete"} {
				db := freshBoltManagerPlain()
				if opName == "delete" {
					db.WriteUserInfo(usermanager.UserInfo{UID: target, SessionsCap: i32(2)})
				}
				slow := &slowManager{UserManager: db, delay: rtime.Duration(delayS) * rtime.Second, done: make(chan string, 4)}
				r := newE2ERig(slow, nil, admin)
				r.serve(1)
				cs := hsCase{Transport: "direct", Browser: "firefox", Method: "plain", ProxyMethod: "shadowsocks", SID: 0, ServerName: "example.com"}
				remote, auth := r.clientCfgFor(cs, admin)
				auth.SessionId = 0
				remote.NumConn = 1
				sesh := client.MakeSession(remote, auth, r.dialer)
				st, err := sesh.OpenStream()
				if err != nil {
					rep.HarnessError = "OpenStream on the admin session: " + err.Error()
					return rep
				}
				var req string
				if opName == "create" {
					body := c18Body(target, map[string]int64{"SessionsCap": 3, "UpRate": 1000, "DownRate": 1000, "UpCredit": 5, "DownCredit": 5, "ExpiryTime": 99})
					req = fmt.Sprintf("POST /admin/users/%s HTTP/1.1\r\nHost: api\r\nContent-Type: application/json\r\nContent-Length: %d\r\n\r\n%s", b64url(target), len(body), body)
				} else {
					req = fmt.Sprintf("DELETE /admin/users/%s HTTP/1.1\r\nHost: api\r\n\r\n", b64url(target))
				}
				if _, err := st.Write([]byte(req)); err != nil {
					rep.HarnessError = "writing the request: " + err.Error()
					return rep
				}
				resp, err := http.ReadResponse(bufio.NewReader(st), nil)
				if err != nil {
					rep.Violations = append(rep.Violations, vx.Violation{Clause: "api-answers", Sig: vx.Sig(c.Job, "api-answers"), Msg: fmt.Sprintf("%s with a database operation of %d s: no HTTP response over the admin session: %v", opName, delayS, err)})
					rep.Exhaustive = false
					return rep
				}
				select {
				case <-slow.done: // the operation the request started has finished
				case <-rtime.After(120 * rtime.Second):
					// (only reached when the request never got to this server's database at all)
					rep.Violations = append(rep.Violations, vx.Violation{Clause: "api-answers", Sig: vx.Sig(c.Job, "api-reaches-the-database"), Msg: fmt.Sprintf("%s through the admin session was answered %d, but the database of this server was never asked to do it", opName, resp.StatusCode)})
					rep.Exhaustive = false
					return rep
				}
				_, gerr := db.GetUserInfo(target)
				exists := gerr == nil
				success := resp.StatusCode/100 == 2
				did := exists
				if opName == "delete" {
					did = !exists
				}
				rep.Executions++
				rep.Transitions++
				rep.Outcomes[fmt.Sprintf("%s delay=%ds status=%d done=%v", opName, delayS, resp.StatusCode, did)]++
				if success != did {
					rep.Violations = append(rep.Violations, vx.Violation{Clause: "rejected-request-changes-nothing", Sig: vx.Sig(c.Job, "rejected-request-changes-nothing"),
						Msg: fmt.Sprintf("%s of a user through the admin session, the database operation taking %d s: the administrator was answered %d, and afterwards the user exists=%v", opName, delayS, resp.StatusCode, exists)})
					rep.Exhaustive = false
				}
				// the API is reachable through the admin session only: nothing has been published on the process-wide
				// default HTTP mux (which a debug listener, for one, would serve to anybody)
				drec := httptest.NewRecorder()
				http.DefaultServeMux.ServeHTTP(drec, httptest.NewRequest("GET", "/admin/users", nil))
				if drec.Code != 404 {
					rep.Violations = append(rep.Violations, vx.Violation{Clause: "api-only-through-admin-session", Sig: vx.Sig(c.Job, "api-only-through-admin-session"),
						Msg: fmt.Sprintf("after an admin session was served, GET /admin/users on http.DefaultServeMux (no Cloak handshake at all) answers %d: %.80q", drec.Code, drec.Body.String())})
					rep.Exhaustive = false
				}
				sesh.Close()
				db.Close()
			}
		}
		rep.States = rep.Executions
		return rep
	}})
}
