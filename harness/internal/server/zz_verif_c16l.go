//go:build verif

package server

import (
	"errors"
	"fmt"

	mux "github.com/cbeuw/Cloak/internal/multiplex"
	"github.com/cbeuw/Cloak/internal/server/usermanager"
	"github.com/cbeuw/Cloak/internal/vnet"
	"github.com/cbeuw/Cloak/internal/vrt"
	"github.com/cbeuw/Cloak/internal/vrt/sync"
	"github.com/cbeuw/Cloak/internal/vrt/time"
	"github.com/cbeuw/Cloak/internal/vx"
)

// faultyManager: the `at`-th UploadStatus call takes `slow` (virtual) time or fails; every other call is
// passed on.
type faultyManager struct {
	usermanager.UserManager
	calls  int
	at     int
	slow   time.Duration
	fail   bool
	lostUp map[[16]byte]int64
}

func (f *faultyManager) UploadStatus(s []usermanager.StatusUpdate) ([]usermanager.StatusResponse, error) {
	f.calls++
	if f.calls == f.at {
		if f.slow > 0 {
			time.Sleep(f.slow)
		}
		if f.fail {
			// what this call reported is lost with it (the panel does not retry a failed upload; a failing
			// user database is outside what the property quantifies over) - the oracle accounts for it
			for _, st := range s {
				f.lostUp[arr16(st.UID)] += st.UpUsage
			}
			return nil, errors.New("injected: the user database is unavailable")
		}
	}
	return f.UserManager.UploadStatus(s)
}

// C16/C17 driver over the panel's own periodic loop (regularQueueUpload on the virtual clock): one
// upload round is slow (longer than the interval) or fails; traffic keeps flowing. Accounting goes on:
// some intervals later everything carried so far has been charged, and a user whose credit the charged
// volume exceeds has been cut off.
func init() {
	vx.Register(&vx.Scenario{Name: "panel.loop", Prop: "C16", Run: func(c *vx.Ctx) *vx.Report {
		fault := c.P("fault", "slow")
		sc := &vrt.Scenario{
			Opt:      vrt.Options{Delay: true, HorizonNs: int64(3600 * time.Second)},
			Classify: deadlockIs("no-deadlock"),
			Main: func() {
				mm := newMemManager()
				mm.add(uidOf(0), memUser{upRate: 1 << 40, downRate: 1 << 40, upCredit: 1000000, downCredit: 1000000, expiry: 1 << 40, cap: 10})
				mm.add(uidOf(1), memUser{upRate: 1 << 40, downRate: 1 << 40, upCredit: 500, downCredit: 1000000, expiry: 1 << 40, cap: 10})
				fm := &faultyManager{UserManager: mm, at: c.PI("at", 1), lostUp: map[[16]byte]int64{}}
				switch fault {
				case "slow":
					fm.slow = 150 * time.Second // two and a half intervals
				case "error":
					fm.fail = true
				case "slow-error":
					fm.slow, fm.fail = 150*time.Second, true
				}
				panel := MakeUserPanel(fm) // starts the periodic loop (one round a minute)
				net := vnet.New()
				type wired struct {
					srv, cli *mux.Session
				}
				var ws []wired
				for u := 0; u < 2; u++ {
					user, err := panel.GetUser(uidOf(u))
					if err != nil {
						vrt.Fail("harness", "GetUser: %v", err)
					}
					srv, _, err := user.GetSession(1, plainSeshConfig())
					if err != nil {
						vrt.Fail("harness", "GetSession: %v", err)
					}
					cli := mux.MakeSession(1, plainSeshConfig())
					a, b := net.Pair(fmt.Sprintf("u%ds1", u), true)
					srv.AddConnection(b)
					cli.AddConnection(a)
					ws = append(ws, wired{srv, cli})
				}
				vol := func(u int) (up int64) {
					for _, t := range net.Tap {
						var uu, s int
						fmt.Sscanf(t.Conn, "u%ds%d", &uu, &s)
						if uu == u && t.Dir == "a>b" {
							up += int64(len(t.Data))
						}
					}
					return
				}
				st0, _ := ws[0].cli.OpenStream()
				st1, _ := ws[1].cli.OpenStream()
				// traffic in every interval for six minutes; user 1 exceeds its 500 bytes of credit in the third
				for k := 0; k < 6; k++ {
					st0.Write(make([]byte, 100))
					if !ws[1].cli.IsClosed() {
						st1.Write(make([]byte, 100))
					}
					time.Sleep(60 * time.Second)
				}
				carried0 := vol(0)
				time.Sleep(5 * 60 * time.Second) // five more rounds with nothing new
				u0 := mm.users[arr16(uidOf(0))]
				if got, lost := 1000000-u0.upCredit, fm.lostUp[arr16(uidOf(0))]; got != carried0-lost {
					vrt.Fail("charged-exactly-once", "upload round %d was %s; five idle rounds after the traffic stopped user 0 has been charged %d bytes of upload, %d were carried (%d of them reported by the failed call; manager saw %d upload calls)", fm.at, fault, got, carried0, lost, fm.calls)
				}
				u1 := mm.users[arr16(uidOf(1))]
				if u1.upCredit <= 0 && !ws[1].srv.IsClosed() {
					vrt.Fail("exhausted-users-cut-off", "upload round %d was %s; user 1's stored credit is %d, yet its session is still live %d rounds later", fm.at, fault, u1.upCredit, fm.calls)
				}
				if u1.upCredit > 0 && vol(1)-fm.lostUp[arr16(uidOf(1))] >= 500 {
					vrt.Fail("charged-exactly-once", "upload round %d was %s; user 1 sent more than its credit of 500 bytes (%d on the wire) but the stored credit is still %d", fm.at, fault, vol(1), u1.upCredit)
				}
				vrt.Observe("calls=%d", fm.calls)
			},
		}
		return vx.RunSched(c, sc, nil)
	}})
}

// C07 driver: "a UID the server currently authorises" - once an administrator's change (credit to 0,
// expiry in the past, deletion) has been committed, no later first connection of that UID is treated
// as a client, however the change overlapped earlier lookups of the same user.
func init() {
	vx.Register(&vx.Scenario{Name: "panel.staleauth", Prop: "C07", Run: func(c *vx.Ctx) *vx.Report {
		change := c.P("change", "credit0")
		sc := &vrt.Scenario{
			Opt:      vrt.Options{Delay: c.P("delay", "0") == "1", HorizonNs: int64(100 * time.Second)},
			Classify: deadlockIs("no-deadlock"),
			Main: func() {
				base := freshBoltManager()
				mgr := newEvManager(base)
				now := time.Now().Unix()
				base.WriteUserInfo(usermanager.UserInfo{UID: uidOf(0), SessionsCap: i32(5), UpRate: i64(1 << 30), DownRate: i64(1 << 30), UpCredit: i64(1000), DownCredit: i64(1000), ExpiryTime: i64(now + 86400)})
				panel := &userPanel{Manager: mgr, activeUsers: map[[16]byte]*ActiveUser{}, usageUpdateQueue: map[[16]byte]*usagePair{}}
				admit := func(sid uint32) (*ActiveUser, error) {
					user, err := panel.GetUser(uidOf(0))
					if err != nil {
						return nil, err
					}
					if _, _, err := user.GetSession(sid, plainSeshConfig()); err != nil {
						user.CloseSession(sid, "")
						return nil, err
					}
					return user, nil
				}
				var wg sync.WaitGroup
				var first *ActiveUser
				wg.Add(2)
				vrt.Go("earlier-connection", func() {
					defer wg.Done()
					first, _ = admit(1)
				})
				vrt.Go("admin", func() {
					defer wg.Done()
					switch change {
					case "credit0":
						mgr.WriteUserInfo(usermanager.UserInfo{UID: uidOf(0), UpCredit: i64(0)})
					case "expire":
						mgr.WriteUserInfo(usermanager.UserInfo{UID: uidOf(0), ExpiryTime: i64(now - 10)})
					case "delete":
						mgr.DeleteUser(uidOf(0))
					}
				})
				wg.Wait()
				if first != nil {
					first.CloseSession(1, "") // the earlier connection goes away: the user is no longer active
				}
				if _, err := admit(2); err == nil {
					vrt.Fail("only-authorised-clients-answered", "the administrator's change (%s) was committed before this connection arrived, and the user had no session left: it was admitted all the same", change)
				}
				vrt.Observe("first=%v", first != nil)
			},
		}
		return vx.RunSched(c, sc, nil)
	}})
}
