//go:build verif

package server

import (
	"bytes"
	"encoding/binary"
	"fmt"
	"net"
	"sort"
	rtime "time"

	"github.com/cbeuw/Cloak/internal/client"
	"github.com/cbeuw/Cloak/internal/common"
	mux "github.com/cbeuw/Cloak/internal/multiplex"
	"github.com/cbeuw/Cloak/internal/vx"
)

// C14 driver (d): the client's UDP front end. client.RouteUDP needs a real *net.UDPConn, so this
// driver runs free on loopback sockets: several local applications (distinct source ports) send
// datagrams through RouteUDP -> unordered session -> dispatcher -> a datagram proxy that answers
// every query once it has heard from all applications. Enumeration is over configurations and
// send orders; the oracle (who received what) does not depend on the schedule.
func init() {
	vx.Register(&vx.Scenario{Name: "udp.route", Prop: "C14", Run: func(c *vx.Ctx) *vx.Report {
		rep := &vx.Report{Job: c.Job, Engine: "enum", Outcomes: map[string]int64{}, Exhaustive: true}
		type cfg struct {
			singleplex bool
			method     string
			apps       int
			sizes      []int
			order      string // "round-robin" | "blocks" | "reverse"
		}
		var cfgs []cfg
		for _, sp := range []bool{false, true} {
			for _, m := range []string{"plain", "aes-256-gcm", "chacha20-poly1305", "aes-128-gcm"} {
				for _, apps := range []int{1, 2, 3} {
					for _, order := range []string{"round-robin", "blocks", "reverse"} {
						if apps == 1 && order != "blocks" {
							continue
						}
						cfgs = append(cfgs, cfg{sp, m, apps, []int{1, 700, 8000}, order})
					}
				}
			}
		}
		// sameport=1: the applications are different loopback hosts that use the same source port
		udpSamePort = c.P("sameport", "0") == "1"
		defer func() { udpSamePort = false }()
		if udpSamePort {
			var two []cfg
			for _, cf := range cfgs {
				if cf.apps >= 2 && (cf.method == "plain" || cf.method == "aes-256-gcm") {
					two = append(two, cf)
				}
			}
			cfgs = two
		}
		// anslens=<list>: the datagram service answers with datagrams of these sizes (up to the largest the
		// server's relay can carry in one frame), one query per configuration
		if al := c.P("anslens", ""); al != "" {
			var big []cfg
			for _, cf := range cfgs {
				if cf.apps == 1 {
					for _, n := range parseIntsC(al) {
						cf := cf
						cf.sizes = []int{1}
						cf.order = fmt.Sprint(n)
						big = append(big, cf)
					}
				}
			}
			cfgs = big
		}
		defer func() { udpAnswerLen = 0 }()
		// burst=1: several datagrams pending at once (with the session id's low bit forced either way, and
		// for the admin UID used as an ordinary proxy user): one application, three queries per configuration
		if c.P("burst", "0") == "1" {
			udpBurst = true
			fmt.Sscan(c.P("sidlow", "0"), &udpSIDLow)
			udpAdmin = c.P("admin", "0") == "1"
			defer func() { udpBurst, udpSIDLow, udpAdmin = false, 0, false }()
			var one []cfg
			for _, cf := range cfgs {
				if cf.apps == 1 && (cf.method == "plain" || cf.method == "aes-256-gcm") {
					cf.sizes = []int{100, 200, 300}
					one = append(one, cf)
				}
			}
			cfgs = one
		}
		for _, cf := range cfgs {
			udpAnswerLen = 0
			if c.P("anslens", "") != "" {
				fmt.Sscan(cf.order, &udpAnswerLen)
				cf.order = "blocks"
			}
			msg := udpRouteOne(cf.singleplex, cf.method, cf.apps, cf.sizes, cf.order)
			if udpAnswerLen > 0 {
				cf.order = fmt.Sprintf("answer of %d bytes", udpAnswerLen)
			}
			rep.Executions++
			rep.Transitions += int64(cf.apps * len(cf.sizes) * 2)
			if msg != "" {
				rep.Violations = append(rep.Violations, vx.Violation{Clause: "datagram-isolation", Sig: vx.Sig(c.Job, "datagram-isolation"), Msg: fmt.Sprintf("%+v: %s", cf, msg), Case: fmt.Sprintf("%+v", cf)})
				rep.Exhaustive = false
				rep.CapHit = "stopped at first violation"
				break
			}
			rep.Outcomes[fmt.Sprintf("singleplex=%v apps=%d ok", cf.singleplex, cf.apps)]++
			if len(rep.Samples) < 2 {
				rep.Samples = append(rep.Samples, fmt.Sprintf("%+v", cf))
			}
		}
		rep.States = rep.Executions
		return rep
	}})
}

// udpBurst: every query of an application is sent back-to-back while the datagram service has not yet
// accepted the server's connection, so that several datagrams are pending on the server's stream at once.
// udpSIDLow: if 1 or 2, the session id's low bit is forced to 0 / 1. udpAdmin: the user is the server's AdminUID
// (used as an ordinary proxy user, session id != 0).
var (
	udpBurst  bool
	udpSIDLow int
	udpAdmin  bool
)

// udpAnswerLen > 0: the datagram service pads its answers to this many bytes.
var udpAnswerLen int

func udpAnswer(q []byte) []byte {
	a := append([]byte("ans:"), q...)
	for j := len(a); j < udpAnswerLen; j++ {
		a = append(a, byte(j*7+3))
	}
	return a
}

func udpRouteOne(singleplex bool, method string, apps int, sizes []int, order string) string {
	m, _ := udpRouteRun(singleplex, method, apps, sizes, order, false)
	return m
}

// udpRouteRun: with emptyAnswers the datagram service sends an empty datagram before each answer
// (legal UDP) and only the wire is of interest - the caller inspects the returned rig's tap.
// udpSamePort: applications 1.. send from 127.0.0.(1+i) with application 0's source port (sources
// that differ in address only).
var udpSamePort bool

func udpRouteRun(singleplex bool, method string, apps int, sizes []int, order string, emptyAnswers bool) (string, *e2eRig) {
	uid := uidOf(0)
	var admin []byte
	if udpAdmin {
		admin = uid
	}
	r := newE2ERig(nil, nil, admin)
	r.sta.Panel = MakeUserPanel(newMemManager())
	r.sta.BypassUID[arr16(uid)] = struct{}{}
	r.sta.WorldState = common.WorldState{Rand: vWorld().Rand, Now: rtime.Now}
	// the proxy behind the method is a datagram service: one Write = one Read
	udpProxy := r.net.Listen("udpproxy:53", true)
	r.sta.ProxyBook = map[string]net.Addr{"dns": tcpAddr{"udpproxy:53"}}
	r.serve(64)
	total := apps * len(sizes)
	heard := make(chan struct{}, 1024)
	release := make(chan struct{})
	allSent := make(chan struct{})
	go func() {
		for {
			if udpBurst {
				<-allSent                            // the service is slow to take the server's connection ...
				rtime.Sleep(300 * rtime.Millisecond) // ... and the queries have had time to reach the server
			}
			pc, err := udpProxy.Accept()
			if err != nil {
				return
			}
			go func() {
				b := make([]byte, 20000)
				for {
					k, err := pc.Read(b)
					if err != nil {
						return
					}
					q := append([]byte{}, b[:k]...)
					heard <- struct{}{}
					go func() {
						<-release // answer only after every application has sent everything
						if emptyAnswers {
							pc.Write([]byte{})
						}
						pc.Write(udpAnswer(q))
					}()
				}
			}()
		}
	}()
	cs := hsCase{Transport: "direct", Browser: "firefox", Method: method, ProxyMethod: "dns", SID: 1, ServerName: "example.com", Unordered: true}
	remote, auth := r.clientCfgFor(cs, uid)
	auth.WorldState = common.WorldState{Rand: vWorld().Rand, Now: rtime.Now}
	remote.NumConn = 2
	remote.Singleplex = singleplex
	if singleplex {
		remote.NumConn = 1
	}
	seshMaker := func() *mux.Session {
		a := auth
		quad := make([]byte, 4)
		common.RandRead(a.WorldState.Rand, quad)
		a.SessionId = binary.BigEndian.Uint32(quad)
		switch udpSIDLow {
		case 1:
			a.SessionId &^= 1
		case 2:
			a.SessionId |= 1
		}
		if a.SessionId == 0 {
			a.SessionId = 2
		}
		return client.MakeSession(remote, a, r.dialer)
	}
	front, err := net.ListenUDP("udp", &net.UDPAddr{IP: net.IPv4(127, 0, 0, 1)})
	if err != nil {
		return "cannot open a loopback UDP socket: " + err.Error(), r
	}
	go client.RouteUDP(func() (*net.UDPConn, error) { return front, nil }, 300*rtime.Second, singleplex, seshMaker)
	socks := make([]*net.UDPConn, apps)
	for i := range socks {
		var laddr *net.UDPAddr
		if udpSamePort && i > 0 {
			// another host of the loopback network using the same source port as application 0
			laddr = &net.UDPAddr{IP: net.IPv4(127, 0, 0, byte(1+i)), Port: socks[0].LocalAddr().(*net.UDPAddr).Port}
		}
		s, err := net.DialUDP("udp", laddr, front.LocalAddr().(*net.UDPAddr))
		if err != nil {
			return err.Error(), r
		}
		defer s.Close()
		socks[i] = s
	}
	query := func(app, k int) []byte {
		b := make([]byte, sizes[k])
		for j := range b {
			b[j] = byte(app*80 + k*20 + j%17)
		}
		b[0] = byte(app<<4 | k)
		return b
	}
	type send struct{ app, k int }
	var plan []send
	switch order {
	case "round-robin":
		for k := range sizes {
			for a := 0; a < apps; a++ {
				plan = append(plan, send{a, k})
			}
		}
	case "blocks":
		for a := 0; a < apps; a++ {
			for k := range sizes {
				plan = append(plan, send{a, k})
			}
		}
	case "reverse":
		for a := apps - 1; a >= 0; a-- {
			for k := range sizes {
				plan = append(plan, send{a, k})
			}
		}
	}
	for _, s := range plan {
		if _, err := socks[s.app].Write(query(s.app, s.k)); err != nil {
			return "send: " + err.Error(), r
		}
		if udpBurst {
			continue
		}
		// one at a time, so that the order at RouteUDP is the planned one
		select {
		case <-heard:
		case <-rtime.After(30 * rtime.Second):
			return fmt.Sprintf("query %d of application %d never reached the datagram proxy", s.k, s.app), r
		}
	}
	close(allSent)
	if udpBurst {
		for range plan {
			select {
			case <-heard:
			case <-rtime.After(30 * rtime.Second):
				return fmt.Sprintf("of a burst of %d queries only some reached the datagram proxy as datagrams of their own", len(plan)), r
			}
		}
	}
	close(release)
	if emptyAnswers {
		rtime.Sleep(500 * rtime.Millisecond) // let whatever the server sends reach the tap; delivery is not judged here
		return "", r
	}
	for a := 0; a < apps; a++ {
		var got [][]byte
		buf := make([]byte, 20000)
		for len(got) < len(sizes) {
			socks[a].SetReadDeadline(rtime.Now().Add(30 * rtime.Second))
			k, err := socks[a].Read(buf)
			if err != nil {
				return fmt.Sprintf("application %d received %d of %d answers (%v)", a, len(got), len(sizes), err), r
			}
			got = append(got, append([]byte{}, buf[:k]...))
		}
		// nothing more may arrive for this application
		socks[a].SetReadDeadline(rtime.Now().Add(300 * rtime.Millisecond))
		if k, err := socks[a].Read(buf); err == nil {
			return fmt.Sprintf("application %d received an extra datagram of %d bytes starting % x", a, k, buf[:min(k, 8)]), r
		}
		var want [][]byte
		for k := range sizes {
			want = append(want, udpAnswer(query(a, k)))
		}
		sort.Slice(got, func(i, j int) bool { return bytes.Compare(got[i], got[j]) < 0 })
		sort.Slice(want, func(i, j int) bool { return bytes.Compare(want[i], want[j]) < 0 })
		for k := range want {
			if !bytes.Equal(got[k], want[k]) {
				return fmt.Sprintf("application %d received a datagram of %d bytes starting % x that is not an answer to one of its own queries", a, len(got[k]), got[k][:min(len(got[k]), 8)]), r
			}
		}
	}
	_ = total
	return "", r
}
