//go:build verif

package server

import (
	"fmt"
	"os"
	"strings"

	"github.com/cbeuw/Cloak/internal/common"
	mux "github.com/cbeuw/Cloak/internal/multiplex"
	"github.com/cbeuw/Cloak/internal/server/usermanager"
	"github.com/cbeuw/Cloak/internal/vnet"
	"github.com/cbeuw/Cloak/internal/vrt"
	"github.com/cbeuw/Cloak/internal/vrt/crand"
	"github.com/cbeuw/Cloak/internal/vrt/sync"
	"github.com/cbeuw/Cloak/internal/vrt/time"
	"github.com/cbeuw/Cloak/internal/vx"
)

type closer interface{ Close() error }

var staleDBs []closer
var stalePaths []string
var dbCounter int

// freshBoltManager opens a new bbolt user database on /dev/shm for this execution and cleans up
// what earlier executions left behind (an aborted execution cannot close its own).
func freshBoltManager() usermanager.UserManager {
	for _, c := range staleDBs {
		c.Close()
	}
	for _, p := range stalePaths {
		os.Remove(p)
	}
	staleDBs, stalePaths = nil, nil
	dbCounter++
	path := fmt.Sprintf("/dev/shm/vx-%d-%d.db", os.Getpid(), dbCounter)
	os.Remove(path)
	m, err := usermanager.MakeLocalManager(path, common.WorldState{Rand: rand.Reader, Now: time.Now})
	if err != nil {
		panic(err)
	}
	staleDBs = append(staleDBs, m)
	stalePaths = append(stalePaths, path)
	return m
}

func i64(v int64) *int64 { return &v }
func i32(v int32) *int32 { return &v }

// C16 driver: traffic on the sessions of limited users, usage-upload rounds, session closure and
// admin changes in any overlap; the harness network's tap is the ground truth for volume.
//
// params: sessions = comma list of <u>.<s> admitted by main (each wired to a client-side peer);
// ops = comma list of threads: up<u>.<s>:<n> (client writes n bytes), down<u>.<s>:<n> (server writes
// n bytes), round, close<u>.<s>, topup<u>, delete<u>, expire<u>; upcredit/downcredit = initial credits.
func init() {
	vx.Register(&vx.Scenario{Name: "panel.usage", Prop: "C16", Run: func(c *vx.Ctx) *vx.Report {
		seshSpecs := splitNE(c.P("sessions", "0.1"))
		ops := splitNE(c.P("ops", "up0.1:10,round"))
		upCredit, downCredit := int64(c.PI("upcredit", 1000000)), int64(c.PI("downcredit", 1000000))
		db := c.P("db", "mem")
		sequential := c.P("seq", "0") == "1" // ops run one after the other with quiescence in between
		sc := &vrt.Scenario{
			Opt:      vrt.Options{HorizonNs: int64(20 * time.Second), Delay: c.P("delay", "0") == "1"},
			Classify: deadlockIs("no-deadlock"),
			Main: func() {
				var base usermanager.UserManager
				var mm *memManager
				if db == "bolt" {
					base = freshBoltManager()
				} else {
					mm = newMemManager()
					base = mm
				}
				mgr := newEvManager(base)
				const farFuture = int64(1) << 40
				for u := 0; u < 2; u++ {
					if mm != nil {
						mm.add(uidOf(u), memUser{upRate: 1 << 40, downRate: 1 << 40, upCredit: upCredit, downCredit: downCredit, expiry: farFuture, cap: 10})
					} else {
						err := base.WriteUserInfo(usermanager.UserInfo{UID: uidOf(u), SessionsCap: i32(10), UpRate: i64(1 << 40), DownRate: i64(1 << 40), UpCredit: i64(upCredit), DownCredit: i64(downCredit), ExpiryTime: i64(farFuture)})
						if err != nil {
							panic(err)
						}
					}
				}
				credits := func(u int) (int64, int64, bool) {
					if mm != nil {
						mu := mm.users[arr16(uidOf(u))]
						if mu == nil {
							return 0, 0, false
						}
						return mu.upCredit, mu.downCredit, true
					}
					info, err := base.GetUserInfo(uidOf(u))
					if err != nil {
						return 0, 0, false
					}
					return *info.UpCredit, *info.DownCredit, true
				}
				panel := MakeUserPanel(mgr)
				net := vnet.New()
				tlsConns := c.P("tls", "0") == "1"
				// the volume a tapped write carried for the limiter: with the record layer, without its 5-byte header
				vol := func(t vnet.TapRec) int64 {
					if tlsConns {
						if len(t.Data) < 5 {
							return 0
						}
						return int64(len(t.Data) - 5)
					}
					return int64(len(t.Data))
				}
				type wired struct {
					u        int
					s        uint32
					srv, cli *mux.Session
					rec      *ActiveUser
					srvEnd   *vnet.Conn
				}
				ws := map[string]*wired{}
				// admit: what a new connection does (GetUser, GetSession, attach); returns false when refused
				admit := func(sp string, must bool) bool {
					var u, s int
					fmt.Sscanf(sp, "%d.%d", &u, &s)
					user, err := panel.GetUser(uidOf(u))
					if err != nil {
						if must {
							vrt.Fail("harness", "GetUser: %v", err)
						}
						return false
					}
					srv, _, err := user.GetSession(uint32(s), plainSeshConfig())
					if err != nil {
						if must {
							vrt.Fail("harness", "GetSession: %v", err)
						}
						user.CloseSession(uint32(s), "")
						return false
					}
					cli := mux.MakeSession(uint32(s), plainSeshConfig())
					if tlsConns {
						// through the record layer, as every non-CDN connection is (its Write reports payload bytes)
						a, b := net.Pair(fmt.Sprintf("u%ds%d", u, s), false)
						srv.AddConnection(common.NewTLSConn(b))
						cli.AddConnection(common.NewTLSConn(a))
						ws[sp] = &wired{u, uint32(s), srv, cli, user, b}
						return true
					}
					a, b := net.Pair(fmt.Sprintf("u%ds%d", u, s), true)
					srv.AddConnection(b)
					cli.AddConnection(a)
					ws[sp] = &wired{u, uint32(s), srv, cli, user, b}
					return true
				}
				for _, sp := range seshSpecs {
					admit(sp, true)
				}
				var wg sync.WaitGroup
				deleted, expired, topped := map[int]bool{}, map[int]bool{}, map[int]int64{}
				closedByTest := map[string]bool{}
				closedByFault := map[string]bool{}
				// sequential histories of traffic and rounds only: what had crossed the wire when a round began
				// (with the user still active) is what that round must have charged in all
				tapVol := func() (map[int]int64, map[int]int64) {
					up, down := map[int]int64{}, map[int]int64{}
					for _, t := range net.Tap {
						var u, s int
						fmt.Sscanf(t.Conn, "u%ds%d", &u, &s)
						if t.Dir == "a>b" {
							up[u] += vol(t)
						} else {
							down[u] += vol(t)
						}
					}
					return up, down
				}
				snapUp, snapDown := map[int]int64{}, map[int]int64{}
				snapshot := func() {
					up, down := tapVol()
					for u := 0; u < 2; u++ {
						if panel.activeUsers[arr16(uidOf(u))] != nil {
							snapUp[u], snapDown[u] = up[u], down[u]
						}
					}
				}
				trafficOnly := sequential
				for _, op := range ops {
					if !(op == "round" || strings.HasPrefix(op, "up") || strings.HasPrefix(op, "down") || strings.HasPrefix(op, "zero")) {
						trafficOnly = false
					}
				}
				for i, op := range ops {
					op := op
					if sequential && i > 0 {
						wg.Wait()
						quiesce()
					}
					wg.Add(1)
					vrt.Go(fmt.Sprintf("t%d:%s", i, op), func() {
						defer wg.Done()
						var u, s, n int
						switch {
						case op == "round":
							if trafficOnly {
								snapshot()
							}
							panel.updateUsageQueue()
							panel.commitUpdate()
						case strings.HasPrefix(op, "admit"):
							var sp string
							fmt.Sscanf(op, "admit%s", &sp)
							admit(sp, false)
						case strings.HasPrefix(op, "up"):
							fmt.Sscanf(op, "up%d.%d:%d", &u, &s, &n)
							w := ws[fmt.Sprintf("%d.%d", u, s)]
							st, err := w.cli.OpenStream()
							if err != nil {
								return
							}
							st.Write(make([]byte, n))
						case strings.HasPrefix(op, "downfail"):
							// the server's next write on this session's connection fails with nothing sent (the peer
							// has gone): no volume was carried
							fmt.Sscanf(op, "downfail%d.%d:%d", &u, &s, &n)
							w := ws[fmt.Sprintf("%d.%d", u, s)]
							closedByFault[fmt.Sprintf("%d.%d", u, s)] = true // the failed write tears this session down
							w.srvEnd.PartialAt, w.srvEnd.PartialKeep = 1, 0
							if st, err := w.srv.OpenStream(); err == nil {
								st.Write(make([]byte, n))
							}
						case strings.HasPrefix(op, "down"):
							fmt.Sscanf(op, "down%d.%d:%d", &u, &s, &n)
							w := ws[fmt.Sprintf("%d.%d", u, s)]
							st, err := w.srv.OpenStream()
							if err != nil {
								return
							}
							st.Write(make([]byte, n))
						case strings.HasPrefix(op, "cap"):
							// an administrator's partial update that leaves the user entitled: only SessionsCap is written
							fmt.Sscanf(op, "cap%d", &u)
							if mm != nil {
								mgr.pt(true, "db.WriteUserInfo")
								mm.users[arr16(uidOf(u))].cap = 7
							} else {
								mgr.WriteUserInfo(usermanager.UserInfo{UID: uidOf(u), SessionsCap: i32(7)})
							}
						case strings.HasPrefix(op, "drop"):
							// the client ends this session from its side: the server's session is closed by the
							// notice but stays in the user's table (nothing in this driver reaps it), so a later
							// termination meets a session whose Close reports an error
							fmt.Sscanf(op, "drop%d.%d", &u, &s)
							ws[fmt.Sprintf("%d.%d", u, s)].cli.Close()
						case strings.HasPrefix(op, "close"):
							fmt.Sscanf(op, "close%d.%d", &u, &s)
							sp := fmt.Sprintf("%d.%d", u, s)
							closedByTest[sp] = true
							ws[sp].rec.CloseSession(uint32(s), "")
						case strings.HasPrefix(op, "topup"):
							fmt.Sscanf(op, "topup%d", &u)
							// an administrator sets the credit to a fresh allowance
							topped[u] = 5000000
							if mm != nil {
								mgr.pt(true, "db.WriteUserInfo")
								mm.users[arr16(uidOf(u))].upCredit = 5000000
							} else {
								mgr.WriteUserInfo(usermanager.UserInfo{UID: uidOf(u), UpCredit: i64(5000000)})
							}
						case strings.HasPrefix(op, "zeroup"), strings.HasPrefix(op, "zerodown"):
							// an administrator sets the credit to exactly what has been carried so far and not yet
							// charged: the next round brings it to exactly zero (sequential histories only)
							up, down := tapVol()
							if strings.HasPrefix(op, "zeroup") {
								fmt.Sscanf(op, "zeroup%d", &u)
								upCredit = up[u]
								if mm != nil {
									mm.users[arr16(uidOf(u))].upCredit = up[u]
								} else {
									mgr.WriteUserInfo(usermanager.UserInfo{UID: uidOf(u), UpCredit: i64(up[u])})
								}
							} else {
								fmt.Sscanf(op, "zerodown%d", &u)
								downCredit = down[u]
								if mm != nil {
									mm.users[arr16(uidOf(u))].downCredit = down[u]
								} else {
									mgr.WriteUserInfo(usermanager.UserInfo{UID: uidOf(u), DownCredit: i64(down[u])})
								}
							}
						case strings.HasPrefix(op, "delete"):
							fmt.Sscanf(op, "delete%d", &u)
							deleted[u] = true
							mgr.DeleteUser(uidOf(u))
						case strings.HasPrefix(op, "expire"):
							// expire<u>: the expiry date becomes 1 (one second into 1970); expirezero<u>: it becomes 0
							at := int64(1)
							if strings.HasPrefix(op, "expirezero") {
								fmt.Sscanf(op, "expirezero%d", &u)
								at = 0
							} else {
								fmt.Sscanf(op, "expire%d", &u)
							}
							expired[u] = true
							if mm != nil {
								mgr.pt(true, "db.WriteUserInfo")
								mm.users[arr16(uidOf(u))].expiry = at
							} else {
								mgr.WriteUserInfo(usermanager.UserInfo{UID: uidOf(u), ExpiryTime: i64(at)})
							}
						default:
							panic("bad op " + op)
						}
					})
				}
				wg.Wait()
				quiesce()
				// volume per user and direction as seen on the wire
				tapUp, tapDown := map[int]int64{}, map[int]int64{}
				for _, t := range net.Tap {
					var u, s int
					fmt.Sscanf(t.Conn, "u%ds%d", &u, &s)
					if t.Dir == "a>b" {
						tapUp[u] += vol(t)
					} else {
						tapDown[u] += vol(t)
					}
				}
				check := func(when string, exact bool) {
					for u := 0; u < 2; u++ {
						up, down, ok := credits(u)
						if !ok {
							continue
						}
						base := upCredit
						if v, t := topped[u]; t {
							base = v
						}
						dUp, dDown := base-up, downCredit-down
						if _, t := topped[u]; t {
							// the top-up overwrote the credit at an unknown moment: only the upper bound is meaningful
							if dUp > tapUp[u] {
								vrt.Fail("charged-at-most-once", "%s: user %d upload credit went down by %d after the top-up but only %d bytes went up in total", when, u, dUp, tapUp[u])
							}
						} else if dUp > tapUp[u] || dUp < 0 {
							vrt.Fail("charged-at-most-once", "%s: user %d upload credit went down by %d but %d bytes went up on the wire", when, u, dUp, tapUp[u])
						}
						if dDown > tapDown[u] || dDown < 0 {
							vrt.Fail("charged-at-most-once", "%s: user %d download credit went down by %d but %d bytes went down on the wire", when, u, dDown, tapDown[u])
						}
						// "exactly once while the user stays active": a user that was terminated (exhausted, expired,
						// deleted, last session closed) sends a session-closing notice after its final collection
						if exact && panel.activeUsers[arr16(uidOf(u))] != nil {
							if _, t := topped[u]; !t && dUp != tapUp[u] {
								vrt.Fail("charged-exactly-once", "%s: user %d stayed active, %d bytes went up on the wire, upload credit went down by %d", when, u, tapUp[u], dUp)
							}
							if dDown != tapDown[u] {
								vrt.Fail("charged-exactly-once", "%s: user %d stayed active, %d bytes went down on the wire, download credit went down by %d", when, u, tapDown[u], dDown)
							}
						}
					}
				}
				check("after the concurrent phase", false)
				// a completed upload that left a user without credit (or found it expired / deleted) has cut it
				// off: whatever the overlap with closures and new connections, no session of such a user is live
				if len(topped) == 0 {
					for _, w := range ws {
						up, down, ok := credits(w.u)
						// (credit only ever changes in an upload round, so credit <= 0 means a completed round left it so;
						// deletion and expiry are admin changes that take effect at the *next* round and are judged after it)
						if ok && (up <= 0 || down <= 0) && !w.srv.IsClosed() {
							vrt.Fail("exhausted-users-cut-off", "at quiescence user %d has credit %d/%d (exists=%v) in the database, yet its session %d is live", w.u, up, down, ok, w.s)
						}
					}
				}
				// one further round after traffic has stopped
				anyClosed := len(closedByTest) > 0
				if trafficOnly {
					snapshot()
				}
				panel.updateUsageQueue()
				panel.commitUpdate()
				quiesce()
				if trafficOnly {
					for u := 0; u < 2; u++ {
						if up, down, ok := credits(u); ok && (upCredit-up != snapUp[u] || downCredit-down != snapDown[u]) {
							vrt.Fail("charged-exactly-once", "sequential history %v: when the last usage round of user %d began, %d bytes had gone up and %d down on its connections; its credits went down by %d and %d", ops, u, snapUp[u], snapDown[u], upCredit-up, downCredit-down)
						}
					}
				}
				check("after the final round", !anyClosed)
				// exhausted / expired / deleted users are cut off by that round
				for _, w := range ws {
					up, down, ok := credits(w.u)
					cut := !ok || deleted[w.u] || expired[w.u] || up <= 0 || down <= 0
					if cut && !w.srv.IsClosed() {
						vrt.Fail("exhausted-users-cut-off", "user %d (deleted=%v expired=%v upCredit=%d downCredit=%d) still has live session %d after a completed usage upload", w.u, deleted[w.u], expired[w.u], up, down, w.s)
					}
					if !cut && !closedByTest[fmt.Sprintf("%d.%d", w.u, w.s)] && !closedByFault[fmt.Sprintf("%d.%d", w.u, w.s)] && w.srv.IsClosed() && !anyClosed {
						vrt.Fail("only-exhausted-users-cut-off", "user %d has credit (%d/%d) yet its session %d was closed: %q", w.u, up, down, w.s, w.srv.TerminalMsg())
					}
				}
				if sequential && len(topped) == 0 {
					// what the server read from the user's connections is what must have been charged for upload,
					// also when the user's last session was closed in between (its usage is parked and committed)
					srvIn := map[int]int64{}
					for _, cn := range net.Conns {
						var u, s int
						if n, _ := fmt.Sscanf(cn.Name, "u%ds%d/b", &u, &s); n == 2 && strings.HasSuffix(cn.Name, "/b") && !tlsConns {
							srvIn[u] += cn.BytesIn
						}
					}
					if tlsConns {
						srvIn = tapUp // (per record without its header: what the record layer hands to the session)
					}
					for u := 0; u < 2; u++ {
						if up, _, ok := credits(u); ok && upCredit-up != srvIn[u] {
							vrt.Fail("charged-exactly-once", "sequential history %v: the server read %d bytes from user %d's connections, upload credit went down by %d", ops, srvIn[u], u, upCredit-up)
						}
					}
				}
				u0, d0, _ := credits(0)
				vrt.Observe("u0 up=%d down=%d tapUp=%d tapDown=%d", upCredit-u0, downCredit-d0, tapUp[0], tapDown[0])
			},
		}
		return vx.RunSched(c, sc, nil)
	}})

	vx.RegisterJobs("C16", func(tier string) []vx.Job {
		q := tier == "quick"
		b := func(quick, thorough int) int {
			if q {
				return quick
			}
			return thorough
		}
		jobs := []vx.Job{
			{Scenario: "panel.usage", Params: vx.P("sessions", "0.1", "ops", "up0.1:10,round"), Bound: b(2, 3), Weight: 5},
			{Scenario: "panel.usage", Params: vx.P("sessions", "0.1", "ops", "up0.1:10,down0.1:7,round", "delay", "1"), Bound: b(2, 3), Weight: 8},
			{Scenario: "panel.usage", Params: vx.P("sessions", "0.1,0.2", "ops", "up0.1:10,up0.2:20,round", "delay", "1"), Bound: b(2, 3), Weight: 8},
			{Scenario: "panel.usage", Params: vx.P("sessions", "0.1,1.1", "ops", "up0.1:10,down1.1:20,round", "delay", "1"), Bound: b(2, 3), Weight: 8},
			{Scenario: "panel.usage", Params: vx.P("sessions", "0.1", "ops", "up0.1:10,round,round", "delay", "1"), Bound: b(2, 3), Weight: 7},
			{Scenario: "panel.usage", Params: vx.P("sessions", "0.1,1.1", "ops", "up0.1:10,down1.1:7,round,round", "delay", "1", "db", "bolt"), Bound: b(1, 2), Weight: 8},
			{Scenario: "panel.usage", Params: vx.P("sessions", "0.1", "ops", "up0.1:10,round,close0.1"), Bound: b(1, 2), Weight: 8},
			{Scenario: "panel.usage", Params: vx.P("sessions", "0.1,0.2", "ops", "up0.1:10,round,close0.2"), Bound: b(1, 2), Weight: 8},
			{Scenario: "panel.usage", Params: vx.P("sessions", "0.1", "ops", "up0.1:300,round", "upcredit", "200"), Bound: b(2, 3), Weight: 6},
			{Scenario: "panel.usage", Params: vx.P("sessions", "0.1,0.2", "ops", "down0.1:300,round", "downcredit", "200", "delay", "1"), Bound: b(2, 3), Weight: 6},
			{Scenario: "panel.usage", Params: vx.P("sessions", "0.1", "ops", "up0.1:10,round,delete0"), Bound: b(2, 3), Weight: 6},
			{Scenario: "panel.usage", Params: vx.P("sessions", "0.1", "ops", "up0.1:10,round,expire0"), Bound: b(2, 3), Weight: 6},
			{Scenario: "panel.usage", Params: vx.P("sessions", "0.1", "ops", "up0.1:10,round,topup0"), Bound: b(2, 3), Weight: 6},
			{Scenario: "panel.usage", Params: vx.P("sessions", "0.1", "ops", "up0.1:10,close0.1,round", "seq", "1"), Bound: 0, Weight: 3},
			{Scenario: "panel.usage", Params: vx.P("sessions", "0.1,0.2", "ops", "up0.1:10,up0.2:7,close0.1,round,close0.2,round", "seq", "1"), Bound: 0, Weight: 3},
			{Scenario: "panel.usage", Params: vx.P("sessions", "0.1", "ops", "up0.1:10,round,close0.1,admit0.2,up0.2:9,close0.2", "seq", "1", "db", "bolt"), Bound: 0, Weight: 3},
			{Scenario: "panel.usage", Params: vx.P("sessions", "0.1", "ops", "up0.1:300,down0.1:50,round", "upcredit", "200", "seq", "1", "db", "bolt"), Bound: 0, Weight: 3},
			// credit spent to exactly zero (by a round that charges precisely what is left)
			{Scenario: "panel.usage", Params: vx.P("sessions", "0.1", "ops", "up0.1:40,down0.1:30,zerodown0,round", "seq", "1", "db", "bolt"), Bound: 0, Weight: 3},
			{Scenario: "panel.usage", Params: vx.P("sessions", "0.1", "ops", "up0.1:40,down0.1:30,zeroup0,round", "seq", "1", "db", "bolt"), Bound: 0, Weight: 3},
			{Scenario: "panel.usage", Params: vx.P("sessions", "0.1", "ops", "down0.1:30,zerodown0,round", "seq", "1"), Bound: 0, Weight: 3},
			// the last session is gone before the round whose verdict is TERMINATE
			{Scenario: "panel.usage", Params: vx.P("sessions", "0.1", "ops", "up0.1:300,close0.1,round", "upcredit", "200", "seq", "1", "db", "bolt"), Bound: 0, Weight: 3},
			{Scenario: "panel.usage", Params: vx.P("sessions", "0.1", "ops", "up0.1:30,close0.1,delete0,round", "seq", "1", "db", "bolt"), Bound: 0, Weight: 3},
			{Scenario: "panel.usage", Params: vx.P("sessions", "0.1", "ops", "down0.1:300,up0.1:50,round", "downcredit", "200", "seq", "1", "db", "bolt"), Bound: 0, Weight: 3},
			{Scenario: "panel.usage", Params: vx.P("sessions", "0.1,1.1", "ops", "up0.1:300,down0.1:50,up1.1:20,down1.1:30,round,up1.1:5,round", "upcredit", "200", "seq", "1", "db", "bolt"), Bound: 0, Weight: 3},
			{Scenario: "panel.usage", Params: vx.P("sessions", "0.1", "ops", "up0.1:300,round,close0.1,admit0.2", "upcredit", "200", "delay", "1"), Bound: b(2, 3), Weight: 8},
			{Scenario: "panel.usage", Params: vx.P("sessions", "0.1", "ops", "up0.1:300,round,admit0.2", "upcredit", "200", "delay", "1"), Bound: b(2, 3), Weight: 8},
			{Scenario: "panel.usage", Params: vx.P("sessions", "0.1", "ops", "up0.1:10,down0.1:5,round", "db", "bolt"), Bound: b(1, 2), Weight: 9},
			{Scenario: "panel.usage", Params: vx.P("sessions", "0.1", "ops", "up0.1:300,round", "upcredit", "200", "db", "bolt"), Bound: b(1, 2), Weight: 7},
			{Scenario: "panel.usage", Params: vx.P("sessions", "0.1", "ops", "up0.1:10,round,expire0", "db", "bolt"), Bound: b(1, 2), Weight: 7},
			{Scenario: "panel.usage", Params: vx.P("sessions", "0.1", "ops", "up0.1:10,round,expirezero0", "db", "bolt"), Bound: b(1, 2), Weight: 7},
			{Scenario: "panel.usage", Params: vx.P("sessions", "0.1", "ops", "up0.1:10,round,cap0", "db", "bolt"), Bound: b(1, 2), Weight: 7},
			// the record layer under the sessions; a server write that fails with nothing sent carries no volume
			{Scenario: "panel.usage", Params: vx.P("sessions", "0.1", "ops", "up0.1:40,down0.1:30,round", "seq", "1", "tls", "1"), Bound: 0, Weight: 3},
			{Scenario: "panel.usage", Params: vx.P("sessions", "0.1,0.2", "ops", "down0.1:30,downfail0.2:50,round", "seq", "1", "tls", "1"), Bound: 0, Weight: 3},
			{Scenario: "panel.usage", Params: vx.P("sessions", "0.1,0.2", "ops", "downfail0.2:50,round,down0.1:30,round", "seq", "1", "tls", "1", "db", "bolt"), Bound: 0, Weight: 3},
			// termination of a user one of whose sessions the peer has already ended: the others are closed all the same
			{Scenario: "panel.usage", Params: vx.P("sessions", "0.1,0.2,0.3", "ops", "drop0.1,up0.2:300,round", "upcredit", "200", "seq", "1"), Bound: 0, Weight: 3},
			{Scenario: "panel.usage", Params: vx.P("sessions", "0.1,0.2,0.3", "ops", "drop0.2,up0.3:300,round", "upcredit", "200", "seq", "1"), Bound: 0, Weight: 3},
			{Scenario: "panel.usage", Params: vx.P("sessions", "0.1", "ops", "up0.1:10,round,delete0", "db", "bolt"), Bound: b(1, 2), Weight: 7},
		}
		for _, f := range []string{"slow", "error", "slow-error", "none"} {
			for _, at := range []string{"1", "3"} {
				jobs = append(jobs, vx.Job{Scenario: "panel.loop", Params: vx.P("fault", f, "at", at), Bound: b(0, 1), Weight: 4})
			}
		}
		for i := range jobs {
			jobs[i].BudgetS = b(100, 900)
		}
		return jobs
	})
}
