//go:build verif

package server

import (
	"fmt"
	"os"

	mux "github.com/cbeuw/Cloak/internal/multiplex"
	"github.com/cbeuw/Cloak/internal/server/usermanager"
	"github.com/cbeuw/Cloak/internal/vrt"
	"github.com/cbeuw/Cloak/internal/vrt/time"
	"github.com/cbeuw/Cloak/internal/vx"
)

func uidOf(i int) []byte {
	u := make([]byte, 16)
	for k := range u {
		u[k] = byte(0x10*(i+1) + k)
	}
	return u
}

func arr16(b []byte) (a [16]byte) { copy(a[:], b); return }

// evManager wraps a UserManager so that every call is a scheduling point with a happens-before
// event on one object: the store behind it (bbolt, or the in-memory map) is not instrumented, and
// without the event two orders of a read and a write of the database would look like one state.
type evManager struct {
	usermanager.UserManager
	o *vrt.Obj
}

func newEvManager(m usermanager.UserManager) *evManager {
	return &evManager{UserManager: m, o: vrt.NewObj("userdb")}
}

func (e *evManager) pt(write bool, kind string) { vrt.Point(e.o, write, kind, nil) }

func (e *evManager) AuthenticateUser(uid []byte) (int64, int64, error) {
	e.pt(false, "db.AuthenticateUser")
	return e.UserManager.AuthenticateUser(uid)
}
func (e *evManager) AuthoriseNewSession(uid []byte, a usermanager.AuthorisationInfo) error {
	e.pt(false, "db.AuthoriseNewSession")
	return e.UserManager.AuthoriseNewSession(uid, a)
}
func (e *evManager) UploadStatus(s []usermanager.StatusUpdate) ([]usermanager.StatusResponse, error) {
	e.pt(true, "db.UploadStatus")
	return e.UserManager.UploadStatus(s)
}
func (e *evManager) WriteUserInfo(u usermanager.UserInfo) error {
	e.pt(true, "db.WriteUserInfo")
	return e.UserManager.WriteUserInfo(u)
}
func (e *evManager) DeleteUser(uid []byte) error {
	e.pt(true, "db.DeleteUser")
	return e.UserManager.DeleteUser(uid)
}
func (e *evManager) GetUserInfo(uid []byte) (usermanager.UserInfo, error) {
	e.pt(false, "db.GetUserInfo")
	return e.UserManager.GetUserInfo(uid)
}
func (e *evManager) ListAllUsers() ([]usermanager.UserInfo, error) {
	e.pt(false, "db.ListAllUsers")
	return e.UserManager.ListAllUsers()
}

// memManager is the trivial in-memory UserManager used where the property is about the panel's own
// locks: every user is known, has credit, and may open `cap` sessions.
type memUser struct {
	upRate, downRate, upCredit, downCredit, expiry int64
	cap                                            int
}
type memManager struct {
	users map[[16]byte]*memUser
	now   func() time.Time
	log   []usermanager.StatusUpdate
}

func newMemManager() *memManager {
	return &memManager{users: map[[16]byte]*memUser{}, now: time.Now}
}

func (m *memManager) add(uid []byte, u memUser) { cp := u; m.users[arr16(uid)] = &cp }

func (m *memManager) AuthenticateUser(uid []byte) (int64, int64, error) {
	u := m.users[arr16(uid)]
	if u == nil {
		return 0, 0, usermanager.ErrUserNotFound
	}
	if u.upCredit <= 0 {
		return 0, 0, usermanager.ErrNoUpCredit
	}
	if u.downCredit <= 0 {
		return 0, 0, usermanager.ErrNoDownCredit
	}
	if u.expiry < m.now().Unix() {
		return 0, 0, usermanager.ErrUserExpired
	}
	return u.upRate, u.downRate, nil
}
func (m *memManager) AuthoriseNewSession(uid []byte, a usermanager.AuthorisationInfo) error {
	u := m.users[arr16(uid)]
	if u == nil {
		return usermanager.ErrUserNotFound
	}
	if a.NumExistingSessions >= u.cap {
		return usermanager.ErrSessionsCapReached
	}
	return nil
}
func (m *memManager) UploadStatus(s []usermanager.StatusUpdate) ([]usermanager.StatusResponse, error) {
	var out []usermanager.StatusResponse
	for _, st := range s {
		m.log = append(m.log, st)
		u := m.users[arr16(st.UID)]
		if u == nil {
			out = append(out, usermanager.StatusResponse{UID: st.UID, Action: usermanager.TERMINATE, Message: "gone"})
			continue
		}
		u.upCredit -= st.UpUsage
		u.downCredit -= st.DownUsage
		if u.upCredit <= 0 || u.downCredit <= 0 {
			out = append(out, usermanager.StatusResponse{UID: st.UID, Action: usermanager.TERMINATE, Message: "no credit"})
		}
		if m.now().Unix() > u.expiry {
			out = append(out, usermanager.StatusResponse{UID: st.UID, Action: usermanager.TERMINATE, Message: "expired"})
		}
	}
	return out, nil
}
func (m *memManager) ListAllUsers() ([]usermanager.UserInfo, error) { return nil, nil }
func (m *memManager) GetUserInfo([]byte) (usermanager.UserInfo, error) {
	return usermanager.UserInfo{}, nil
}
func (m *memManager) WriteUserInfo(usermanager.UserInfo) error { return nil }
func (m *memManager) DeleteUser(uid []byte) error              { delete(m.users, arr16(uid)); return nil }

var srvKey = [32]byte{9, 8, 7, 6, 5, 4, 3, 2, 1, 0, 11, 12, 13, 14, 15, 16, 17, 18, 19, 20, 21, 22, 23, 24, 25, 26, 27, 28, 29, 30, 31, 32}

func plainSeshConfig() mux.SessionConfig {
	o, err := mux.MakeObfuscator(mux.EncryptionMethodPlain, srvKey)
	if err != nil {
		panic(err)
	}
	return mux.SessionConfig{Obfuscator: o, InactivityTimeout: 1000 * time.Hour}
}

func deadlockIs(clause string) func(r *vrt.Result) string {
	return func(r *vrt.Result) string {
		if r.Status == vrt.Deadlock {
			return clause
		}
		return ""
	}
}

func quiesce() { time.Sleep(time.Millisecond) }

var _ = fmt.Sprint
var _ = vx.P

func removeFile(p string) { os.Remove(p) }
