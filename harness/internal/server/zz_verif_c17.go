//go:build verif

package server

import (
	"fmt"
	"strings"

	mux "github.com/cbeuw/Cloak/internal/multiplex"
	"github.com/cbeuw/Cloak/internal/vrt"
	"github.com/cbeuw/Cloak/internal/vrt/sync"
	"github.com/cbeuw/Cloak/internal/vrt/time"
	"github.com/cbeuw/Cloak/internal/vx"
)

// C17 driver: the server's bookkeeping operations in any overlap.
//
// params: ops = comma list of threads, each one of
//
//	admit<u>.<s>   GetUser(u) then GetSession(s)          (a new connection arriving)
//	close<u>.<s>   CloseSession(s) on user u's record     (session <u>.<s> is pre-admitted by main)
//	round          updateUsageQueue; commitUpdate         (one usage-upload round)
//	term<u>        TerminateActiveUser(u)                  (u pre-admitted)
//
// pre = comma list of <u>.<s> sessions admitted by main before the threads start.
func init() {
	vx.Register(&vx.Scenario{Name: "panel.ops", Prop: "C17", Run: func(c *vx.Ctx) *vx.Report {
		ops := splitNE(c.P("ops", "round,round"))
		pre := splitNE(c.P("pre", "0.1"))
		sc := &vrt.Scenario{
			Opt:      vrt.Options{HorizonNs: int64(20 * time.Second), Delay: c.P("delay", "0") == "1"},
			Classify: deadlockIs("no-deadlock: bookkeeping operations block each other forever"),
			Main: func() {
				mm := newMemManager()
				for u := 0; u < 2; u++ {
					mm.add(uidOf(u), memUser{upRate: 1 << 30, downRate: 1 << 30, upCredit: 1 << 40, downCredit: 1 << 40, expiry: 1 << 40, cap: 10})
				}
				// user 2: a record whose DownRate was never written (the admin API writes only the fields it is
				// given): its owner is refused, and the bookkeeping goes on
				mm.add(uidOf(2), memUser{upRate: 1 << 30, downRate: 0, upCredit: 1 << 40, downCredit: 1 << 40, expiry: 1 << 40, cap: 10})
				panel := MakeUserPanel(newEvManager(mm))
				type handed struct {
					u    int
					s    uint32
					sesh *mux.Session
					rec  *ActiveUser
				}
				var out []handed
				recs := map[int]*ActiveUser{}
				admit := func(u int, s uint32) {
					user, err := panel.GetUser(uidOf(u))
					if err != nil && u == 2 {
						return // refused (non-positive rate): the dispatcher redirects such a connection
					}
					if err != nil {
						vrt.Fail("harness", "GetUser: %v", err)
					}
					sesh, _, err := user.GetSession(s, plainSeshConfig())
					if err != nil {
						user.CloseSession(s, "") // dispatchConnection's error path
						return
					}
					out = append(out, handed{u, s, sesh, user})
					if _, ok := recs[u]; !ok {
						recs[u] = user
					}
				}
				for _, p := range pre {
					var u, s int
					fmt.Sscanf(p, "%d.%d", &u, &s)
					admit(u, uint32(s))
				}
				terminated := map[int]bool{}
				var wg sync.WaitGroup
				for i, op := range ops {
					op := op
					wg.Add(1)
					vrt.Go(fmt.Sprintf("t%d:%s", i, op), func() {
						defer wg.Done()
						var u, s int
						switch {
						case op == "round":
							panel.updateUsageQueue()
							panel.commitUpdate()
						case strings.HasPrefix(op, "admit"):
							fmt.Sscanf(op, "admit%d.%d", &u, &s)
							admit(u, uint32(s))
						case strings.HasPrefix(op, "close"):
							fmt.Sscanf(op, "close%d.%d", &u, &s)
							recs[u].CloseSession(uint32(s), "")
						case strings.HasPrefix(op, "term"):
							fmt.Sscanf(op, "term%d", &u)
							panel.TerminateActiveUser(recs[u], "terminated by test")
							terminated[u] = true
						default:
							panic("bad op " + op)
						}
					})
				}
				wg.Wait()
				// quiescent: every live session handed out must be owned by the single record the panel knows
				live := 0
				for _, h := range out {
					if h.sesh.IsClosed() {
						continue
					}
					live++
					rec := panel.activeUsers[arr16(uidOf(h.u))]
					if rec == nil {
						vrt.Fail("live-session-owned", "session %d.%d is live but user %d has no active record in the panel: its usage is never reported and it cannot be terminated", h.u, h.s, h.u)
					}
					if rec != h.rec {
						vrt.Fail("live-session-owned", "session %d.%d is live in a record that is not the one the panel knows for user %d", h.u, h.s, h.u)
					}
					if rec.sessions[h.s] != h.sesh {
						vrt.Fail("live-session-owned", "session %d.%d is live but not registered in its user's record", h.u, h.s)
					}
				}
				for uid, rec := range panel.activeUsers {
					for sid, sesh := range rec.sessions {
						if sesh.IsClosed() {
							// a closed session still listed: it counts against the cap; tolerated only
							// transiently, not at quiescence
							vrt.Fail("no-closed-session-listed", "user %x still lists closed session %d at quiescence", uid[:2], sid)
						}
					}
				}
				vrt.Observe("live=%d records=%d", live, len(panel.activeUsers))
			},
		}
		return vx.RunSched(c, sc, nil)
	}})

	vx.RegisterJobs("C17", func(tier string) []vx.Job {
		q := tier == "quick"
		b := func(quick, thorough int) int {
			if q {
				return quick
			}
			return thorough
		}
		var jobs []vx.Job
		two := [][2]string{
			{"round,round", "0.1"},
			{"round,round", "0.1,1.1"},
			{"admit0.2,round", "0.1"},
			{"admit0.1,round", ""},
			{"close0.1,round", "0.1"},
			{"close0.1,round", "0.1,0.2"},
			{"term0,round", "0.1"},
			{"admit0.2,close0.1", "0.1"},
			{"admit0.1,close0.1", "0.1,0.2"},
			{"admit0.2,term0", "0.1"},
			{"close0.1,term0", "0.1"},
			{"close0.1,close0.2", "0.1,0.2"},
			{"admit0.1,admit0.1", ""},
			{"admit0.1,admit1.1", ""},
		}
		for _, t := range two {
			jobs = append(jobs, vx.Job{Scenario: "panel.ops", Params: vx.P("ops", t[0], "pre", t[1]), Bound: -1, Weight: 5})
		}
		three := [][2]string{
			{"round,round,admit0.2", "0.1"},
			{"round,close0.1,admit0.2", "0.1"},
			{"round,term0,admit0.2", "0.1"},
			{"round,round,close0.1", "0.1"},
			{"admit0.2,close0.1,close0.2", "0.1"},
			{"admit0.2,close0.1,admit0.3", "0.1"},
			{"admit0.2,close0.1,admit0.1", "0.1"},
		}
		jobs = append(jobs, vx.Job{Scenario: "panel.ops", Params: vx.P("ops", "close0.1,round", "pre", "0.1", "crosscheck", "1"), Bound: 2, Weight: 5})
		jobs = append(jobs, vx.Job{Scenario: "panel.ops", Params: vx.P("ops", "admit0.2,close0.1", "pre", "0.1", "crosscheck", "1"), Bound: 2, Weight: 5})
		for _, t := range three {
			jobs = append(jobs, vx.Job{Scenario: "panel.ops", Params: vx.P("ops", t[0], "pre", t[1]), Bound: b(2, 4), Weight: 8})
		}
		jobs = append(jobs, vx.Job{Scenario: "panel.ops", Params: vx.P("ops", "round,round,close0.1,admit0.2", "pre", "0.1", "delay", "1"), Bound: b(2, 3), Weight: 9})
		// a refused owner of an incomplete record among the other operations
		jobs = append(jobs, vx.Job{Scenario: "panel.ops", Params: vx.P("ops", "admit2.1,admit0.2,round,close0.1", "pre", "0.1", "delay", "1"), Bound: b(1, 2), Weight: 7})
		for i := range jobs {
			jobs[i].BudgetS = b(100, 900)
		}
		// "a terminated user has no live session": the round that cuts an exhausted user off overlapping its last
		// session closing and the user connecting again (the driver is shared with C16)
		jobs = append(jobs, vx.Job{Scenario: "panel.usage", Params: vx.P("sessions", "0.1", "ops", "up0.1:300,round,close0.1,admit0.2", "upcredit", "200", "delay", "1"), Bound: b(2, 3), BudgetS: b(100, 900), Weight: 8})
		// the panel's own periodic loop with one slow or failing round: reporting and termination go on
		for _, f := range []string{"slow", "error"} {
			jobs = append(jobs, vx.Job{Scenario: "panel.loop", Params: vx.P("fault", f, "at", "2"), Bound: 1, BudgetS: 100, Weight: 4})
		}
		return jobs
	})
}

func splitNE(s string) []string {
	var out []string
	for _, f := range strings.Split(s, ",") {
		if f != "" {
			out = append(out, f)
		}
	}
	return out
}
