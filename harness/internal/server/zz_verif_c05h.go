//go:build verif

package server

import (
	"io"

	mux "github.com/cbeuw/Cloak/internal/multiplex"
	"github.com/cbeuw/Cloak/internal/vrt"
	"github.com/cbeuw/Cloak/internal/vrt/time"
	"github.com/cbeuw/Cloak/internal/vx"
)

// C05 driver at the handshake/data boundary: the server sends its first data message as soon as the
// session exists - possibly in the same segment as its handshake reply - and the byte stream is
// segmented by the explorer (all / one byte / all but one byte per read). The handshake consumes
// exactly its own records: the client's first read after it returns the server's first message, whole.
func init() {
	vx.Register(&vx.Scenario{Name: "hs.serverfirst", Prop: "C05", Run: func(c *vx.Ctx) *vx.Report {
		cs := hsCase{Transport: "direct", Browser: c.P("browser", "firefox"), Method: c.P("method", "plain"), ProxyMethod: "shadowsocks", SID: 11, ServerName: "example.com"}
		sc := &vrt.Scenario{
			Opt:      vrt.Options{Delay: true, HorizonNs: int64(60 * time.Second)},
			Classify: deadlockIs("one-write-one-read: the client never received the server's first message"),
			Main: func() {
				uid := uidOf(0)
				r := newE2ERig(newMemManager(), [][]byte{uid}, nil)
				r.net.SegChoice = c.P("seg", "1") != "0"
				r.net.SegBudget = c.PI("seg", 1) // at most this many reads are cut short per execution
				r.serve(1)
				msg := []byte("first message from the server")
				vrt.Go("server-app", func() {
					for i := 0; i < 5000; i++ {
						var sesh *mux.Session
						r.sta.Panel.activeUsersM.RLock()
						if u := r.sta.Panel.activeUsers[arr16(uid)]; u != nil {
							u.sessionsM.RLock()
							sesh = u.sessions[cs.SID]
							u.sessionsM.RUnlock()
						}
						r.sta.Panel.activeUsersM.RUnlock()
						if sesh != nil {
							st, err := sesh.OpenStream()
							if err != nil {
								vrt.Fail("harness", "server OpenStream: %v", err)
							}
							st.Write(msg)
							return
						}
						time.Sleep(time.Millisecond)
					}
				})
				remote, auth := r.clientCfgFor(cs, uid)
				conn, err := r.dialer.Dial("tcp", remote.RemoteAddr)
				if err != nil {
					vrt.Fail("harness", "dial: %v", err)
				}
				conn.SetReadDeadline(time.Now().Add(20 * time.Second))
				tr := remote.Transport.CreateTransport()
				key, err := tr.Handshake(conn, auth)
				if err != nil {
					vrt.Fail("handshake-completes", "client handshake failed: %v", err)
				}
				o, _ := mux.MakeObfuscator(auth.EncryptionMethod, key)
				cli := mux.MakeSession(cs.SID, mux.SessionConfig{Obfuscator: o, MsgOnWireSizeLimit: 16401, InactivityTimeout: 1000 * time.Hour})
				conn.SetReadDeadline(time.Now().Add(20 * time.Second))
				cli.AddConnection(tr)
				st, err := cli.Accept()
				if err != nil {
					vrt.Fail("one-write-one-read", "the server opened a stream right after the handshake; the client's Accept: %v (%q)", err, cli.TerminalMsg())
				}
				got := make([]byte, len(msg))
				if _, err := io.ReadFull(st, got); err != nil || string(got) != string(msg) {
					vrt.Fail("one-write-one-read", "the client read %q, %v; the server's first message was %q", got, err, msg)
				}
				vrt.Observe("delivered")
			},
		}
		return vx.RunSched(c, sc, nil)
	}})
}
