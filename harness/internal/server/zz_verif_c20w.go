//go:build verif

package server

import (
	"errors"
	"fmt"
	"net"
	"strings"

	"github.com/cbeuw/Cloak/internal/client"
	"github.com/cbeuw/Cloak/internal/vnet"
	"github.com/cbeuw/Cloak/internal/vref"
	"github.com/cbeuw/Cloak/internal/vrt"
	"github.com/cbeuw/Cloak/internal/vrt/time"
	"github.com/cbeuw/Cloak/internal/vx"
)

// suitesOf: the cipher-suite list of a ClientHello record with GREASE values masked - it tells the
// browser signatures apart.
func suitesOf(first []byte) string {
	recs, err := vref.SplitRecords(first)
	if err != nil || len(recs) == 0 || len(recs[0].Body) < 4+2+32+1 {
		return "?"
	}
	b := recs[0].Body[4+2+32:]
	sl := int(b[0])
	if len(b) < 1+sl+2 {
		return "?"
	}
	b = b[1+sl:]
	n := int(b[0])<<8 | int(b[1])
	if len(b) < 2+n {
		return "?"
	}
	var out []string
	for i := 0; i+1 < n; i += 2 {
		v := uint16(b[2+i])<<8 | uint16(b[3+i])
		if v&0x0f0f == 0x0a0a && byte(v>>8) == byte(v) {
			out = append(out, "GREASE")
			continue
		}
		out = append(out, fmt.Sprintf("%04x", v))
	}
	return strings.Join(out, ",")
}

type roleDialer struct {
	inner  *vnet.Dialer
	roles  []string
	n      int
	events []dialEvent
}

type dialEvent struct {
	slot uint64 // the connection goroutine that dialled
	role string
	pair string
}

func (d *roleDialer) Dial(network, address string) (net.Conn, error) {
	role := "ok"
	if d.n < len(d.roles) {
		role = d.roles[d.n]
	}
	d.n++
	if role == "refuse" {
		d.events = append(d.events, dialEvent{vrt.ThreadName(), role, ""})
		return nil, errors.New("injected: connection refused")
	}
	c, err := d.inner.Dial(network, address)
	if err == nil {
		d.events = append(d.events, dialEvent{vrt.ThreadName(), role, strings.TrimSuffix(c.(*vnet.Conn).Name, "/a")})
	}
	if err == nil && role == "deadwrite" {
		// the connection is established but the very first write on it fails (not part of any registered
		// job: on the pinned tree the client then panics, observation O6 in DESIGN.md)
		return deafConn{c}, nil
	}
	return c, err
}

// C20 on the wire: the configured browser signature is what every connection of the session presents,
// through dial failures and handshake faults of this or of sibling connections. (Documented
// exception: a connection configured as chrome may retry as firefox after its own handshake failed.)
func init() {
	vx.Register(&vx.Scenario{Name: "cfg.wire", Prop: "C20", Run: func(c *vx.Ctx) *vx.Report {
		browser := c.P("browser", "safari")
		roles := strings.Split(c.P("roles", "reset,ok"), ",")
		numConn := c.PI("numconn", 1)
		// reference signatures from fault-free captures
		vrt.SeedPlainRand(c.Seed)
		ref := map[string]string{}
		for _, b := range []string{"chrome", "firefox", "safari"} {
			h, _ := captureFirst(hsCase{Transport: "direct", Browser: b, Method: "plain", ProxyMethod: "shadowsocks", SID: 4, ServerName: "example.com"}, uidOf(0))
			ref[b] = suitesOf(h)
		}
		vrt.UnseedPlainRand()
		sc := &vrt.Scenario{
			Opt:      vrt.Options{Delay: true, HorizonNs: int64(120 * time.Second), MemVars: true},
			Classify: deadlockIs("no-deadlock"),
			Main: func() {
				if ref["chrome"] == ref["firefox"] || ref["safari"] == ref["firefox"] || ref["chrome"] == ref["safari"] || ref["safari"] == "?" {
					vrt.Fail("harness", "reference signatures are not distinct: %v", ref)
				}
				uid := uidOf(0)
				r := newE2ERig(newMemManager(), [][]byte{uid}, nil)
				rd := &roleDialer{inner: r.dialer, roles: roles}
				accepted := 0
				r.wrapAccepted = func(i int, cn net.Conn) net.Conn {
					// the role of an accepted connection is that of the dial that produced it
					pair := strings.TrimSuffix(cn.(*vnet.Conn).Name, "/b")
					role := "ok"
					for _, e := range rd.events {
						if e.pair == pair {
							role = e.role
						}
					}
					accepted++
					if role == "reset" {
						vc := cn.(*vnet.Conn)
						vrt.Go("resetter", func() {
							b := make([]byte, 4096)
							vc.Read(b) // the ClientHello has arrived: the connection is reset before any reply
							vc.Reset()
						})
						return nil
					}
					return cn
				}
				r.serve(len(roles) + numConn + 2)
				cs := hsCase{Transport: "direct", Browser: browser, Method: "plain", ProxyMethod: "shadowsocks", SID: 21, ServerName: "example.com"}
				remote, auth := r.clientCfgFor(cs, uid)
				remote.NumConn = numConn
				sesh := client.MakeSession(remote, auth, rd)
				// judge every dial that produced a connection
				failedHS := map[uint64]bool{}
				for _, e := range rd.events {
					if e.pair == "" {
						continue
					}
					var first []byte
					for _, t := range r.net.Tap {
						if t.Conn == e.pair && t.Dir == "a>b" {
							first = append(first, t.Data...)
							break
						}
					}
					got := suitesOf(first)
					name := "unknown"
					for b, s := range ref {
						if s == got {
							name = b
						}
					}
					ok := name == browser || (browser == "chrome" && name == "firefox" && failedHS[e.slot])
					if !ok {
						vrt.Fail("config-honoured", "BrowserSig=%s, NumConn=%d, connection attempts %v: a connection (own earlier handshake failure: %v) presented the %s signature", browser, numConn, roles, failedHS[e.slot], name)
					}
					if e.role == "reset" {
						failedHS[e.slot] = true
					}
				}
				sesh.Close()
				vrt.Observe("dials=%d", len(rd.events))
			},
		}
		return vx.RunSched(c, sc, nil)
	}})
}
