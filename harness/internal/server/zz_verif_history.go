//go:build verif

package server

import (
	"fmt"
	"sort"
	"strings"
	rtime "time"

	"github.com/cbeuw/Cloak/internal/common"
	mux "github.com/cbeuw/Cloak/internal/multiplex"
	"github.com/cbeuw/Cloak/internal/server/usermanager"
	"github.com/cbeuw/Cloak/internal/vx"
)

// C15 driver (b): histories of admin changes and connections for one limited user, explored
// breadth-first over the reference state (credits, expiry, cap, open sessions); every transition is
// replayed on a fresh userPanel + bbolt LocalManager. Oracle: a connection joins an existing session
// unconditionally, and starts a new one iff upload credit > 0, download credit > 0, not expired and
// fewer than SessionsCap sessions are open.
type histState struct {
	up, down int64 // 0 or positive
	expired  bool
	cap      int
	open     map[uint32]bool
	broken   map[uint32]bool // in the table but already closed underneath (a connection dropped; not yet reaped)
}

func (h histState) key() string {
	var s []string
	for k := range h.open {
		s = append(s, fmt.Sprint(k))
	}
	for k := range h.broken {
		s = append(s, fmt.Sprint(k)+"x")
	}
	sort.Strings(s)
	return fmt.Sprintf("up=%d down=%d expired=%v cap=%d open=%s", h.up, h.down, h.expired, h.cap, strings.Join(s, ","))
}

func (h histState) clone() histState {
	n := h
	n.open = map[uint32]bool{}
	for k := range h.open {
		n.open[k] = true
	}
	n.broken = map[uint32]bool{}
	for k := range h.broken {
		n.broken[k] = true
	}
	return n
}

func init() {
	vx.Register(&vx.Scenario{Name: "panel.history", Prop: "C15", Run: func(c *vx.Ctx) *vx.Report {
		rep := &vx.Report{Job: c.Job, Engine: "bfs", Outcomes: map[string]int64{}, Exhaustive: true}
		depth := c.PI("depth", 6)
		now := rtime.Now().Unix()
		ops := []string{"connect1", "connect2", "connect3", "close1", "close2", "close3", "up=0", "up=-5", "up=100", "down=0", "down=100", "expire", "renew", "cap=1", "cap=2", "cap=0", "round", "break1"}
		uid := uidOf(0)
		type inst struct {
			mgr   usermanager.UserManager
			close func()
			panel *userPanel
			sesh  map[uint32]*mux.Session
		}
		build := func(hist []string) (*inst, string) {
			m := freshBoltManagerPlain()
			in := &inst{mgr: m, close: func() { m.Close() }, sesh: map[uint32]*mux.Session{}}
			m.WriteUserInfo(usermanager.UserInfo{UID: uid, SessionsCap: i32(2), UpRate: i64(1 << 30), DownRate: i64(1 << 30), UpCredit: i64(100), DownCredit: i64(100), ExpiryTime: i64(now + 86400)})
			in.panel = &userPanel{Manager: m, activeUsers: map[[16]byte]*ActiveUser{}, usageUpdateQueue: map[[16]byte]*usagePair{}}
			ref := histState{up: 100, down: 100, cap: 2, open: map[uint32]bool{}, broken: map[uint32]bool{}}
			for i, op := range hist {
				last := i == len(hist)-1
				var n int
				switch {
				case strings.HasPrefix(op, "connect"):
					fmt.Sscanf(op, "connect%d", &n)
					sid := uint32(n)
					user, err := in.panel.GetUser(uid)
					var sesh *mux.Session
					if err == nil {
						sesh, _, err = user.GetSession(sid, plainSeshConfig())
						if err != nil {
							user.CloseSession(sid, "") // what the dispatcher does
						}
					}
					admitted := err == nil
					if ref.open[sid] && ref.broken[sid] {
						// the entry is a session that a dropped connection has already closed: the server may hand
						// it out as it is or replace it - but a user that must be refused gets no live session
						revoked := ref.up <= 0 || ref.down <= 0 || ref.expired
						if revoked && admitted && sesh != nil && !sesh.IsClosed() && last {
							return in, fmt.Sprintf("connection for session %d, which a dropped connection had closed, while the user must be refused [%s]: a new live session was started", sid, ref.key())
						}
						if admitted && sesh != nil && !sesh.IsClosed() {
							delete(ref.broken, sid)
							in.sesh[sid] = sesh
						}
						continue
					}
					want := ref.open[sid] || (ref.up > 0 && ref.down > 0 && !ref.expired && len(ref.open) < ref.cap)
					if admitted != want && last {
						return in, fmt.Sprintf("connection for session %d: admitted=%v (err %v), but state is [%s] so it should be %v", sid, admitted, err, ref.key(), want)
					}
					if admitted {
						if old := in.sesh[sid]; old != nil && old != sesh && last {
							return in, fmt.Sprintf("connection for open session %d was attached to a different session", sid)
						}
						in.sesh[sid] = sesh
						ref.open[sid] = true
					}
				case strings.HasPrefix(op, "break"):
					fmt.Sscanf(op, "break%d", &n)
					sid := uint32(n)
					if sesh := in.sesh[sid]; sesh != nil && ref.open[sid] {
						sesh.Close() // the peer hung up: the session is closed underneath, its table entry remains
						ref.broken[sid] = true
					}
				case strings.HasPrefix(op, "close"):
					fmt.Sscanf(op, "close%d", &n)
					sid := uint32(n)
					if u := in.panel.activeUsers[arr16(uid)]; u != nil {
						u.CloseSession(sid, "")
					}
					delete(in.sesh, sid)
					delete(ref.open, sid)
					delete(ref.broken, sid)
				case strings.HasPrefix(op, "up="):
					fmt.Sscanf(op, "up=%d", &n)
					m.WriteUserInfo(usermanager.UserInfo{UID: uid, UpCredit: i64(int64(n))})
					ref.up = int64(n)
				case strings.HasPrefix(op, "down="):
					fmt.Sscanf(op, "down=%d", &n)
					m.WriteUserInfo(usermanager.UserInfo{UID: uid, DownCredit: i64(int64(n))})
					ref.down = int64(n)
				case op == "expire":
					m.WriteUserInfo(usermanager.UserInfo{UID: uid, ExpiryTime: i64(now - 100)})
					ref.expired = true
				case op == "renew":
					m.WriteUserInfo(usermanager.UserInfo{UID: uid, ExpiryTime: i64(now + 86400)})
					ref.expired = false
				case strings.HasPrefix(op, "cap="):
					fmt.Sscanf(op, "cap=%d", &n)
					m.WriteUserInfo(usermanager.UserInfo{UID: uid, SessionsCap: i32(int32(n))})
					ref.cap = n
				case op == "round":
					// a usage-upload round (no traffic was carried): it finds an active user without credit or
					// past expiry and closes all its sessions
					in.panel.updateUsageQueue()
					in.panel.commitUpdate()
					if len(ref.open) > 0 && (ref.up <= 0 || ref.down <= 0 || ref.expired) {
						ref.open = map[uint32]bool{}
						ref.broken = map[uint32]bool{}
						in.sesh = map[uint32]*mux.Session{}
					}
				}
				if last {
					// invariants of the reached state
					live := 0
					if u := in.panel.activeUsers[arr16(uid)]; u != nil {
						for _, s := range u.sessions {
							if !s.IsClosed() {
								live++
							}
						}
					}
					if live != len(ref.open)-len(ref.broken) {
						return in, fmt.Sprintf("%d live sessions in the panel, the history implies %d", live, len(ref.open)-len(ref.broken))
					}
				}
			}
			in.sesh = nil
			_ = common.RealWorldState
			return in, ""
		}
		refAfter := func(hist []string) histState {
			ref := histState{up: 100, down: 100, cap: 2, open: map[uint32]bool{}, broken: map[uint32]bool{}}
			for _, op := range hist {
				var n int
				switch {
				case strings.HasPrefix(op, "connect"):
					fmt.Sscanf(op, "connect%d", &n)
					if ref.open[uint32(n)] || (ref.up > 0 && ref.down > 0 && !ref.expired && len(ref.open) < ref.cap) {
						ref.open[uint32(n)] = true
					}
				case strings.HasPrefix(op, "break"):
					fmt.Sscanf(op, "break%d", &n)
					if ref.open[uint32(n)] {
						ref.broken[uint32(n)] = true
					}
				case strings.HasPrefix(op, "close"):
					fmt.Sscanf(op, "close%d", &n)
					delete(ref.open, uint32(n))
					delete(ref.broken, uint32(n))
				case strings.HasPrefix(op, "up="):
					fmt.Sscanf(op, "up=%d", &n)
					ref.up = int64(n)
				case strings.HasPrefix(op, "down="):
					fmt.Sscanf(op, "down=%d", &n)
					ref.down = int64(n)
				case op == "expire":
					ref.expired = true
				case op == "renew":
					ref.expired = false
				case strings.HasPrefix(op, "cap="):
					fmt.Sscanf(op, "cap=%d", &n)
					ref.cap = n
				case op == "round":
					if len(ref.open) > 0 && (ref.up <= 0 || ref.down <= 0 || ref.expired) {
						ref.open = map[uint32]bool{}
						ref.broken = map[uint32]bool{}
					}
				}
			}
			return ref
		}
		seen := map[string]bool{refAfter(nil).key(): true}
		frontier := [][]string{nil}
		for len(frontier) > 0 && len(rep.Violations) == 0 {
			h := frontier[0]
			frontier = frontier[1:]
			if len(h) >= depth {
				continue
			}
			for _, op := range ops {
				nh := append(append([]string{}, h...), op)
				in, msg := build(nh)
				in.close()
				rep.Transitions++
				rep.Executions++
				if msg != "" {
					rep.Violations = append(rep.Violations, vx.Violation{Clause: "admission-follows-limits", Sig: vx.Sig(c.Job, "admission-follows-limits"), Msg: fmt.Sprintf("history %v: %s", nh, msg), Case: nh})
					rep.Exhaustive = false
					rep.CapHit = "stopped at first violation"
					break
				}
				k := refAfter(nh).key()
				if !seen[k] {
					seen[k] = true
					frontier = append(frontier, nh)
					if len(rep.Samples) < 2 && len(nh) >= 3 {
						rep.Samples = append(rep.Samples, map[string]any{"history": nh, "state": k})
					}
				}
			}
		}
		rep.States = int64(len(seen))
		rep.Outcomes["states"] = rep.States
		rep.Outcomes["transitions"] = rep.Transitions
		return rep
	}})
}
