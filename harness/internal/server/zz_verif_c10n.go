//go:build verif

package server

import (
	"fmt"
	"strings"

	"github.com/cbeuw/Cloak/internal/client"
	"github.com/cbeuw/Cloak/internal/vnet"
	"github.com/cbeuw/Cloak/internal/vref"
	"github.com/cbeuw/Cloak/internal/vrt"
	"github.com/cbeuw/Cloak/internal/vrt/time"
	"github.com/cbeuw/Cloak/internal/vx"
)

// C10 driver: the server name on the wire for every name a session can be given. ck-client picks one
// entry of {AlternativeNames..., ServerName} per session; the keyword "random" in any spelling stands
// for a generated name. For every configuration below, every entry of the resulting name list and
// every browser signature, the real handshake is run and its ClientHello parsed: an ordinary entry
// appears verbatim, a keyword entry never appears literally (a generated host name does).
func init() {
	vx.Register(&vx.Scenario{Name: "wire.names", Prop: "C10", Run: func(c *vx.Ctx) *vx.Report {
		rep := &vx.Report{Job: c.Job, Engine: "enum", Outcomes: map[string]int64{}, Exhaustive: true}
		r := newE2ERig(nil, nil, nil)
		fail := func(msg string) {
			rep.Violations = append(rep.Violations, vx.Violation{Clause: "well-formed-tls-stream", Sig: vx.Sig(c.Job, "server-name"), Msg: msg})
			rep.Exhaustive = false
		}
		for _, browser := range []string{"chrome", "firefox", "safari"} {
			for _, sn := range []string{"example.com", "random", "Random", "RANDOM"} {
				for _, alt := range [][]string{nil, {"b.example.org"}, {"random", "Random", "RANDOM", "c.example.net"}} {
					raw := client.RawConfig{
						ServerName: sn, AlternativeNames: alt, ProxyMethod: "shadowsocks", EncryptionMethod: "plain", UID: uidOf(0), PublicKey: r.pub[:],
						NumConn: 1, LocalHost: "127.0.0.1", LocalPort: "1984", RemoteHost: "server", RemotePort: "443",
						BrowserSig: browser, Transport: "direct", StreamTimeout: 300,
					}
					local, remote, auth, err := raw.ProcessRawConfig(vWorld())
					if err != nil {
						rep.HarnessError = "ProcessRawConfig: " + err.Error()
						return rep
					}
					if len(local.MockDomainList) != len(alt)+1 {
						fail(fmt.Sprintf("ServerName %q with AlternativeNames %q: the session name list is %q", sn, alt, local.MockDomainList))
						return rep
					}
					for _, name := range local.MockDomainList {
						a := auth
						a.MockDomain = name // what ck-client's session maker does with the entry it draws
						n := vnet.New()
						ca, cb := n.Pair("names", false)
						done := make(chan struct{})
						go func() {
							remote.Transport.CreateTransport().Handshake(ca, a)
							close(done)
						}()
						buf := make([]byte, 4096)
						k, _ := cb.Read(buf)
						cb.Close()
						ca.Close()
						<-done
						rep.Executions++
						rep.Transitions++
						recs, err := vref.SplitRecords(buf[:k])
						if err != nil || len(recs) != 1 {
							fail(fmt.Sprintf("%s, name %q: first flight is not one record: %v", browser, name, err))
							return rep
						}
						ch, err := vref.ParseHello(recs[0].Body)
						if err != nil {
							fail(fmt.Sprintf("%s, name %q: ClientHello: %v", browser, name, err))
							return rep
						}
						if strings.EqualFold(name, "random") {
							if strings.EqualFold(ch.SNI, "random") || !strings.Contains(ch.SNI, ".") {
								fail(fmt.Sprintf("%s, ServerName %q AlternativeNames %q: the session drew the entry %q (the keyword for a generated name); its ClientHello carries the server name %q", browser, sn, alt, name, ch.SNI))
								return rep
							}
							rep.Outcomes["generated"]++
						} else {
							if ch.SNI != name {
								fail(fmt.Sprintf("%s, ServerName %q AlternativeNames %q: the session drew the entry %q; its ClientHello carries the server name %q", browser, sn, alt, name, ch.SNI))
								return rep
							}
							rep.Outcomes["verbatim"]++
						}
					}
				}
			}
		}
		_ = vrt.Cur
		rep.States = rep.Executions
		return rep
	}})
}

// C10 driver: a client whose configuration names a proxy method the server does not serve (an outdated
// ProxyMethod on an authorised user). Such a connection is refused and relayed to the cover site, whose
// bytes are of course not Cloak's; but if the client's handshake *succeeds* - it then holds what it
// takes for a Cloak session - everything on that connection must be the record stream C10 describes.
// The cover site here answers with plain bytes, so anything of it that reaches a client holding a
// session breaks the stream.
func init() {
	vx.Register(&vx.Scenario{Name: "wire.refused", Prop: "C10", Run: func(c *vx.Ctx) *vx.Report {
		sc := &vrt.Scenario{
			Opt:      vrt.Options{Delay: true, HorizonNs: int64(120 * time.Second)},
			Classify: deadlockIs("no-deadlock"),
			Main: func() {
				uid := uidOf(0)
				r := newE2ERig(newMemManager(), [][]byte{uid}, nil)
				vrt.Go("cover-site", func() {
					wc, err := r.webL.Accept()
					if err != nil {
						return
					}
					b := make([]byte, 4096)
					wc.Read(b)
					wc.Write([]byte("HTTP/1.1 400 Bad Request\r\nConnection: close\r\n\r\nthis is not TLS"))
					wc.Read(b) // until the relay goes away
					wc.Close()
				})
				r.serve(1)
				cs := hsCase{Transport: "direct", Browser: c.P("browser", "firefox"), Method: "plain", ProxyMethod: c.P("method", "outdated"), SID: 9, ServerName: "example.com"}
				remote, auth := r.clientCfgFor(cs, uid)
				conn, err := r.dialer.Dial("tcp", "server:443")
				if err != nil {
					vrt.Fail("harness", "dial: %v", err)
				}
				conn.SetReadDeadline(time.Now().Add(20 * time.Second))
				_, herr := remote.Transport.CreateTransport().Handshake(conn, auth)
				time.Sleep(time.Second)
				if herr == nil {
					pair := strings.TrimSuffix(conn.(*vnet.Conn).Name, "/a")
					if w := checkWire(r, pair, "example.com"); w != "" {
						vrt.Fail("well-formed-tls-stream", "a client naming proxy method %q (not served) completed the handshake; on its connection: %s", cs.ProxyMethod, w)
					}
					vrt.Fail("well-formed-tls-stream", "a client naming proxy method %q, which the server does not serve, was answered with a Cloak reply (and relayed to the cover site as well)", cs.ProxyMethod)
				}
				conn.Close()
				vrt.Observe("refused")
			},
		}
		return vx.RunSched(c, sc, nil)
	}})
}
