//go:build verif

package server

import (
	"fmt"
	"strings"

	"github.com/cbeuw/Cloak/internal/client"
	"github.com/cbeuw/Cloak/internal/vnet"
	"github.com/cbeuw/Cloak/internal/vref"
	"github.com/cbeuw/Cloak/internal/vrt"
	"github.com/cbeuw/Cloak/internal/vx"
)

// C10 driver: the server name on the wire for every name a session can be given. ck-client picks one
// entry of {AlternativeNames..., ServerName} per session; the keyword "random" in any spelling stands
// for a generated name. For every configuration below, every entry of the resulting name list and
// every browser signature, the real handshake is run and its ClientHello parsed: an ordinary entry
// appears verbatim, a keyword entry never appears literally (a generated host name does).
func init() {
	vx.Register(&vx.Scenario{Name: "wire.names", Prop: "C10", Run: func(c *vx.Ctx) *vx.Report {
		rep := &vx.Report{Job: c.Job, Engine: "enum", Outcomes: map[string]int64{}, Exhaustive: true}
		r := newE2ERig(nil, nil, nil)
		fail := func(msg string) {
			rep.Violations = append(rep.Violations, vx.Violation{Clause: "well-formed-tls-stream", Sig: vx.Sig(c.Job, "server-name"), Msg: msg})
			rep.Exhaustive = false
		}
		for _, browser := range []string{"chrome", "firefox", "safari"} {
			for _, sn := range []string{"example.com", "random", "Random", "RANDOM"} {
				for _, alt := range [][]string{nil, {"b.example.org"}, {"random", "Random", "RANDOM", "c.example.net"}} {
					raw := client.RawConfig{
						ServerName: sn, AlternativeNames: alt, ProxyMethod: "shadowsocks", EncryptionMethod: "plain", UID: uidOf(0), PublicKey: r.pub[:],
						NumConn: 1, LocalHost: "127.0.0.1", LocalPort: "1984", RemoteHost: "server", RemotePort: "443",
						BrowserSig: browser, Transport: "direct", StreamTimeout: 300,
					}
					local, remote, auth, err := raw.ProcessRawConfig(vWorld())
					if err != nil {
						rep.HarnessError = "ProcessRawConfig: " + err.Error()
						return rep
					}
					if len(local.MockDomainList) != len(alt)+1 {
						fail(fmt.Sprintf("ServerName %q with AlternativeNames %q: the session name list is %q", sn, alt, local.MockDomainList))
						return rep
					}
					for _, name := range local.MockDomainList {
						a := auth
						a.MockDomain = name // what ck-client's session maker does with the entry it draws
						n := vnet.New()
						ca, cb := n.Pair("names", false)
						done := make(chan struct{})
						go func() {
							remote.Transport.CreateTransport().Handshake(ca, a)
							close(done)
						}()
						buf := make([]byte, 4096)
						k, _ := cb.Read(buf)
						cb.Close()
						ca.Close()
						<-done
						rep.Executions++
						rep.Transitions++
						recs, err := vref.SplitRecords(buf[:k])
						if err != nil || len(recs) != 1 {
							fail(fmt.Sprintf("%s, name %q: first flight is not one record: %v", browser, name, err))
							return rep
						}
						ch, err := vref.ParseHello(recs[0].Body)
						if err != nil {
							fail(fmt.Sprintf("%s, name %q: ClientHello: %v", browser, name, err))
							return rep
						}
						if strings.EqualFold(name, "random") {
							if strings.EqualFold(ch.SNI, "random") || !strings.Contains(ch.SNI, ".") {
								fail(fmt.Sprintf("%s, ServerName %q AlternativeNames %q: the session drew the entry %q (the keyword for a generated name); its ClientHello carries the server name %q", browser, sn, alt, name, ch.SNI))
								return rep
							}
							rep.Outcomes["generated"]++
						} else {
							if ch.SNI != name {
								fail(fmt.Sprintf("%s, ServerName %q AlternativeNames %q: the session drew the entry %q; its ClientHello carries the server name %q", browser, sn, alt, name, ch.SNI))
								return rep
							}
							rep.Outcomes["verbatim"]++
						}
					}
				}
			}
		}
		_ = vrt.Cur
		rep.States = rep.Executions
		return rep
	}})
}
