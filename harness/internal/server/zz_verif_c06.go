//go:build verif

package server

import (
	"fmt"
	"strings"

	"github.com/cbeuw/Cloak/internal/vrt"
	"github.com/cbeuw/Cloak/internal/vrt/time"
	"github.com/cbeuw/Cloak/internal/vx"
)

// C06: the product of configuration dimensions; every case is one complete real handshake plus a
// frame each way. Direct cases run under the scheduler (deterministic default schedule, deadlock
// detection); CDN cases need net/http and crypto/tls goroutines and run free.
func init() {
	vx.Register(&vx.Scenario{Name: "hs.agree", Prop: "C06", Run: func(c *vx.Ctx) *vx.Report {
		rep := &vx.Report{Job: c.Job, Engine: "enum", Outcomes: map[string]int64{}, Exhaustive: true}
		transport, browser := c.P("transport", "direct"), c.P("browser", "chrome")
		full := c.P("product", "star") == "full"
		methods := []string{"plain", "aes-256-gcm", "aes-128-gcm", "chacha20-poly1305", "aes-gcm"} // the last one: the documented synonym of aes-256-gcm
		if m := c.P("method", ""); m != "" {
			methods = []string{m}
		}
		plens := []int{1, 2, 3, 4, 5, 6, 7, 8, 9, 10, 11, 12}
		sids := []uint32{0, 1, 1<<31 - 1, 1 << 31, 1<<32 - 1}
		// (the IP literals: utls then sends no server_name extension at all, RFC 6066)
		names := []string{"example.com", strings.Repeat("a", 50) + ".example.org", "random", "203.0.113.7", "2001:db8::1"}
		offsets := []int{-179, -1, 0, 1, 179}
		var cases []hsCase
		for _, m := range methods {
			for _, un := range []bool{false, true} {
				base := hsCase{Transport: transport, Browser: browser, Method: m, Unordered: un, ProxyMethod: "shadowsocks", SID: 7, ServerName: "example.com", CDNEdge: c.P("edge", "")}
				if full {
					for _, pl := range plens {
						for _, sid := range sids {
							for _, nm := range names {
								for _, off := range offsets {
									cs := base
									cs.ProxyMethod, cs.SID, cs.ServerName, cs.Offset = strings.Repeat("m", pl), sid, nm, off
									cases = append(cases, cs)
								}
							}
						}
					}
					continue
				}
				cases = append(cases, base)
				for _, pl := range plens {
					cs := base
					cs.ProxyMethod = strings.Repeat("m", pl)
					cases = append(cases, cs)
				}
				for _, sid := range sids {
					cs := base
					cs.SID = sid
					cases = append(cases, cs)
				}
				for _, nm := range names[1:] {
					cs := base
					cs.ServerName = nm
					cases = append(cases, cs)
				}
				for _, off := range offsets {
					cs := base
					cs.Offset = off
					cases = append(cases, cs)
				}
				for _, uc := range []string{"zeros", "ones", "trailing-zeros", "leading-zeros"} {
					cs := base
					cs.UIDClass = uc
					cases = append(cases, cs)
				}
			}
		}
		lo, hi := c.PI("lo", 0), c.PI("hi", len(cases))
		if hi > len(cases) {
			hi = len(cases)
		}
		seeds := c.PI("seeds", 1)
		for _, cs := range cases[lo:hi] {
			for sd := 0; sd < seeds; sd++ {
				msg := ""
				if transport == "cdn" {
					vrt.SeedPlainRand(c.Seed*1000 + uint64(sd))
					msg = hsAgree(cs)
					vrt.UnseedPlainRand()
				} else {
					// seeds beyond the first two also pin every small random draw (certificate length
					// menu, ...) to sd-2 mod n: seeds=9 covers each of the 7 certificate lengths
					res := runSchedOnceDraw(c.Seed*1000+uint64(sd), 60*time.Second, sd-2, func() {
						if m := hsAgree(cs); m != "" {
							vrt.Fail("handshake-agreement", "%s", m)
						}
					})
					if res.Status != vrt.Complete {
						msg = fmt.Sprintf("%s: %s", res.Status, res.Msg)
					}
					rep.Transitions += int64(res.Steps)
				}
				rep.Executions++
				if msg != "" {
					rep.Violations = append(rep.Violations, vx.Violation{Clause: "handshake-agreement", Sig: vx.Sig(c.Job, "handshake-agreement"), Msg: fmt.Sprintf("%+v: %s", cs, msg), Case: cs})
					rep.Exhaustive = false
					rep.CapHit = "stopped at first violation"
					rep.States = rep.Executions
					return rep
				}
			}
			rep.Outcomes[fmt.Sprintf("%s/%s/%s/unordered=%v ok", transport, browser, cs.Method, cs.Unordered)]++
			if len(rep.Samples) < 2 {
				rep.Samples = append(rep.Samples, cs)
			}
		}
		rep.States = rep.Executions
		if rep.Transitions == 0 {
			rep.Transitions = rep.Executions
		}
		return rep
	}})

	vx.RegisterJobs("C06", func(tier string) []vx.Job {
		var jobs []vx.Job
		for _, tb := range [][2]string{{"direct", "chrome"}, {"direct", "firefox"}, {"direct", "safari"}, {"cdn", "chrome"}} {
			if tier == "quick" {
				jobs = append(jobs, vx.Job{Scenario: "hs.agree", Params: vx.P("transport", tb[0], "browser", tb[1], "product", "star", "seeds", map[string]string{"direct": "9", "cdn": "2"}[tb[0]]), Weight: 5})
			} else {
				for _, m := range []string{"plain", "aes-256-gcm", "aes-128-gcm", "chacha20-poly1305"} {
					for part := 0; part < 4; part++ {
						jobs = append(jobs, vx.Job{Scenario: "hs.agree", Params: vx.P("transport", tb[0], "browser", tb[1], "method", m, "product", "full", "lo", fmt.Sprint(part*450), "hi", fmt.Sprint((part+1)*450)), Weight: 9})
					}
				}
			}
		}
		// CDN edges that re-frame the origin's replies, or forward the request with lower-case field names
		jobs = append(jobs, vx.Job{Scenario: "hs.agree", Params: vx.P("transport", "cdn", "browser", "chrome", "product", "star", "seeds", "1", "edge", "pieces"), Weight: 4},
			vx.Job{Scenario: "hs.agree", Params: vx.P("transport", "cdn", "browser", "firefox", "product", "star", "seeds", "1", "edge", "lower"), Weight: 4},
			vx.Job{Scenario: "hs.agree", Params: vx.P("transport", "cdn", "browser", "safari", "product", "star", "seeds", "1", "edge", "connhdr"), Weight: 4})
		// every clock offset strictly inside the window agrees, whatever the server clock's sub-second phase
		jobs = append(jobs, vx.Job{Scenario: "auth.window", Params: vx.P("transport", "direct"), Weight: 3}, vx.Job{Scenario: "auth.window", Params: vx.P("transport", "cdn"), Weight: 3})
		// two handshakes at once (different users; the same session): each client can open its reply and holds
		// the key of the session the server created - with memory points before unsynchronised writes
		jobs = append(jobs, vx.Job{Scenario: "srv.join", Params: vx.P("conns", "0.1,1.1", "cap", "1", "mem", "1"), Bound: map[bool]int{true: 1, false: 2}[tier == "quick"], BudgetS: 100, Weight: 6},
			vx.Job{Scenario: "srv.join", Params: vx.P("conns", "0.1,0.1", "cap", "1", "mem", "1"), Bound: map[bool]int{true: 1, false: 2}[tier == "quick"], BudgetS: 100, Weight: 6})
		return jobs
	})
}
