//go:build verif

package server

import (
	"bytes"
	"crypto/ecdsa"
	"crypto/elliptic"
	crand "crypto/rand"
	"crypto/tls"
	"crypto/x509"
	"crypto/x509/pkix"
	"fmt"
	"io"
	"math/big"
	"net"
	"strings"
	rtime "time"

	"github.com/cbeuw/Cloak/internal/client"
	"github.com/cbeuw/Cloak/internal/common"
	mux "github.com/cbeuw/Cloak/internal/multiplex"
	"github.com/cbeuw/Cloak/internal/vnet"
	"github.com/cbeuw/Cloak/internal/vrt"
	"github.com/cbeuw/Cloak/internal/vrt/time"
)

var cdnCert *tls.Certificate

func selfSigned() tls.Certificate {
	if cdnCert != nil {
		return *cdnCert
	}
	key, err := ecdsa.GenerateKey(elliptic.P256(), crand.Reader)
	if err != nil {
		panic(err)
	}
	tmpl := &x509.Certificate{SerialNumber: big.NewInt(1), Subject: pkix.Name{CommonName: "cdn"}, NotBefore: rtime.Now().Add(-rtime.Hour), NotAfter: rtime.Now().Add(24 * rtime.Hour),
		KeyUsage: x509.KeyUsageDigitalSignature, ExtKeyUsage: []x509.ExtKeyUsage{x509.ExtKeyUsageServerAuth}, DNSNames: []string{"cdn"}}
	der, err := x509.CreateCertificate(crand.Reader, tmpl, tmpl, &key.PublicKey, key)
	if err != nil {
		panic(err)
	}
	c := tls.Certificate{Certificate: [][]byte{der}, PrivateKey: key}
	cdnCert = &c
	return c
}

// startCDN runs a TLS terminator on "cdn:443" (free-running goroutines: only used in passthrough
// mode) that forwards the decrypted stream to the Cloak server, as a CDN edge would.
func (r *e2eRig) startCDN(n int) {
	l := r.net.Listen("cdn:443", false)
	cfg := &tls.Config{Certificates: []tls.Certificate{selfSigned()}}
	cfg.GetConfigForClient = func(chi *tls.ClientHelloInfo) (*tls.Config, error) {
		redirAddrsM.Lock()
		r.cdnSNI = append(r.cdnSNI, chi.ServerName) // what the CDN edge sees in clear
		redirAddrsM.Unlock()
		return nil, nil
	}
	go func() {
		for i := 0; i < n; i++ {
			c, err := l.Accept()
			if err != nil {
				return
			}
			go func() {
				tc := tls.Server(c, cfg)
				if err := tc.Handshake(); err != nil {
					c.Close()
					return
				}
				up, err := r.dialer.Dial("tcp", "server:443")
				if err != nil {
					c.Close()
					return
				}
				go func() {
					if r.cdnEdge == "lower" || r.cdnEdge == "connhdr" {
						// an edge that parses the request and sends it on with lower-case field names (as edges
						// that carry requests over HTTP/2 internally do); field names are case-insensitive
						var head []byte
						b := make([]byte, 4096)
						for !bytes.Contains(head, []byte("\r\n\r\n")) {
							k, err := tc.Read(b)
							head = append(head, b[:k]...)
							if err != nil {
								break
							}
						}
						if i := bytes.Index(head, []byte("\r\n\r\n")); i >= 0 {
							lines := strings.Split(string(head[:i]), "\r\n")
							for li := 1; li < len(lines); li++ {
								if j := strings.Index(lines[li], ":"); j > 0 {
									if r.cdnEdge == "connhdr" {
										// an edge that keeps its origin connections alive and sets the hop-by-hop header itself
										// (RFC 7230: a case-insensitive list of tokens)
										if strings.EqualFold(lines[li][:j], "Connection") {
											lines[li] = "Connection: keep-alive, upgrade"
										}
										continue
									}
									lines[li] = strings.ToLower(lines[li][:j]) + lines[li][j:]
								}
							}
							head = append([]byte(strings.Join(lines, "\r\n")), head[i:]...)
						}
						up.Write(head)
					}
					io.Copy(up, tc)
					up.Close()
				}()
				if r.cdnEdge == "pieces" {
					// an edge that re-frames what the origin sends: every chunk goes on in two records
					b := make([]byte, 32768)
					for {
						k, err := up.Read(b)
						if k > 48 {
							tc.Write(b[:48])
							tc.Write(b[48:k])
						} else if k > 0 {
							tc.Write(b[:k])
						}
						if err != nil {
							break
						}
					}
				} else {
					io.Copy(tc, up)
				}
				tc.Close()
			}()
		}
	}()
}

type hsCase struct {
	Transport   string `json:"transport"` // direct | cdn
	Browser     string `json:"browser"`
	Method      string `json:"method"`
	Unordered   bool   `json:"unordered"`
	ProxyMethod string `json:"proxy_method"`
	SID         uint32 `json:"sid"`
	ServerName  string `json:"server_name"`
	Offset      int    `json:"clock_offset_s"`
	// UseAbsClock: the client's clock reads exactly AbsClock (Unix seconds) instead of now+Offset
	UIDClass    string `json:"uid_class,omitempty"` // "", zeros, ones, trailing-zeros, leading-zeros
	UseAbsClock bool   `json:"use_abs_clock,omitempty"`
	CDNEdge     string `json:"cdn_edge,omitempty"` // "", pieces (replies re-framed), lower (request field names in lower case)
	AbsClock    int64  `json:"abs_clock,omitempty"`
}

// methodByte: the number each documented encryption-method name has on the wire (Cloak v2: a peer of
// another build relies on these literal values, so they are not taken from the package's constants).
func methodByte(m string) byte {
	switch strings.ToLower(m) {
	case "plain":
		return 0
	case "aes-256-gcm", "aes-gcm": // README: aes-256-gcm "(synonymous to aes-gcm)"
		return 1
	case "chacha20-poly1305":
		return 2
	case "aes-128-gcm":
		return 3
	}
	panic(m)
}

// clientCfgFor is clientCfg with a transport and a clock offset.
func (r *e2eRig) clientCfgFor(cs hsCase, uid []byte) (client.RemoteConnConfig, client.AuthInfo) {
	raw := client.RawConfig{
		ServerName: cs.ServerName, ProxyMethod: cs.ProxyMethod, EncryptionMethod: cs.Method, UID: uid, PublicKey: r.pub[:],
		NumConn: 1, LocalHost: "127.0.0.1", LocalPort: "1984", RemoteHost: "server", RemotePort: "443",
		UDP: cs.Unordered, BrowserSig: cs.Browser, Transport: cs.Transport, StreamTimeout: 300,
	}
	if cs.Transport == "cdn" {
		raw.RemoteHost = "cdn"
	}
	off := time.Duration(cs.Offset) * time.Second
	world := common.WorldState{Rand: vWorld().Rand, Now: func() time.Time { return time.Now().Add(off) }}
	if cs.UseAbsClock {
		abs := cs.AbsClock
		world.Now = func() time.Time { return time.Unix(abs, 0) }
	}
	_, remote, auth, err := raw.ProcessRawConfig(world)
	if err != nil {
		panic(fmt.Sprintf("ProcessRawConfig: %v", err))
	}
	auth.SessionId = cs.SID
	return remote, auth
}

// hsAgree runs one complete connection: handshake, then one stream carrying a ping to the proxy
// behind the configured method and the answer back. Returns "" or what disagreed.
func uidOfClass(class string) []byte {
	u := uidOf(0)
	switch class {
	case "zeros":
		u = make([]byte, 16)
	case "ones":
		for i := range u {
			u[i] = 0xff
		}
	case "trailing-zeros":
		for i := 8; i < 16; i++ {
			u[i] = 0
		}
	case "leading-zeros":
		for i := 0; i < 8; i++ {
			u[i] = 0
		}
	}
	return u
}

// hsBigLen: payload bytes of one full frame under the production message limit (16401 - 14 - 255).
const hsBigLen = 16132

func hsAgree(cs hsCase) string {
	uid := uidOfClass(cs.UIDClass)
	r := newE2ERig(newMemManager(), [][]byte{uid}, nil)
	r.sta.ProxyBook = map[string]net.Addr{cs.ProxyMethod: tcpAddr{"proxy:8388"}, "decoy-method": tcpAddr{"decoy:1"}}
	if vrt.Cur() == nil {
		// free-running (CDN) cases: both clocks are frozen, so that a clock offset one second inside the
		// window stays inside it however long the machine takes (under the scheduler time is virtual anyway)
		t0 := time.Now()
		r.sta.WorldState.Now = func() time.Time { return t0 }
		if !cs.UseAbsClock {
			cs.UseAbsClock, cs.AbsClock = true, t0.Unix()+int64(cs.Offset)
		}
	}
	decoy := r.net.Listen("decoy:1", false)
	_ = decoy
	r.serve(1)
	if cs.Transport == "cdn" {
		r.cdnEdge = cs.CDNEdge
		r.startCDN(1)
	}
	proxyGot := make([]byte, 0, 8)
	proxyDone := false
	vrt.Go("proxy", func() {
		c, err := r.proxyL.Accept()
		if err != nil {
			return
		}
		b := make([]byte, 4096)
		k, _ := c.Read(b)
		proxyGot = append(proxyGot, b[:k]...)
		c.Write([]byte("pong"))
		proxyDone = true
		// then one full frame's worth of data (see below)
		big := make([]byte, 0, hsBigLen)
		for len(big) < hsBigLen {
			k, err := c.Read(b)
			big = append(big, b[:k]...)
			if err != nil {
				return
			}
		}
		for i, x := range big {
			if x != byte(i*11+3) {
				c.Write([]byte("BAD!"))
				return
			}
		}
		c.Write([]byte("done"))
	})
	remote, auth := r.clientCfgFor(cs, uid)
	conn, err := r.dialer.Dial("tcp", remote.RemoteAddr)
	if err != nil {
		return "dial: " + err.Error()
	}
	deadline := func() { conn.SetReadDeadline(time.Now().Add(20 * time.Second)) }
	deadline()
	tr := remote.Transport.CreateTransport()
	key, err := tr.Handshake(conn, auth)
	if err != nil {
		return fmt.Sprintf("client handshake failed: %v", err)
	}
	if cs.Transport == "cdn" && !strings.EqualFold(cs.ServerName, "random") {
		// the name presented to the CDN edge in clear is the configured ServerName (domain fronting), not the origin
		redirAddrsM.Lock()
		sni := append([]string{}, r.cdnSNI...)
		redirAddrsM.Unlock()
		wantSNI := cs.ServerName
		if net.ParseIP(cs.ServerName) != nil {
			wantSNI = "" // an IP literal is never sent as a server name (RFC 6066)
		}
		if len(sni) == 0 || sni[len(sni)-1] != wantSNI {
			return fmt.Sprintf("the TLS connection to the CDN carried the server name %q, configured ServerName is %q", sni, cs.ServerName)
		}
	}
	// server side: the session exists under this UID and session id, with the same key and mode
	var sesh *mux.Session
	for i := 0; i < 2000 && sesh == nil; i++ {
		r.sta.Panel.activeUsersM.RLock()
		if u := r.sta.Panel.activeUsers[arr16(uid)]; u != nil {
			u.sessionsM.RLock()
			sesh = u.sessions[cs.SID]
			u.sessionsM.RUnlock()
		}
		r.sta.Panel.activeUsersM.RUnlock()
		if sesh == nil {
			if vrt.Cur() != nil {
				break
			}
			rtime.Sleep(rtime.Millisecond)
		}
	}
	if sesh == nil {
		return fmt.Sprintf("the server has no session %d for the client's UID after a completed handshake", cs.SID)
	}
	if sesh.GetSessionKey() != key {
		return "client and server hold different session keys"
	}
	if sesh.Unordered != cs.Unordered {
		return fmt.Sprintf("server session unordered=%v, client configured %v", sesh.Unordered, cs.Unordered)
	}
	// one frame each way under the negotiated method, to the proxy behind the configured proxy method
	o, err := mux.MakeObfuscator(auth.EncryptionMethod, key)
	if err != nil {
		return err.Error()
	}
	cli := mux.MakeSession(cs.SID, mux.SessionConfig{Obfuscator: o, Unordered: cs.Unordered, MsgOnWireSizeLimit: 16401, InactivityTimeout: 1000 * time.Hour})
	deadline()
	cli.AddConnection(tr)
	st, err := cli.OpenStream()
	if err != nil {
		return "OpenStream: " + err.Error()
	}
	if _, err := st.Write([]byte("ping")); err != nil {
		return "stream write: " + err.Error()
	}
	st.SetReadDeadline(time.Now().Add(20 * time.Second))
	b := make([]byte, 16)
	k, err := st.Read(b)
	if err != nil || string(b[:k]) != "pong" {
		return fmt.Sprintf("answer through the tunnel: %q, %v (proxy behind %q received %q, reached=%v)", b[:k], err, cs.ProxyMethod, proxyGot, proxyDone)
	}
	if string(proxyGot) != "ping" {
		return fmt.Sprintf("the proxy behind method %q received %q", cs.ProxyMethod, proxyGot)
	}
	// the largest message the session may put on this connection: a full frame among the stream's first
	// five with the largest padding draw (16401 bytes with the production limit) passes the transport
	big := make([]byte, hsBigLen)
	for i := range big {
		big[i] = byte(i*11 + 3)
	}
	vrt.PlainRandInt = func(n int) int { return n - 1 }
	_, werr := st.Write(big)
	vrt.PlainRandInt = nil
	if werr != nil {
		return fmt.Sprintf("writing one full frame (%d bytes) on the new session: %v", hsBigLen, werr)
	}
	st.SetReadDeadline(time.Now().Add(20 * time.Second))
	k, err = st.Read(b)
	if err != nil || string(b[:k]) != "done" {
		return fmt.Sprintf("a full frame (%d payload bytes, largest padding: the largest message the session's limit allows) sent through the %s transport: the proxy's acknowledgement was %q, %v (session closed: %v %q)", hsBigLen, cs.Transport, b[:k], err, cli.IsClosed(), cli.TerminalMsg())
	}
	// what the server decodes from the first packet it saw equals what the client was configured with
	var first []byte
	want := "server:443#1"
	for _, t := range r.net.Tap {
		if t.Conn == want && t.Dir == "a>b" {
			first = t.Data
			break
		}
	}
	var transport Transport = TLS{}
	if cs.Transport == "cdn" {
		transport = WebSocket{}
		// the GET may have been forwarded in several writes: reassemble up to the blank line
		first = nil
		for _, t := range r.net.Tap {
			if t.Conn == want && t.Dir == "a>b" {
				first = append(first, t.Data...)
				if i := strings.Index(string(first), "\r\n\r\n"); i >= 0 {
					first = first[:i+4]
					break
				}
			}
		}
	}
	fresh := &State{StaticPv: r.sta.StaticPv, UsedRandom: map[[32]byte]int64{}, WorldState: r.sta.WorldState}
	ci, _, err := AuthFirstPacket(first, transport, fresh)
	if err != nil {
		return fmt.Sprintf("AuthFirstPacket on the captured first packet: %v", err)
	}
	if string(ci.UID) != string(uid) || ci.ProxyMethod != cs.ProxyMethod || ci.EncryptionMethod != methodByte(cs.Method) || ci.SessionId != cs.SID || ci.Unordered != cs.Unordered {
		return fmt.Sprintf("server decodes UID=%x method=%q enc=%d sid=%d unordered=%v; client configured UID=%x method=%q enc=%d sid=%d unordered=%v",
			ci.UID, ci.ProxyMethod, ci.EncryptionMethod, ci.SessionId, ci.Unordered, uid, cs.ProxyMethod, methodByte(cs.Method), cs.SID, cs.Unordered)
	}
	cli.Close()
	return ""
}

// runSchedOnce runs main once under the scheduler's deterministic default schedule (delay bound 0).
func runSchedOnce(seed uint64, horizon time.Duration, main func()) vrt.Result {
	return runSchedOnceDraw(seed, horizon, -1, main)
}

// runSchedOnceDraw: as runSchedOnce, and with draw >= 0 every owned random draw from a small range
// (rand.Int with n <= 16: e.g. the server's choice among its certificate lengths) yields draw mod n,
// so that a loop over draw = 0..15 visits every value of every such draw; large draws stay on the PRF.
func runSchedOnceDraw(seed uint64, horizon time.Duration, draw int, main func()) vrt.Result {
	sc := &vrt.Scenario{Opt: vrt.Options{Seed: seed, Delay: true, HorizonNs: int64(horizon)}, Main: main}
	if draw >= 0 {
		sc.Opt.RandInt = func(n int, tag string) int {
			if tag == "rand.Int" && n <= 16 {
				return draw % n
			}
			return -1
		}
	}
	for {
		e := &vrt.Explorer{Sc: sc, Bound: 0}
		r, _ := e.Replay(nil)
		if !vrt.MergePendingSites() {
			return r
		}
	}
}

var _ = vnet.New
