//go:build verif

package server

import (
	"github.com/cbeuw/Cloak/internal/vnet"
	"github.com/cbeuw/Cloak/internal/vrt"
	"github.com/cbeuw/Cloak/internal/vrt/time"
	"github.com/cbeuw/Cloak/internal/vx"
)

// C08 driver: a replay delivered slowly, around a clean-up of the replay cache. A client whose clock
// leads the server's by `lead` seconds handshakes at T, some minutes before a periodic clean-up. Its
// first packet is then presented again through the real dispatcher on a connection opened `a` seconds
// after T, the first byte at once and the rest `d` seconds later (the dispatcher allows 15 s for a
// first packet) - T, a and d are explorer choices that put the clean-up before, inside and after
// that delivery. Whatever the timing, the second presentation is not answered as a Cloak client.
func init() {
	vx.Register(&vx.Scenario{Name: "replay.slow", Prop: "C08", Run: func(c *vx.Ctx) *vx.Report {
		sc := &vrt.Scenario{
			Opt:      vrt.Options{Delay: true, HorizonNs: int64(14 * time.Hour)},
			Classify: deadlockIs("no-deadlock"),
			Main: func() {
				r := newE2ERig(newMemManager(), [][]byte{uidOf(0)}, nil)
				vrt.Go("cleaner", r.sta.UsedRandomCleaner) // sweeps 12 h from now
				vrt.Go("web", func() {
					for {
						wc, err := r.webL.Accept()
						if err != nil {
							return
						}
						vrt.Go("web-conn", func() {
							b := make([]byte, 4096)
							for {
								if _, err := wc.Read(b); err != nil {
									wc.Close()
									return
								}
							}
						})
					}
				})
				r.serve(4)
				before := []time.Duration{340, 352, 356, 361, 366, 400}[vrt.Choose(6, "first-presentation-before-sweep")] * time.Second
				a := []time.Duration{330, 345, 349, 351}[vrt.Choose(4, "replay-opened-after")] * time.Second
				d := []time.Duration{0, 5, 12, 14}[vrt.Choose(4, "rest-delayed-by")] * time.Second
				time.Sleep(12*time.Hour - before)
				captureLead = time.Duration(c.PI("lead", 170)) * time.Second
				hello := r.captureHello(uidOf(0), 5, "firefox")
				captureLead = 0
				answered := func(cn *vnet.Conn) bool {
					cn.SetReadDeadline(time.Now().Add(20 * time.Second))
					b := make([]byte, 16)
					k, _ := cn.Read(b)
					return k >= 3 && b[0] == 0x16 && b[1] == 0x03 && b[2] == 0x03
				}
				c1, _ := r.dialer.Dial("tcp", "server:443")
				t0 := time.Now()
				c1.Write(hello)
				if !answered(c1.(*vnet.Conn)) {
					vrt.Fail("harness", "the genuine handshake (client clock %v ahead) was not answered", time.Duration(c.PI("lead", 170))*time.Second)
				}
				c1.Close()
				time.Sleep(time.Until(t0.Add(a)))
				c2, _ := r.dialer.Dial("tcp", "server:443")
				c2.Write(hello[:1])
				time.Sleep(d)
				c2.Write(hello[1:])
				if answered(c2.(*vnet.Conn)) {
					vrt.Fail("accepted-at-most-once", "a handshake first presented %v before a clean-up of the replay cache was presented again on a connection opened %v later, its bytes arriving over %v: the second presentation was answered as a Cloak client", before, a, d)
				}
				c2.Close()
				vrt.Observe("refused")
			},
		}
		return vx.RunSched(c, sc, nil)
	}})
}
