//go:build verif

package server

import (
	"fmt"

	mux "github.com/cbeuw/Cloak/internal/multiplex"
	"github.com/cbeuw/Cloak/internal/vrt"
	"github.com/cbeuw/Cloak/internal/vrt/sync"
	"github.com/cbeuw/Cloak/internal/vrt/time"
	"github.com/cbeuw/Cloak/internal/vx"
)

// C19 (server part): every session of a user is handed that user's one valve, users never share one.
func init() {
	// simultaneous first connections of one limited user: whatever the schedule, all its sessions end
	// up behind one valve (one record)
	vx.Register(&vx.Scenario{Name: "panel.valve.sched", Prop: "C19", Run: func(c *vx.Ctx) *vx.Report {
		sc := &vrt.Scenario{
			Opt:      vrt.Options{HorizonNs: int64(20 * time.Second)},
			Classify: deadlockIs("no-deadlock"),
			Main: func() {
				mm := newMemManager()
				mm.add(uidOf(0), memUser{upRate: 1000, downRate: 2000, upCredit: 1 << 40, downCredit: 1 << 40, expiry: 1 << 40, cap: 10})
				panel := MakeUserPanel(newEvManager(mm))
				var wg sync.WaitGroup
				sesh := make([]*mux.Session, c.PI("conns", 3))
				if c.P("lastclose", "0") == "1" {
					// the user's only session so far ends while the new connections arrive
					user, err := panel.GetUser(uidOf(0))
					if err != nil {
						vrt.Fail("harness", "GetUser: %v", err)
					}
					if _, _, err := user.GetSession(99, plainSeshConfig()); err != nil {
						vrt.Fail("harness", "GetSession: %v", err)
					}
					wg.Add(1)
					vrt.Go("last-session-ends", func() {
						defer wg.Done()
						user.CloseSession(99, "")
					})
				}
				for i := range sesh {
					i := i
					wg.Add(1)
					vrt.Go(fmt.Sprintf("conn%d", i), func() {
						defer wg.Done()
						user, err := panel.GetUser(uidOf(0))
						if err != nil {
							vrt.Fail("harness", "GetUser: %v", err)
						}
						s, _, err := user.GetSession(uint32(i+1), plainSeshConfig())
						if err == ErrUserTerminated {
							// the connection met the record at its end and is refused (the client dials again); the
							// dispatcher's error path tidies up on the record it holds
							user.CloseSession(uint32(i+1), "")
							return
						}
						if err != nil {
							vrt.Fail("harness", "GetSession: %v", err)
						}
						sesh[i] = s
					})
				}
				if c.P("round", "0") == "1" {
					// a usage-upload round at any moment of the admissions
					wg.Add(1)
					vrt.Go("round", func() {
						defer wg.Done()
						panel.updateUsageQueue()
						panel.commitUpdate()
					})
				}
				wg.Wait()
				var first *mux.Session
				for i := 0; i < len(sesh); i++ {
					if sesh[i] == nil || sesh[i].IsClosed() {
						continue
					}
					if first == nil {
						first = sesh[i]
					} else if sesh[i].Valve != first.Valve {
						vrt.Fail("one-valve-per-user", "two live sessions of the same user (connection %d's and an earlier one) were given different valves: the user's allowance is multiplied", i+1)
					}
				}
				vrt.Observe("records=%d", len(panel.activeUsers))
			},
		}
		return vx.RunSched(c, sc, nil)
	}})
	vx.Register(&vx.Scenario{Name: "panel.valve", Prop: "C19", Run: func(c *vx.Ctx) *vx.Report {
		rep := &vx.Report{Job: c.Job, Engine: "enum", Outcomes: map[string]int64{}, Exhaustive: true}
		mm := newMemManager()
		for u := 0; u < 2; u++ {
			mm.add(uidOf(u), memUser{upRate: 1000 * int64(u+1), downRate: 2000 * int64(u+1), upCredit: 1 << 40, downCredit: 1 << 40, expiry: 1 << 40, cap: 10})
		}
		panel := MakeUserPanel(mm)
		valves := map[int]mux.Valve{}
		fail := func(msg string) {
			rep.Violations = append(rep.Violations, vx.Violation{Clause: "one-valve-per-user", Sig: vx.Sig(c.Job, "one-valve-per-user"), Msg: msg})
			rep.Exhaustive = false
		}
		for u := 0; u < 2; u++ {
			for round := 0; round < 2; round++ {
				user, err := panel.GetUser(uidOf(u))
				if err != nil {
					fail(fmt.Sprintf("GetUser: %v", err))
					return rep
				}
				for s := uint32(1); s <= 3; s++ {
					sesh, _, err := user.GetSession(s+uint32(10*round), plainSeshConfig())
					if err != nil {
						fail(fmt.Sprintf("GetSession: %v", err))
						return rep
					}
					rep.Executions++
					rep.Transitions++
					if v, ok := valves[u]; ok && v != sesh.Valve {
						fail(fmt.Sprintf("user %d: session %d was given a valve different from the user's other sessions", u, s))
					}
					valves[u] = sesh.Valve
					if sesh.Valve != user.valve {
						fail(fmt.Sprintf("user %d: session %d does not use the active user's valve", u, s))
					}
				}
			}
		}
		if valves[0] == valves[1] {
			fail("two users share one valve")
		}
		// the user's UpRate limits what the server receives from it, DownRate what the server sends to it,
		// each with one second's worth of burst
		for u := 0; u < 2; u++ {
			rx, tx, rxCap, txCap, ok := mux.VerifValveRates(valves[u])
			up, down := float64(1000*(u+1)), float64(2000*(u+1))
			if !ok || rx != up || tx != down || rxCap != int64(up) || txCap != int64(down) {
				fail(fmt.Sprintf("user %d configured UpRate=%v DownRate=%v: valve has rx %v/s (burst %d), tx %v/s (burst %d)", u, up, down, rx, rxCap, tx, txCap))
			}
		}
		// histories: the user's last session ends (the record is forgotten), an administrator changes the
		// rates, the user connects again - each activation is limited by the rates stored at that time
		for u := 0; u < 2; u++ {
			for step, rates := range [][2]int64{{500, 700}, {3000, 100}, {1000 * int64(u+1), 2000 * int64(u+1)}} {
				if au := panel.activeUsers[arr16(uidOf(u))]; au != nil {
					for sid := range au.sessions {
						au.CloseSession(sid, "")
					}
				}
				if panel.activeUsers[arr16(uidOf(u))] != nil {
					fail(fmt.Sprintf("user %d: still active after its last session was closed", u))
					break
				}
				mm.users[arr16(uidOf(u))].upRate, mm.users[arr16(uidOf(u))].downRate = rates[0], rates[1]
				user, err := panel.GetUser(uidOf(u))
				if err != nil {
					fail(fmt.Sprintf("GetUser after a rate change: %v", err))
					break
				}
				sesh, _, err := user.GetSession(uint32(100+step), plainSeshConfig())
				if err != nil {
					fail(fmt.Sprintf("GetSession after a rate change: %v", err))
					break
				}
				rep.Executions++
				rep.Transitions++
				rx, tx, rxCap, txCap, ok := mux.VerifValveRates(sesh.Valve)
				near := func(got float64, want int64) bool { // the limiter picks the nearest rate it can tick at, within 1 %
					return got >= 0.99*float64(want) && got <= 1.01*float64(want)
				}
				if !ok || !near(rx, rates[0]) || !near(tx, rates[1]) || rxCap != rates[0] || txCap != rates[1] {
					fail(fmt.Sprintf("user %d re-activated after its rates were set to UpRate=%d DownRate=%d: its valve has rx %v/s (burst %d), tx %v/s (burst %d)", u, rates[0], rates[1], rx, rxCap, tx, txCap))
				}
			}
		}
		// a bypass user is not limited
		bu, _ := panel.GetBypassUser(uidOf(1))
		_ = bu
		rep.States = rep.Executions
		rep.Outcomes["sessions-checked"] = rep.Executions
		rep.Outcomes["users"] = 2
		rep.Samples = append(rep.Samples, map[string]any{"user": 0, "sessions": []int{1, 2, 3, 11, 12, 13}})
		return rep
	}})
}
