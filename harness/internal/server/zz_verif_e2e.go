//go:build verif

package server

import (
	"bytes"
	"errors"
	"fmt"
	"net"
	rsync "sync"

	"github.com/cbeuw/Cloak/internal/client"
	"github.com/cbeuw/Cloak/internal/common"
	"github.com/cbeuw/Cloak/internal/ecdh"
	mux "github.com/cbeuw/Cloak/internal/multiplex"
	"github.com/cbeuw/Cloak/internal/server/usermanager"
	"github.com/cbeuw/Cloak/internal/vnet"
	"github.com/cbeuw/Cloak/internal/vrt"
	"github.com/cbeuw/Cloak/internal/vrt/crand"
	"github.com/cbeuw/Cloak/internal/vrt/time"
)

// e2eRig is a Cloak server State wired to the in-memory network: clients dial "server:443", the
// proxy method "shadowsocks" leads to listener "proxy:8388", the redirect target is "web:443".
type e2eRig struct {
	net      *vnet.Net
	sta      *State
	srvL     *vnet.Listener
	proxyL   *vnet.Listener
	webL     *vnet.Listener
	dialer   *vnet.Dialer
	pub      [32]byte
	adminUID []byte
	accepted int      // connections accepted so far, over all listeners of the rig
	cdnEdge  string   // how the in-process CDN edge treats traffic: "", pieces, lower (startCDN)
	cdnSNI   []string // server names seen by the in-process CDN edge (startCDN)
	// wrapAccepted, if set, may replace the i-th accepted connection (fault injection on the server's side of it)
	wrapAccepted func(i int, c net.Conn) net.Conn
}

// deafConn is a connection whose peer can no longer be written to: every Write fails, nothing else does.
type deafConn struct{ net.Conn }

func (d deafConn) Write(b []byte) (int, error) { return 0, errors.New("injected: write failed") }

type fixedReader struct{ b byte }

func (f fixedReader) Read(p []byte) (int, error) {
	for i := range p {
		p[i] = f.b + byte(i)
	}
	return len(p), nil
}

type tcpAddr struct{ s string }

func (a tcpAddr) Network() string { return "tcp" }
func (a tcpAddr) String() string  { return a.s }

func vWorld() common.WorldState { return common.WorldState{Rand: rand.Reader, Now: time.Now} }

func newE2ERig(mgr usermanager.UserManager, bypass [][]byte, adminUID []byte) *e2eRig {
	n := vnet.New()
	redirAddrs = nil
	r := &e2eRig{net: n, adminUID: adminUID}
	r.srvL = n.Listen("server:443", false)
	r.proxyL = n.Listen("proxy:8388", false)
	r.webL = n.Listen("web:443", false)
	r.dialer = &vnet.Dialer{N: n}
	pv, pub, _ := ecdh.GenerateKey(fixedReader{7})
	r.pub = *(pub.(*[32]byte))
	sta := &State{
		ProxyBook:   map[string]net.Addr{"shadowsocks": tcpAddr{"proxy:8388"}},
		ProxyDialer: r.dialer,
		WorldState:  vWorld(),
		AdminUID:    adminUID,
		BypassUID:   map[[16]byte]struct{}{},
		StaticPv:    pv,
		RedirHost:   &net.IPAddr{},
		RedirPort:   "443",
		RedirDialer: redirDialer{r.dialer},
		UsedRandom:  map[[32]byte]int64{},
	}
	for _, b := range bypass {
		sta.BypassUID[arr16(b)] = struct{}{}
	}
	if len(adminUID) != 0 {
		sta.BypassUID[arr16(adminUID)] = struct{}{}
	}
	if mgr != nil {
		sta.Panel = MakeUserPanel(mgr)
	}
	r.sta = sta
	return r
}

// redirDialer sends every redirect to the listener "web:443", whatever address Cloak computed.
type redirDialer struct{ d *vnet.Dialer }

// redirAddrs records the addresses Cloak asked the redirect dialer for (cleared by newE2ERig).
var redirAddrs []string
var redirAddrsM rsync.Mutex // free-running scenarios redirect from several goroutines

func (r redirDialer) Dial(network, address string) (net.Conn, error) {
	redirAddrsM.Lock()
	redirAddrs = append(redirAddrs, address)
	redirAddrsM.Unlock()
	return r.d.Dial("tcp", "web:443")
}

// clientCfg builds what ck-client would build from a configuration, through the client's own
// ProcessRawConfig (so that browser signature / transport / method names are parsed by real code).
func (r *e2eRig) clientCfg(uid []byte, sid uint32, method, browser, serverName string, numConn int, unordered bool, proxyMethod string) (client.RemoteConnConfig, client.AuthInfo) {
	raw := client.RawConfig{
		ServerName: serverName, ProxyMethod: proxyMethod, EncryptionMethod: method, UID: uid, PublicKey: r.pub[:],
		NumConn: numConn, LocalHost: "127.0.0.1", LocalPort: "1984", RemoteHost: "server", RemotePort: "443",
		UDP: unordered, BrowserSig: browser, Transport: "direct", StreamTimeout: 300,
	}
	_, remote, auth, err := raw.ProcessRawConfig(vWorld())
	if err != nil {
		panic(fmt.Sprintf("ProcessRawConfig: %v", err))
	}
	auth.SessionId = sid
	return remote, auth
}

// serve accepts n connections and dispatches each like Serve does.
func (r *e2eRig) serve(n int) {
	r.serveOn(r.srvL, n)
}

// serveOn runs the server's own accept loop (server.Serve) on a listener of the rig: at most n
// connections are handed to it, each passed through wrapAccepted first.
func (r *e2eRig) serveOn(l net.Listener, n int) {
	rl := &rigListener{r: r, l: l, n: n, never: make(chan struct{}, 1)}
	vrt.Go("srv-listener", func() { Serve(rl, r.sta) })
}

type rigListener struct {
	r     *e2eRig
	l     net.Listener
	n, i  int
	never chan struct{}
}

func (l *rigListener) Accept() (net.Conn, error) {
	for {
		if l.i >= l.n {
			vrt.Recv(l.never) // the rig takes no more connections
		}
		c, err := l.l.Accept()
		if err != nil {
			// (the accept loop would retry with growing pauses for ever)
			vrt.Recv(l.never)
		}
		i := l.r.accepted
		l.r.accepted++
		l.i++
		if l.r.wrapAccepted != nil {
			if c = l.r.wrapAccepted(i, c); c == nil {
				continue // the hook keeps the connection for itself
			}
		}
		return c, nil
	}
}
func (l *rigListener) Close() error   { return l.l.Close() }
func (l *rigListener) Addr() net.Addr { return l.l.Addr() }

// serveConn hands one already accepted connection to the server's accept loop.
func serveConn(name string, c net.Conn, sta *State) {
	vrt.Go(name, func() { Serve(&oneConnListener{c: c, never: make(chan struct{}, 1)}, sta) })
}

type oneConnListener struct {
	c     net.Conn
	never chan struct{}
}

func (l *oneConnListener) Accept() (net.Conn, error) {
	if c := l.c; c != nil {
		l.c = nil
		return c, nil
	}
	vrt.Recv(l.never)
	return nil, errors.New("closed")
}
func (l *oneConnListener) Close() error   { return nil }
func (l *oneConnListener) Addr() net.Addr { return tcpAddr{"one"} }

func sessionsOf(p *userPanel, uid []byte) map[uint32]*mux.Session {
	u := p.activeUsers[arr16(uid)]
	if u == nil {
		return nil
	}
	return u.sessions
}

var _ = bytes.Equal
