//go:build verif

package server

import (
	"bytes"
	"fmt"
	"github.com/cbeuw/Cloak/internal/vnet"
	"strings"

	"github.com/cbeuw/Cloak/internal/client"
	mux "github.com/cbeuw/Cloak/internal/multiplex"
	"github.com/cbeuw/Cloak/internal/vref"
	"github.com/cbeuw/Cloak/internal/vrt"
	"github.com/cbeuw/Cloak/internal/vrt/sync"
	"github.com/cbeuw/Cloak/internal/vrt/time"
	"github.com/cbeuw/Cloak/internal/vx"
)

// checkWire parses everything that crossed one client<->server connection with the independent
// parser and applies the clauses of C10.
func checkWire(r *e2eRig, pair string, serverName string) string {
	var c2s, s2c []byte
	for _, t := range r.net.Tap {
		if t.Conn != pair {
			continue
		}
		if t.Dir == "a>b" {
			c2s = append(c2s, t.Data...)
		} else {
			s2c = append(s2c, t.Data...)
		}
	}
	cr, err := vref.SplitRecords(c2s)
	if err != nil {
		return "client->server stream: " + err.Error()
	}
	sr, err := vref.SplitRecords(s2c)
	if err != nil {
		return "server->client stream: " + err.Error()
	}
	if len(cr) == 0 {
		return "nothing was sent by the client"
	}
	if cr[0].Type != 22 || cr[0].Version != 0x0301 {
		return fmt.Sprintf("first client record has type %d version %#04x, want 22 / 0x0301", cr[0].Type, cr[0].Version)
	}
	ch, err := vref.ParseHello(cr[0].Body)
	if err != nil {
		return "ClientHello: " + err.Error()
	}
	if ch.IsServer {
		return "the client's first message is not a ClientHello"
	}
	if len(ch.SessionID) != 32 {
		return fmt.Sprintf("ClientHello session id has %d bytes", len(ch.SessionID))
	}
	if k, ok := ch.KeyShares[0x001d]; !ok || len(k) != 32 {
		return fmt.Sprintf("ClientHello carries no 32-byte X25519 key share (groups %v)", groupsOf(ch.KeyShares))
	}
	if strings.EqualFold(serverName, "random") {
		if !vref.ValidHostname(ch.SNI) || !strings.Contains(ch.SNI, ".") {
			return fmt.Sprintf("randomly generated server name %q is not a valid host name", ch.SNI)
		}
	} else if ch.SNI != serverName {
		return fmt.Sprintf("ClientHello server name %q, configured %q", ch.SNI, serverName)
	}
	if len(sr) > 0 {
		if len(sr) < 3 {
			return fmt.Sprintf("the server's first flight has %d records, want ServerHello, ChangeCipherSpec, application data", len(sr))
		}
		if sr[0].Type != 22 || sr[0].Version != 0x0303 {
			return fmt.Sprintf("first server record has type %d version %#04x, want 22 / 0x0303", sr[0].Type, sr[0].Version)
		}
		sh, err := vref.ParseHello(sr[0].Body)
		if err != nil {
			return "ServerHello: " + err.Error()
		}
		if !sh.IsServer {
			return "the server's first message is not a ServerHello"
		}
		if !bytes.Equal(sh.SessionID, ch.SessionID) {
			return "ServerHello does not echo the ClientHello's session id"
		}
		if len(sh.SupportedVersions) != 1 || sh.SupportedVersions[0] != 0x0304 {
			return fmt.Sprintf("ServerHello supported_versions %v, want TLS 1.3", sh.SupportedVersions)
		}
		if k, ok := sh.KeyShares[0x001d]; !ok || len(k) != 32 {
			return "ServerHello carries no 32-byte X25519 key share"
		}
		if sr[1].Type != 20 || sr[1].Version != 0x0303 || len(sr[1].Body) != 1 || sr[1].Body[0] != 1 {
			return fmt.Sprintf("second server record is type %d version %#04x body % x, want ChangeCipherSpec", sr[1].Type, sr[1].Version, sr[1].Body)
		}
	}
	app := func(dir string, recs []vref.Record) string {
		for i, rec := range recs {
			if rec.Type != 23 || rec.Version != 0x0303 {
				return fmt.Sprintf("%s record %d has type %d version %#04x, want application data 23 / 0x0303", dir, i, rec.Type, rec.Version)
			}
			if len(rec.Body) < 1 || len(rec.Body) > 1<<14+256 {
				return fmt.Sprintf("%s record %d has length %d, outside 1..%d", dir, i, len(rec.Body), 1<<14+256)
			}
		}
		return ""
	}
	if m := app("client->server", cr[1:]); m != "" {
		return m
	}
	if len(sr) >= 2 {
		if m := app("server->client", sr[2:]); m != "" {
			return m
		}
	}
	return ""
}

func groupsOf(m map[uint16][]byte) []string {
	var g []string
	for k, v := range m {
		g = append(g, fmt.Sprintf("%#04x:%d", k, len(v)))
	}
	return g
}

// C10 driver: a full client session (client.MakeSession over NumConn connections) against the
// dispatcher, traffic, then one of several endings; every byte between them goes through checkWire.
func init() {
	vx.Register(&vx.Scenario{Name: "wire.tls", Prop: "C10", Run: func(c *vx.Ctx) *vx.Report {
		browser, method := c.P("browser", "chrome"), c.P("method", "plain")
		serverName := c.P("servername", "www.bing.com")
		numConn := c.PI("numconn", 2)
		ending := c.P("ending", "client-close")
		sizes := parseIntsC(c.P("sizes", "1,5000,40000"))
		var rig *e2eRig
		sc := &vrt.Scenario{
			Opt:      vrt.Options{Delay: c.P("delay", "1") == "1", HorizonNs: int64(300 * time.Second), RandInt: extremeDraws(c.P("draws", "prf")), MemVars: true, MemPoints: c.P("mem", "0") == "1"},
			Classify: deadlockIs("no-deadlock"),
			Main: func() {
				uid := uidOf(0)
				r := newE2ERig(newMemManager(), [][]byte{uid, uidOf(1)}, nil)
				rig = r
				// partial=<k>: on the first connection the client's k-th write (1 = the ClientHello) puts only its
				// first 100 bytes on the wire and fails with a timeout
				partialAt := c.PI("partial", 0)
				if partialAt > 0 {
					first := true
					r.dialer.OnDial = func(address string, cn *vnet.Conn) {
						if first && address == "server:443" {
							first = false
							cn.PartialAt, cn.PartialKeep = partialAt, 100
						}
					}
				}
				if c.P("second", "") != "" {
					r.serve(numConn + 1)
				} else {
					r.serve(numConn)
				}
				vrt.Go("proxy-echo", func() {
					for {
						pc, err := r.proxyL.Accept()
						if err != nil {
							return
						}
						vrt.Go("proxy-conn", func() {
							b := make([]byte, 65536)
							for {
								k, err := pc.Read(b)
								if k > 0 {
									pc.Write(b[:k])
								}
								if err != nil {
									pc.Close()
									return
								}
							}
						})
					}
				})
				cs := hsCase{Transport: "direct", Browser: browser, Method: method, ProxyMethod: "shadowsocks", SID: 21, ServerName: serverName, Unordered: c.P("unordered", "0") == "1"}
				remote, auth := r.clientCfgFor(cs, uid)
				remote.NumConn = numConn
				var sesh *mux.Session
				// second=<name>: another client in the same process, configured with another server name, connects
				// at the same time (one connection); each ClientHello must carry its own client's name
				second := c.P("second", "")
				var swg sync.WaitGroup
				if second != "" {
					swg.Add(1)
					vrt.Go("second-client", func() {
						defer swg.Done()
						cs2 := cs
						cs2.ServerName, cs2.SID = second, 22
						remote2, auth2 := r.clientCfgFor(cs2, uidOf(1)) // another user: its session's end must not touch the first client's
						remote2.NumConn = 1
						s2 := client.MakeSession(remote2, auth2, r.dialer)
						if st, err := s2.OpenStream(); err == nil {
							st.Write([]byte{7})
							st.Read(make([]byte, 4))
						}
						s2.Close()
					})
				}
				sesh = client.MakeSession(remote, auth, r.dialer)
				var wg sync.WaitGroup
				for i, sz := range sizes {
					i, sz := i, sz
					wg.Add(1)
					vrt.Go(fmt.Sprintf("app%d", i), func() {
						defer wg.Done()
						st, err := sesh.OpenStream()
						if err != nil {
							if partialAt > 0 {
								return // the injected fault may legitimately have torn the session down
							}
							vrt.Fail("traffic", "OpenStream: %v", err)
						}
						data := make([]byte, sz)
						for k := range data {
							data[k] = byte(k*7 + i)
						}
						if cs.Unordered && sz > 16000 {
							data = data[:16000]
						}
						if _, err := st.Write(data); err != nil {
							if partialAt > 0 {
								return
							}
							vrt.Fail("traffic", "Write: %v", err)
						}
						got := make([]byte, 0, len(data))
						buf := make([]byte, 20000)
						for len(got) < len(data) {
							k, err := st.Read(buf)
							if err != nil {
								if partialAt > 0 {
									return
								}
								vrt.Fail("traffic", "Read after %d/%d bytes: %v", len(got), len(data), err)
							}
							got = append(got, buf[:k]...)
						}
						if !bytes.Equal(got, data) {
							vrt.Fail("traffic", "echo differs")
						}
						st.Close()
					})
				}
				wg.Wait()
				switch ending {
				case "client-close":
					sesh.Close()
				case "server-close":
					if u := r.sta.Panel.activeUsers[arr16(uid)]; u != nil {
						u.CloseSession(21, "closed by the server")
					}
				case "inactivity":
					time.Sleep(40 * time.Second)
				}
				swg.Wait()
				quiesce()
				if second != "" {
					names := map[string]int{}
					for k := 1; k <= numConn+1; k++ {
						names[sniOnWire(r, fmt.Sprintf("server:443#%d", k))]++
					}
					if names[serverName] != numConn || names[second] != 1 {
						vrt.Fail("well-formed-tls-stream", "two clients configured with server names %q (%d connections) and %q (1 connection) connected at the same time; the ClientHellos on the wire carry %v", serverName, numConn, second, names)
					}
				} else if partialAt > 0 {
					// a write that failed half-way may leave a truncated record as the very last thing on its
					// connection; everything in front of it, and every other connection, is a well-formed record stream
					for k := 1; k <= numConn; k++ {
						if m := recordStreamWithTail(r, fmt.Sprintf("server:443#%d", k)); m != "" {
							vrt.Fail("well-formed-tls-stream", "connection %d (write %d of connection 1 timed out after 100 bytes): %s", k, partialAt, m)
						}
					}
				} else {
					for k := 1; k <= numConn; k++ {
						if m := checkWire(r, fmt.Sprintf("server:443#%d", k), serverName); m != "" {
							vrt.Fail("well-formed-tls-stream", "connection %d: %s", k, m)
						}
					}
				}
				recs := 0
				for _, t := range r.net.Tap {
					if strings.HasPrefix(t.Conn, "server:443#") {
						recs++
					}
				}
				vrt.Observe("writes=%d cliClosed=%v", recs, sesh.IsClosed())
			},
		}
		_ = rig
		return vx.RunSched(c, sc, nil)
	}})

	// wire.hellos: `clients` clients in one process, each configured with its own server name, send
	// their first flight at the same time (client Transport.Handshake against a peer that only records);
	// every connection's first flight is one well-formed ClientHello carrying that client's name. Small
	// enough for unbounded-choice exploration at the stated preemption bound, with recycling pools.
	vx.Register(&vx.Scenario{Name: "wire.hellos", Prop: "C10", Run: func(c *vx.Ctx) *vx.Report {
		n := c.PI("clients", 2)
		browser := c.P("browser", "firefox")
		sc := &vrt.Scenario{
			Opt:      vrt.Options{HorizonNs: int64(60 * time.Second)},
			Classify: deadlockIs("no-deadlock"),
			Main: func() {
				r := newE2ERig(nil, nil, nil)
				var wg sync.WaitGroup
				names := make([]string, n)
				first := make([][]byte, n)
				for i := 0; i < n; i++ {
					i := i
					names[i] = fmt.Sprintf("client%d.example.com", i)
					a, b := r.net.Pair(fmt.Sprintf("h%d", i), false)
					wg.Add(2)
					vrt.Go(fmt.Sprintf("client%d", i), func() {
						defer wg.Done()
						cs := hsCase{Transport: "direct", Browser: browser, Method: "plain", ProxyMethod: "shadowsocks", SID: uint32(30 + i), ServerName: names[i]}
						remote, auth := r.clientCfgFor(cs, uidOf(0))
						a.SetReadDeadline(time.Now().Add(5 * time.Second))
						remote.Transport.CreateTransport().Handshake(a, auth) // no reply will come: it ends on the deadline
					})
					vrt.Go(fmt.Sprintf("recorder%d", i), func() {
						defer wg.Done()
						buf := make([]byte, 4096)
						k, _ := b.Read(buf)
						first[i] = append([]byte{}, buf[:k]...)
						for b.Queued() > 0 {
							k, _ = b.Read(buf)
							first[i] = append(first[i], buf[:k]...)
						}
					})
				}
				wg.Wait()
				for i := 0; i < n; i++ {
					recs, err := vref.SplitRecords(first[i])
					if err != nil || len(recs) != 1 || recs[0].Type != 22 {
						vrt.Fail("well-formed-tls-stream", "client %d: the first flight is not exactly one handshake record (%d records, %v)", i, len(recs), err)
					}
					ch, err := vref.ParseHello(recs[0].Body)
					if err != nil || ch.IsServer {
						vrt.Fail("well-formed-tls-stream", "client %d: ClientHello: %v", i, err)
					}
					if ch.SNI != names[i] {
						vrt.Fail("well-formed-tls-stream", "client %d is configured with server name %q; the ClientHello on its connection carries %q", i, names[i], ch.SNI)
					}
					if len(ch.SessionID) != 32 {
						vrt.Fail("well-formed-tls-stream", "client %d: session id of %d bytes", i, len(ch.SessionID))
					}
				}
				vrt.Observe("hellos=%d", n)
			},
		}
		return vx.RunSched(c, sc, nil)
	}})

	// UDP mode through client.RouteUDP on loopback sockets (free-running): the datagram service behind
	// the server also sends empty datagrams; every record on the wire must still be well formed
	vx.Register(&vx.Scenario{Name: "wire.udp", Prop: "C10", Run: func(c *vx.Ctx) *vx.Report {
		rep := &vx.Report{Job: c.Job, Engine: "enum", Outcomes: map[string]int64{}, Exhaustive: true}
		for _, singleplex := range []bool{false, true} {
			for _, m := range []string{"plain", "aes-256-gcm", "chacha20-poly1305"} {
				for _, empty := range []bool{false, true} {
					msg, r := udpRouteRun(singleplex, m, 2, []int{1, 700}, "round-robin", empty)
					rep.Executions++
					if msg == "" && !empty {
						msg = ""
					}
					pairs := map[string]bool{}
					for _, t := range r.net.Tap {
						if strings.HasPrefix(t.Conn, "server:443#") {
							pairs[t.Conn] = true
							rep.Transitions++
						}
					}
					for pair := range pairs {
						if w := checkWire(r, pair, "example.com"); w != "" && msg == "" {
							msg = fmt.Sprintf("connection %s: %s", pair, w)
						}
					}
					if msg != "" {
						rep.Violations = append(rep.Violations, vx.Violation{Clause: "well-formed-tls-stream", Sig: vx.Sig(c.Job, "well-formed-tls-stream"), Msg: fmt.Sprintf("udp mode singleplex=%v method=%s empty-datagrams=%v: %s", singleplex, m, empty, msg)})
						rep.Exhaustive = false
					}
					rep.Outcomes[fmt.Sprintf("singleplex=%v empty=%v conns=%d", singleplex, empty, len(pairs))]++
				}
			}
		}
		rep.States = rep.Executions
		rep.Samples = append(rep.Samples, "RouteUDP -> unordered session -> datagram service answering with empty and non-empty datagrams")
		return rep
	}})

	vx.RegisterJobs("C10", func(tier string) []vx.Job {
		q := tier == "quick"
		var jobs []vx.Job
		add := func(bound int, kv ...string) {
			jobs = append(jobs, vx.Job{Scenario: "wire.tls", Params: vx.P(kv...), Bound: bound, BudgetS: map[bool]int{true: 100, false: 900}[q], Weight: 5})
		}
		for _, br := range []string{"chrome", "firefox", "safari"} {
			for _, m := range []string{"plain", "aes-256-gcm", "aes-128-gcm", "chacha20-poly1305"} {
				for _, end := range []string{"client-close", "server-close", "inactivity"} {
					add(0, "browser", br, "method", m, "ending", end)
				}
			}
			add(0, "browser", br, "servername", "random", "numconn", "1")
			add(0, "browser", br, "servername", strings.Repeat("a", 60)+".example.org", "unordered", "1")
			add(0, "browser", br, "sizes", "16132,16133,32265", "numconn", "3")
		}
		for _, d := range []string{"min", "max"} {
			for _, end := range []string{"client-close", "server-close"} {
				add(0, "browser", "firefox", "method", "aes-256-gcm", "ending", end, "draws", d, "sizes", "1,5000")
				add(0, "browser", "chrome", "method", "plain", "ending", end, "draws", d, "sizes", "1,5000")
			}
		}
		// full frames (a write larger than any frame) with the largest padding draws: the longest records a session produces
		add(0, "browser", "firefox", "method", "aes-256-gcm", "ending", "client-close", "draws", "max", "sizes", "20000,40000", "numconn", "1")
		add(0, "browser", "chrome", "method", "plain", "ending", "server-close", "draws", "max", "sizes", "20000", "numconn", "2")
		// concurrent handshakes with recycling pools: of one session's connections, and of two clients in one process
		add(map[bool]int{true: 1, false: 2}[q], "browser", "firefox", "sizes", "1", "numconn", "2", "ending", "client-close", "pool", "recycle")
		add(map[bool]int{true: 2, false: 3}[q], "browser", "firefox", "sizes", "1", "numconn", "1", "ending", "client-close", "pool", "recycle", "second", "other.example.net", "servername", "example.com")
		// the handshakes of one session's connections interleaved at every unsynchronised write as well
		add(map[bool]int{true: 1, false: 2}[q], "browser", "firefox", "sizes", "1", "numconn", "2", "ending", "client-close", "mem", "1")
		// a write that times out half-way (every write position of the first connection)
		for _, k := range []string{"2", "3", "4"} {
			add(map[bool]int{true: 0, false: 1}[q], "browser", "firefox", "sizes", "1,300", "numconn", "2", "ending", "client-close", "partial", k)
		}
		for _, br := range []string{"firefox", "chrome"} {
			jobs = append(jobs, vx.Job{Scenario: "wire.hellos", Params: vx.P("clients", "2", "browser", br, "pool", "recycle"), Bound: map[bool]int{true: 2, false: 3}[q], BudgetS: map[bool]int{true: 100, false: 900}[q], Weight: 4})
		}
		jobs = append(jobs, vx.Job{Scenario: "wire.udp", Weight: 6})
		jobs = append(jobs, vx.Job{Scenario: "wire.names", Weight: 1})
		jobs = append(jobs, vx.Job{Scenario: "wire.refused", Bound: 1, BudgetS: 100, Weight: 2})
		// a failed write on one connection followed by overlapping writers on others (recycling pools):
		// each Write still puts exactly its own record on the wire (shared with C05)
		jobs = append(jobs, vx.Job{Scenario: "tls.writefault2", Params: vx.P("pool", "recycle"), Bound: 2, BudgetS: 100, Weight: 5})
		add(map[bool]int{true: 1, false: 2}[q], "browser", "firefox", "sizes", "1", "numconn", "1", "ending", "client-close")
		add(map[bool]int{true: 1, false: 2}[q], "browser", "firefox", "sizes", "1", "numconn", "1", "ending", "server-close")
		return jobs
	})
}

// extremeDraws pins every small owned random draw (a single random byte, rand.Int below 2^16: padding
// lengths, menu indices) to its smallest or largest value; "prf" leaves them to the seeded PRF.
func extremeDraws(mode string) func(n int, tag string) int {
	switch mode {
	case "min":
		return func(n int, tag string) int {
			if n <= 1<<16 {
				return 0
			}
			return -1
		}
	case "max":
		return func(n int, tag string) int {
			if n <= 1<<16 {
				return n - 1
			}
			return -1
		}
	}
	return nil
}

// sniOnWire: the server name in the first record the client sent on that connection ("" if unparsable).
func sniOnWire(r *e2eRig, pair string) string {
	var c2s []byte
	for _, t := range r.net.Tap {
		if t.Conn == pair && t.Dir == "a>b" {
			c2s = append(c2s, t.Data...)
		}
	}
	cr, err := vref.SplitRecords(c2s)
	if err != nil || len(cr) == 0 {
		return ""
	}
	ch, err := vref.ParseHello(cr[0].Body)
	if err != nil {
		return ""
	}
	return ch.SNI
}

// recordStreamWithTail: the client->server bytes of a connection are TLS records (the first a handshake
// record, then application data of legal length), possibly followed by one incomplete record at the end.
func recordStreamWithTail(r *e2eRig, pair string) string {
	var b []byte
	for _, t := range r.net.Tap {
		if t.Conn == pair && t.Dir == "a>b" {
			b = append(b, t.Data...)
		}
	}
	off, n := 0, 0
	for off+5 <= len(b) {
		typ, ver, l := b[off], uint16(b[off+1])<<8|uint16(b[off+2]), int(b[off+3])<<8|int(b[off+4])
		if n == 0 {
			if typ != 22 {
				return fmt.Sprintf("first record has type %d", typ)
			}
		} else if typ != 23 || ver != 0x0303 || l == 0 || l > 16640 {
			return fmt.Sprintf("record %d at offset %d has type %d version %#04x length %d", n, off, typ, ver, l)
		}
		if off+5+l > len(b) {
			return "" // the incomplete record at the very end
		}
		off += 5 + l
		n++
	}
	return ""
}

func parseIntsC(s string) []int {
	var out []int
	for _, f := range strings.Split(s, ",") {
		var n int
		if _, err := fmt.Sscanf(f, "%d", &n); err == nil {
			out = append(out, n)
		}
	}
	return out
}
