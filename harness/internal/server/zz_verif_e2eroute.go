//go:build verif

package server

import (
	"bytes"
	"encoding/binary"
	"fmt"

	"github.com/cbeuw/Cloak/internal/client"
	"github.com/cbeuw/Cloak/internal/common"
	mux "github.com/cbeuw/Cloak/internal/multiplex"
	"github.com/cbeuw/Cloak/internal/vrt"
	"github.com/cbeuw/Cloak/internal/vrt/sync"
	"github.com/cbeuw/Cloak/internal/vrt/time"
	"github.com/cbeuw/Cloak/internal/vx"
)

// C01 driver (b): the whole path in one process - proxy client -> client.RouteTCP -> client.MakeSession
// (real handshakes over NumConn connections, TLSConn framing over byte-stream connections) ->
// dispatchConnection / serveSession -> proxy server, and back. The proxy server answers every chunk
// with the same bytes xor 0x55 so that both directions carry distinct data.
func init() {
	vx.Register(&vx.Scenario{Name: "e2e.route", Prop: "C01", Run: func(c *vx.Ctx) *vx.Report {
		numConn := c.PI("numconn", 2) // 0 = singleplex
		apps := c.PI("apps", 2)
		sizes := parseIntsC(c.P("sizes", "3,700"))
		method := c.P("method", "aes-256-gcm")
		closeBy := c.P("closeby", "app") // who ends each connection: the proxy client ("app") or the proxy server
		// forget=1: the proxy client writes and closes at once without waiting for an answer (a
		// fire-and-forget request); what it wrote must still reach the proxy server
		sc := &vrt.Scenario{
			Opt:      vrt.Options{Delay: c.P("delay", "1") == "1", HorizonNs: int64(200+(c.PI("rounds", 1)+c.PI("slowanswer", 0))*c.PI("gap", 100)) * int64(time.Second), MemVars: true, MemPoints: c.P("mem", "0") == "1"},
			Classify: deadlockIs("liveness: the tunnel stopped moving data on healthy connections"),
			Main: func() {
				uid := uidOf(0)
				r := newE2ERig(newMemManager(), [][]byte{uid}, nil)
				if n := c.PI("seg", 0); n > 0 {
					// up to n reads of any byte stream (tunnel connections and local sockets) are cut short
					r.net.SegChoice, r.net.SegBudget = true, n
				}
				r.serve(64)
				total := 0
				for _, s := range sizes {
					total += s
				}
				var pwg sync.WaitGroup
				proxySawEOF := 0
				forget := c.P("forget", "0") == "1"
				rounds, gap := c.PI("rounds", 1), c.PI("gap", 100)
				slow := c.PI("slowanswer", 0)
				proxyGot := map[byte]int{}
				vrt.Go("proxy-server", func() {
					for {
						pc, err := r.proxyL.Accept()
						if err != nil {
							return
						}
						pwg.Add(1)
						vrt.Go("proxy-conn", func() {
							defer pwg.Done()
							b := make([]byte, 65536)
							got := 0
							for {
								k, err := pc.Read(b)
								if k > 0 {
									proxyGot[b[0]>>6] += k
								}
								for i := 0; i < k; i++ {
									b[i] ^= 0x55
								}
								if k > 0 && slow > 1 {
									// a download: the answer trickles back in `slow` pieces, `gap` seconds apart, while the
									// proxy client sends nothing more (one-way traffic for longer than any stream timeout)
									for p := 0; p < slow; p++ {
										if p > 0 {
											time.Sleep(time.Duration(gap) * time.Second)
										}
										pc.Write(b[p*k/slow : (p+1)*k/slow])
									}
									got += k
								} else if k > 0 {
									if !forget { // an answer to a peer that has already gone is a reset in TCP, which may discard what it wrote
										pc.Write(b[:k])
									}
									got += k
								}
								if closeBy == "proxy" && got >= total {
									pc.Close()
									return
								}
								if err != nil {
									proxySawEOF++
									pc.Close()
									return
								}
							}
						})
					}
				})
				cs := hsCase{Transport: "direct", Browser: "firefox", Method: method, ProxyMethod: "shadowsocks", SID: 1, ServerName: "example.com"}
				remote, auth := r.clientCfgFor(cs, uid)
				singleplex := numConn <= 0
				if !singleplex {
					remote.NumConn = numConn
				}
				remote.Singleplex = singleplex
				seshMaker := func() *mux.Session {
					a := auth
					quad := make([]byte, 4)
					common.RandRead(a.WorldState.Rand, quad)
					a.SessionId = binary.BigEndian.Uint32(quad)
					return client.MakeSession(remote, a, r.dialer)
				}
				local := r.net.Listen("local:1984", false)
				vrt.Go("RouteTCP", func() { client.RouteTCP(local, 300*time.Second, singleplex, seshMaker) })
				var wg sync.WaitGroup
				for i := 0; i < apps; i++ {
					i := i
					wg.Add(1)
					vrt.Go(fmt.Sprintf("proxy-client%d", i), func() {
						defer wg.Done()
						conn, err := r.dialer.Dial("tcp", "local:1984")
						if err != nil {
							vrt.Fail("harness", "dial local: %v", err)
						}
						var sent, got []byte
						buf := make([]byte, 65536)
						for round := 0; round < rounds; round++ {
							if round > 0 {
								// a long-lived, regularly used connection: the next request comes `gap` seconds later
								time.Sleep(time.Duration(gap) * time.Second)
							}
							sent, got = nil, nil
							for k, sz := range sizes {
								chunk := make([]byte, sz)
								for j := range chunk {
									chunk[j] = byte(i*64 + k*16 + j)
								}
								if _, err := conn.Write(chunk); err != nil {
									vrt.Fail("no-error-on-healthy-session", "proxy client %d write: %v", i, err)
								}
								sent = append(sent, chunk...)
							}
							if forget {
								conn.Close()
								return
							}
							for len(got) < len(sent) {
								k, err := conn.Read(buf)
								got = append(got, buf[:k]...)
								if err != nil {
									vrt.Fail("bytes-exact", "proxy client %d, request %d (%d s after connecting): connection ended (%v) after %d of %d answer bytes", i, round, round*gap, err, len(got), len(sent))
								}
							}
							want := make([]byte, len(sent))
							for j := range sent {
								want[j] = sent[j] ^ 0x55
							}
							if !bytes.Equal(got, want) {
								vrt.Fail("bytes-exact", "proxy client %d: the answer differs from what the proxy server sent (first difference at %d of %d)", i, firstDiff(got, want), len(want))
							}
						}
						if closeBy == "app" {
							conn.Close()
						} else {
							// the proxy server closes: the proxy client must see the end of its connection
							k, err := conn.Read(buf)
							if err == nil {
								vrt.Fail("close-propagates", "proxy client %d read %d more bytes after the complete answer", i, k)
							}
						}
					})
				}
				wg.Wait()
				// closing one end is carried to the other end of the tunnel
				pwg.Wait()
				if forget {
					time.Sleep(10 * time.Second) // let every relay run dry (well below the inactivity timeout)
					pwg.Wait()
					for i := 0; i < apps; i++ {
						if proxyGot[byte(i)] != total {
							vrt.Fail("bytes-exact", "proxy client %d wrote %d bytes and closed; the proxy server received %d of them", i, total, proxyGot[byte(i)])
						}
					}
				}
				vrt.Observe("apps=%d eof=%d", apps, proxySawEOF)
			},
		}
		return vx.RunSched(c, sc, nil)
	}})
}
