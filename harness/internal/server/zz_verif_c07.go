//go:build verif

package server

import (
	"bytes"
	"encoding/base64"
	"fmt"
	"math"
	"net"
	"strings"
	rtime "time"

	"github.com/cbeuw/Cloak/internal/common"
	"github.com/cbeuw/Cloak/internal/ecdh"
	mux "github.com/cbeuw/Cloak/internal/multiplex"
	"github.com/cbeuw/Cloak/internal/server/usermanager"
	"github.com/cbeuw/Cloak/internal/vrt"
	"github.com/cbeuw/Cloak/internal/vrt/time"
	"github.com/cbeuw/Cloak/internal/vx"
)

// captureFirst returns the first packet the Cloak server would see for this client configuration
// (direct: the ClientHello record; cdn: the HTTP GET behind the TLS terminator). Free-running.
func captureFirst(cs hsCase, uid []byte) (first []byte, r *e2eRig) {
	// no user panel: nothing started here may outlive the capture (a later scheduled exploration in the
	// same process must be the only thing running)
	r = newE2ERig(nil, [][]byte{uid}, nil)
	if cs.Transport == "cdn" {
		r.startCDN(1)
	}
	remote, auth := r.clientCfgFor(cs, uid)
	conn, err := r.dialer.Dial("tcp", remote.RemoteAddr)
	if err != nil {
		panic(err)
	}
	hsDone := make(chan struct{})
	go func() {
		defer close(hsDone)
		tr := remote.Transport.CreateTransport()
		tr.Handshake(conn, auth)
	}()
	defer func() { <-hsDone }()
	c, err := r.srvL.Accept()
	if err != nil {
		panic(err)
	}
	buf := make([]byte, firstPacketSize)
	n, tr, _, err := readFirstPacket(c, buf, 5*time.Second)
	if err != nil || tr == nil {
		panic(fmt.Sprintf("capture: %v", err))
	}
	c.Close()
	conn.Close()
	return append([]byte{}, buf[:n]...), r
}

func hiddenOf(req []byte) []byte {
	i := bytes.Index(bytes.ToLower(req), []byte("hidden: "))
	if i < 0 {
		return nil
	}
	j := bytes.Index(req[i+8:], []byte("\r\n"))
	if j < 0 {
		return nil
	}
	d, _ := base64.StdEncoding.DecodeString(string(req[i+8 : i+8+j]))
	return d
}

func transportOf(name string) Transport {
	if name == "cdn" {
		return WebSocket{}
	}
	return TLS{}
}

func sameCI(a, b ClientInfo) bool {
	return bytes.Equal(a.UID, b.UID) && a.SessionId == b.SessionId && a.ProxyMethod == b.ProxyMethod && a.EncryptionMethod == b.EncryptionMethod && a.Unordered == b.Unordered
}

func init() {
	// (i) every single-bit modification of a valid first packet
	vx.Register(&vx.Scenario{Name: "auth.bitflips", Prop: "C07", Run: func(c *vx.Ctx) *vx.Report {
		rep := &vx.Report{Job: c.Job, Engine: "enum", Outcomes: map[string]int64{}, Exhaustive: true}
		cs := hsCase{Transport: c.P("transport", "direct"), Browser: c.P("browser", "firefox"), Method: "aes-256-gcm", ProxyMethod: "shadowsocks", SID: 77, ServerName: "example.com", Unordered: true}
		uid := uidOf(0)
		vrt.SeedPlainRand(c.Seed)
		first, r := captureFirst(cs, uid)
		vrt.UnseedPlainRand()
		tr := transportOf(cs.Transport)
		auth := func(pkt []byte) (ClientInfo, error) {
			sta := &State{StaticPv: r.sta.StaticPv, UsedRandom: map[[32]byte]int64{}, WorldState: common.WorldState{Now: rtime.Now}}
			ci, _, err := AuthFirstPacket(pkt, tr, sta)
			return ci, err
		}
		orig, err := auth(first)
		if err != nil {
			rep.HarnessError = "the captured packet does not authenticate: " + err.Error()
			return rep
		}
		// where the authenticated material sits: ephemeral key, and the 64-byte sealed block
		protected := map[int]string{}
		mark := func(field []byte, name string) {
			i := bytes.Index(first, field)
			if i < 0 || bytes.Index(first[i+1:], field) >= 0 {
				rep.HarnessError = "cannot locate " + name + " uniquely in the packet"
				return
			}
			for k := range field {
				protected[i+k] = name
			}
		}
		if cs.Transport == "direct" {
			ch, err := parseClientHello(first)
			if err != nil {
				rep.HarnessError = err.Error()
				return rep
			}
			ks, _ := parseKeyShare(ch.extensions[[2]byte{0x00, 0x33}])
			mark(ch.random, "ephemeral-key")
			mark(ch.sessionId, "sealed-block")
			mark(ks, "sealed-block")
		} else {
			// the base64 text of the hidden header: every character carries authenticated bits
			i := bytes.Index(bytes.ToLower(first), []byte("hidden: "))
			j := i + 8 + bytes.Index(first[i+8:], []byte("\r\n"))
			for k := i + 8; k < j; k++ {
				protected[k] = "hidden-header"
			}
		}
		if rep.HarnessError != "" {
			return rep
		}
		pairs := c.P("pairs", "0") == "1"
		check := func(mod []byte, what string, touchesProtected bool, desc string) bool {
			var ci ClientInfo
			var err error
			if p := catch(func() { ci, err = auth(mod) }); p != "" {
				rep.Violations = append(rep.Violations, vx.Violation{Clause: "no-panic", Sig: vx.Sig(c.Job, "no-panic"), Msg: desc + ": " + p})
				return false
			}
			rep.Executions++
			rep.Transitions++
			if err != nil {
				rep.Outcomes["rejected"]++
				return true
			}
			rep.Outcomes["accepted:"+what]++
			if !sameCI(ci, orig) {
				rep.Violations = append(rep.Violations, vx.Violation{Clause: "accepted-only-unmodified", Sig: vx.Sig(c.Job, "accepted-only-unmodified"), Msg: fmt.Sprintf("%s: accepted with different identity fields: %+v vs %+v", desc, ci, orig)})
				return false
			}
			if touchesProtected {
				rep.Violations = append(rep.Violations, vx.Violation{Clause: "accepted-only-unmodified", Sig: vx.Sig(c.Job, "accepted-only-unmodified") + ":" + what, Msg: fmt.Sprintf("%s: a packet with modified %s was accepted", desc, what)})
				return false
			}
			return true
		}
		if !pairs {
			for bit := 0; bit < len(first)*8; bit++ {
				mod := append([]byte{}, first...)
				mod[bit/8] ^= 1 << (bit % 8)
				what, prot := protected[bit/8]
				// bit 255 of the X25519 key does not change the key: its replay consequence is C08's
				if what == "ephemeral-key" && cs.Transport == "direct" {
					i := bytes.Index(first, func() []byte { ch, _ := parseClientHello(first); return ch.random }())
					if bit == (i+31)*8+7 {
						prot = false
						what = "key-bit-255"
					}
				}
				if prot && cs.Transport == "cdn" {
					// a flipped base64 character that only toggles bit 255 of the ephemeral key (void for
					// X25519) leaves the authenticated material unchanged: its replay consequence is C08's
					if hd, ho := hiddenOf(mod), hiddenOf(first); len(hd) == len(ho) && len(hd) >= 32 {
						hd[31] ^= 0x80
						if bytes.Equal(hd, ho) {
							prot, what = false, "key-bit-255"
						}
					}
				}
				if !prot {
					if what == "" {
						what = "outside-authenticated-fields"
					}
				}
				if !check(mod, what, prot, fmt.Sprintf("bit %d (byte %d) flipped", bit, bit/8)) {
					break
				}
			}
		} else {
			var bits []int
			for b := 0; b < len(first)*8; b++ {
				if _, ok := protected[b/8]; ok {
					bits = append(bits, b)
				}
			}
		outer:
			for i := 0; i < len(bits); i++ {
				for j := i + 1; j < len(bits); j++ {
					mod := append([]byte{}, first...)
					mod[bits[i]/8] ^= 1 << (bits[i] % 8)
					mod[bits[j]/8] ^= 1 << (bits[j] % 8)
					prot, what := true, protected[bits[i]/8]
					if cs.Transport == "cdn" {
						// two flipped bits of one base64 character ('/' <-> '7') can toggle exactly bit 255 of
						// the ephemeral key and nothing else: the same void bit as in the single-flip sweep
						if hd, ho := hiddenOf(mod), hiddenOf(first); len(hd) == len(ho) && len(hd) >= 32 {
							hd[31] ^= 0x80
							if bytes.Equal(hd, ho) {
								prot, what = false, "key-bit-255"
							}
						}
					}
					if !check(mod, what, prot, fmt.Sprintf("bits %d and %d flipped", bits[i], bits[j])) {
						break outer
					}
				}
			}
		}
		if len(rep.Violations) > 0 {
			rep.Exhaustive = false
		}
		rep.States = rep.Executions
		rep.Samples = append(rep.Samples, map[string]any{"packet_bytes": len(first), "authenticated_bytes": len(protected), "transport": cs.Transport, "browser": cs.Browser})
		return rep
	}})

	// (ii) the timestamp window, every second around both edges, server clock with and without a
	// sub-second part
	vx.Register(&vx.Scenario{Name: "auth.window", Prop: "C07", Run: func(c *vx.Ctx) *vx.Report {
		rep := &vx.Report{Job: c.Job, Engine: "enum", Outcomes: map[string]int64{}, Exhaustive: true}
		cs := hsCase{Transport: c.P("transport", "direct"), Browser: "firefox", Method: "plain", ProxyMethod: "shadowsocks", SID: 3, ServerName: "example.com"}
		uid := uidOf(0)
		// the client's clock is frozen at a known second while it builds the packet (reading the real clock
		// after the capture would make the edge cases depend on when a second boundary falls)
		stamp := rtime.Now().Unix()
		cs.UseAbsClock, cs.AbsClock = true, stamp
		first, r := captureFirst(cs, uid)
		cs.UseAbsClock = false
		tr := transportOf(cs.Transport)
		for _, sub := range []rtime.Duration{0, 500 * rtime.Millisecond} {
			for off := -185; off <= 185; off++ {
				server := rtime.Unix(stamp, 0).Add(rtime.Duration(-off)*rtime.Second + sub)
				sta := &State{StaticPv: r.sta.StaticPv, UsedRandom: map[[32]byte]int64{}, WorldState: common.WorldState{Now: func() rtime.Time { return server }}}
				_, _, err := AuthFirstPacket(first, tr, sta)
				rep.Executions++
				rep.Transitions++
				// client time minus server time, in seconds, exactly
				delta := float64(off) - sub.Seconds()
				want := delta > -180 && delta < 180
				got := err == nil
				if got != want {
					rep.Outcomes["mismatch"]++
					rep.Violations = append(rep.Violations, vx.Violation{Clause: "strict-timestamp-window", Sig: vx.Sig(c.Job, "strict-timestamp-window"), Msg: fmt.Sprintf("client clock %+d s, server sub-second %v: accepted=%v, the strict +-180 s window says %v (err %v)", off, sub, got, want, err)})
				}
				rep.Outcomes[fmt.Sprintf("accepted=%v", got)]++
			}
		}
		// far-away and extreme timestamps: the client's clock is set to each of them, a fresh packet is
		// captured, and the server (on the real clock) must treat it as outside the window
		for _, ts := range []int64{0, 1, -1, stamp - 86400*365, stamp + 86400*365, stamp - 86400*365*291, stamp - 86400*365*293, stamp - 86400*365*1000, stamp + 86400*365*293,
			math.MaxInt64, math.MinInt64, math.MaxInt64 - 1, math.MinInt64 + 1, 1 << 62, -(1 << 62), math.MaxInt32, math.MinInt32, int64(math.MaxUint32),
			// the same reading of the clock in another 2^32-second (136-year) or 2^16 / 2^48-second epoch: equal low bits, different timestamp
			stamp + 1<<32, stamp - 1<<32, stamp + 2<<32, stamp - 3<<32, stamp + 1<<48, stamp - 1<<48, stamp + 1<<16, stamp - 1<<16, stamp + 1<<31, stamp + 1<<40, stamp ^ (1 << 35)} {
			cs2 := cs
			cs2.AbsClock = ts
			cs2.UseAbsClock = true
			pkt, r2 := captureFirst(cs2, uid)
			sta := &State{StaticPv: r2.sta.StaticPv, UsedRandom: map[[32]byte]int64{}, WorldState: common.WorldState{Now: rtime.Now}}
			_, _, err := AuthFirstPacket(pkt, tr, sta)
			rep.Executions++
			rep.Transitions++
			if err == nil {
				rep.Violations = append(rep.Violations, vx.Violation{Clause: "strict-timestamp-window", Sig: vx.Sig(c.Job, "strict-timestamp-window"), Msg: fmt.Sprintf("a packet stamped %d (server time %d) was accepted", ts, rtime.Now().Unix())})
			}
			rep.Outcomes[fmt.Sprintf("extreme-accepted=%v", err == nil)]++
		}
		if n := len(rep.Violations); n > 0 {
			rep.Exhaustive = false
			rep.Violations = rep.Violations[:1]
		}
		rep.States = rep.Executions
		rep.Samples = append(rep.Samples, map[string]any{"offsets": "-185..185 s", "server_subsecond": []string{"0", "0.5s"}})
		return rep
	}})

	// (iii) who is answered: user record x bypass x proxy method x admin x server key x transport,
	// through the whole dispatcher
	vx.Register(&vx.Scenario{Name: "auth.matrix", Prop: "C07", Run: func(c *vx.Ctx) *vx.Report {
		rep := &vx.Report{Job: c.Job, Engine: "enum", Outcomes: map[string]int64{}, Exhaustive: true}
		transport := c.P("transport", "direct")
		records := []string{"absent", "ok", "upcredit0", "downcredit0", "negative", "expired", "expires-soon", "expires-later"}
		for _, rec := range records {
			for _, bypass := range []bool{false, true} {
				for _, pm := range []string{"shadowsocks", "unknown", "Shadowsocks"} {
					for _, adm := range []string{"admin-sid0", "admin-sidN", "other-sid0", "no-admin"} {
						for _, goodKey := range []bool{true, false} {
							uid := uidOf(0)
							adminUID := uidOf(1)
							sid := uint32(9)
							switch adm {
							case "admin-sid0":
								uid, sid = adminUID, 0
							case "admin-sidN":
								uid = adminUID
							case "other-sid0":
								sid = 0
							case "no-admin":
								adminUID = nil
							}
							mgr := freshBoltManagerPlain()
							now := rtime.Now().Unix() // per case: "soon" is relative to when this case runs
							info := usermanager.UserInfo{UID: uidOf(0), SessionsCap: i32(5), UpRate: i64(1 << 30), DownRate: i64(1 << 30), UpCredit: i64(1000), DownCredit: i64(1000), ExpiryTime: i64(now + 86400)}
							switch rec {
							case "upcredit0":
								info.UpCredit = i64(0)
							case "downcredit0":
								info.DownCredit = i64(0)
							case "negative":
								info.UpCredit = i64(-5)
							case "expired":
								info.ExpiryTime = i64(now - 10)
							case "expires-soon":
								info.ExpiryTime = i64(now + 45) // near, yet far enough that a loaded machine does not reach it within one case
							}
							if rec != "absent" {
								mgr.WriteUserInfo(info)
							}
							var bp [][]byte
							if bypass {
								bp = append(bp, uidOf(0))
							}
							r := newE2ERig(mgr, bp, adminUID)
							r.sta.WorldState = common.WorldState{Rand: vWorld().Rand, Now: rtime.Now}
							if !goodKey {
								_, pub, _ := ecdh.GenerateKey(fixedReader{99})
								r.pub = *(pub.(*[32]byte)) // the client encrypts to a key the server does not hold
							}
							if transport == "cdn" {
								r.startCDN(1)
							}
							r.serve(1)
							webGot := make(chan []byte, 1)
							go func() {
								wc, err := r.webL.Accept()
								if err != nil {
									return
								}
								b := make([]byte, 4096)
								k, _ := wc.Read(b)
								wc.Write([]byte("WEB-ANSWER"))
								webGot <- b[:k]
								wc.Close()
							}()
							cs := hsCase{Transport: transport, Browser: "firefox", Method: "plain", ProxyMethod: pm, SID: sid, ServerName: "example.com"}
							remote, auth := r.clientCfgFor(cs, uid)
							conn, _ := r.dialer.Dial("tcp", remote.RemoteAddr)
							conn.SetReadDeadline(rtime.Now().Add(30 * rtime.Second))
							trc := remote.Transport.CreateTransport()
							key, herr := trc.Handshake(conn, auth)
							answered := herr == nil
							reached := ""
							if answered {
								// where does a stream of this session lead: the admin API or the proxy?
								proxyHit := make(chan struct{}, 1)
								go func() {
									pc, err := r.proxyL.Accept()
									if err == nil {
										proxyHit <- struct{}{}
										pc.Close()
									}
								}()
								o, _ := mux.MakeObfuscator(mux.EncryptionMethodPlain, key)
								cli := mux.MakeSession(sid, mux.SessionConfig{Obfuscator: o, MsgOnWireSizeLimit: 16401})
								conn.SetReadDeadline(rtime.Now().Add(30 * rtime.Second))
								cli.AddConnection(trc)
								if st, err := cli.OpenStream(); err == nil {
									st.Write([]byte("GET /admin/users HTTP/1.1\r\nHost: api\r\n\r\n"))
									st.SetReadDeadline(rtime.Now().Add(30 * rtime.Second))
									b := make([]byte, 64)
									k, _ := st.Read(b)
									switch {
									case strings.HasPrefix(string(b[:k]), "HTTP/1.1 200"):
										reached = "api"
									default:
										select {
										case <-proxyHit:
											reached = "proxy"
										case <-rtime.After(30 * rtime.Second):
											reached = "nothing"
										}
									}
								}
								cli.Close()
							}
							// expectation
							isAdmin := adminUID != nil && bytes.Equal(uid, adminUID)
							userOK := rec == "ok" || rec == "expires-soon" || rec == "expires-later"
							var want string
							switch {
							case !goodKey:
								want = "redirect"
							case isAdmin && sid == 0:
								want = "answer" // admin session (API)
							case pm != "shadowsocks":
								want = "redirect"
							case isAdmin: // admin UID is always in the bypass list
								want = "answer"
							case bypass || userOK:
								want = "answer"
							default:
								want = "redirect"
							}
							got := "redirect"
							if answered {
								got = "answer"
							}
							rep.Executions++
							rep.Transitions++
							desc := fmt.Sprintf("record=%s bypass=%v method=%s %s key-ok=%v transport=%s", rec, bypass, pm, adm, goodKey, transport)
							msg := ""
							if got != want {
								msg = fmt.Sprintf("%s: the client was given %s, expected %s (handshake error: %v)", desc, got, want, herr)
							}
							if msg == "" && answered {
								wantReach := "proxy"
								if isAdmin && sid == 0 {
									wantReach = "api"
								}
								if reached != wantReach {
									msg = fmt.Sprintf("%s: a stream of the session reaches %q, expected %q (the API is for the admin UID with session id 0 only)", desc, reached, wantReach)
								}
							}
							if want == "redirect" && msg == "" && transport == "direct" {
								// the redirect target must have seen the client's first bytes, and nothing of Cloak's own went to the client
								select {
								case fw := <-webGot:
									if len(fw) < 5 || fw[0] != 0x16 {
										msg = fmt.Sprintf("%s: the redirect target received % x...", desc, fw[:min(len(fw), 8)])
									}
								case <-rtime.After(30 * rtime.Second):
									msg = desc + ": the connection was neither answered nor relayed to the redirect target"
								}
							}
							mgr.Close()
							conn.Close()
							rep.Outcomes[want]++
							if msg != "" {
								rep.Violations = append(rep.Violations, vx.Violation{Clause: "only-authorised-clients-answered", Sig: vx.Sig(c.Job, "only-authorised-clients-answered"), Msg: msg})
								rep.Exhaustive = false
								if len(rep.Violations) >= 3 {
									rep.States = rep.Executions
									return rep
								}
							}
						}
					}
				}
			}
		}
		rep.States = rep.Executions
		rep.Samples = append(rep.Samples, map[string]any{"records": records, "proxy_methods": []string{"shadowsocks", "unknown", "Shadowsocks"}, "admin": []string{"admin-sid0", "admin-sidN", "other-sid0", "no-admin"}})
		return rep
	}})

	// auth.second: the same gate for a first packet that arrives while its user already holds a session -
	// with that session's id or a new one. Every requirement still applies to each connection: an
	// unknown proxy method, a wrong key, a stale timestamp or a foreign UID is web traffic even when the
	// session id it names exists.
	vx.Register(&vx.Scenario{Name: "auth.second", Prop: "C07", Run: func(c *vx.Ctx) *vx.Report {
		rep := &vx.Report{Job: c.Job, Engine: "enum", Outcomes: map[string]int64{}, Exhaustive: true}
		transport := c.P("transport", "direct")
		now := rtime.Now().Unix()
		type second struct {
			name    string
			uid     int
			sid     uint32
			pm      string
			goodKey bool
			offset  int
			want    string
		}
		var seconds []second
		for _, sid := range []uint32{9, 10} {
			// the server also serves a method called "ss": names that merely contain it are not it
			for _, pm := range []string{"shadowsocks", "unknown", "Shadowsocks", "ss", "ss\x00x", "ss\x00shadowsoc", "s", "sss"} {
				w := "redirect"
				if pm == "shadowsocks" || pm == "ss" {
					w = "answer"
				}
				seconds = append(seconds, second{fmt.Sprintf("sid=%d method=%q", sid, pm), 0, sid, pm, true, 0, w})
			}
			seconds = append(seconds,
				second{fmt.Sprintf("sid=%d wrong-key", sid), 0, sid, "shadowsocks", false, 0, "redirect"},
				second{fmt.Sprintf("sid=%d stale-timestamp", sid), 0, sid, "shadowsocks", true, -181, "redirect"},
				second{fmt.Sprintf("sid=%d future-timestamp", sid), 0, sid, "shadowsocks", true, 181, "redirect"},
				second{fmt.Sprintf("sid=%d foreign-uid", sid), 2, sid, "shadowsocks", true, 0, "redirect"})
		}
		for _, bypass := range []bool{false, true} {
			for _, sc := range seconds {
				mgr := freshBoltManagerPlain()
				mgr.WriteUserInfo(usermanager.UserInfo{UID: uidOf(0), SessionsCap: i32(5), UpRate: i64(1 << 30), DownRate: i64(1 << 30), UpCredit: i64(1000), DownCredit: i64(1000), ExpiryTime: i64(now + 86400)})
				var bp [][]byte
				if bypass {
					bp = append(bp, uidOf(0))
				}
				r := newE2ERig(mgr, bp, nil)
				// both clocks are frozen for the case: a timestamp one second outside the window stays outside it
				// however long a loaded machine takes between the client's stamp and the server's check
				t0 := rtime.Now()
				r.sta.WorldState = common.WorldState{Rand: vWorld().Rand, Now: func() rtime.Time { return t0 }}
				r.sta.ProxyBook["ss"] = tcpAddr{"proxy:8388"}
				if transport == "cdn" {
					r.startCDN(2)
				}
				r.serve(2)
				webGot := make(chan []byte, 2)
				go func() {
					for {
						wc, err := r.webL.Accept()
						if err != nil {
							return
						}
						b := make([]byte, 4096)
						k, _ := wc.Read(b)
						wc.Write([]byte("WEB-ANSWER"))
						webGot <- b[:k]
						wc.Close()
					}
				}()
				desc := fmt.Sprintf("user holds session 9; then %s (bypass=%v, transport=%s)", sc.name, bypass, transport)
				msg := ""
				// the session the user already holds
				cs0 := hsCase{Transport: transport, Browser: "firefox", Method: "plain", ProxyMethod: "shadowsocks", SID: 9, ServerName: "example.com", UseAbsClock: true, AbsClock: t0.Unix()}
				remote0, auth0 := r.clientCfgFor(cs0, uidOf(0))
				conn0, _ := r.dialer.Dial("tcp", remote0.RemoteAddr)
				conn0.SetReadDeadline(rtime.Now().Add(30 * rtime.Second))
				tr0 := remote0.Transport.CreateTransport()
				if _, err := tr0.Handshake(conn0, auth0); err != nil {
					msg = desc + ": the first, valid handshake failed: " + err.Error()
				}
				conn0.SetReadDeadline(rtime.Time{})
				// the connection under test
				pub := r.pub
				if !sc.goodKey {
					_, p2, _ := ecdh.GenerateKey(fixedReader{99})
					r.pub = *(p2.(*[32]byte))
				}
				cs := hsCase{Transport: transport, Browser: "firefox", Method: "plain", ProxyMethod: sc.pm, SID: sc.sid, ServerName: "example.com", Offset: sc.offset, UseAbsClock: true, AbsClock: t0.Unix() + int64(sc.offset)}
				remote, auth := r.clientCfgFor(cs, uidOf(sc.uid))
				r.pub = pub
				conn, _ := r.dialer.Dial("tcp", remote.RemoteAddr)
				conn.SetReadDeadline(rtime.Now().Add(30 * rtime.Second))
				trc := remote.Transport.CreateTransport()
				_, herr := trc.Handshake(conn, auth)
				got := "redirect"
				if herr == nil {
					got = "answer"
				}
				rep.Executions++
				rep.Transitions++
				if msg == "" && got != sc.want {
					msg = fmt.Sprintf("%s: the client was given %s, expected %s (handshake error: %v)", desc, got, sc.want, herr)
				}
				if msg == "" && sc.want == "redirect" && transport == "direct" {
					select {
					case fw := <-webGot:
						if len(fw) < 5 || fw[0] != 0x16 {
							msg = fmt.Sprintf("%s: the redirect target received % x...", desc, fw[:min(len(fw), 8)])
						}
					case <-rtime.After(30 * rtime.Second):
						msg = desc + ": the connection was neither answered nor relayed to the redirect target"
					}
				}
				conn.Close()
				conn0.Close()
				mgr.Close()
				rep.Outcomes[sc.want]++
				if msg != "" {
					rep.Violations = append(rep.Violations, vx.Violation{Clause: "only-authorised-clients-answered", Sig: vx.Sig(c.Job, "only-authorised-clients-answered"), Msg: msg})
					rep.Exhaustive = false
					if len(rep.Violations) >= 3 {
						break
					}
				}
			}
		}
		rep.States = rep.Executions
		return rep
	}})

	vx.RegisterJobs("C07", func(tier string) []vx.Job {
		jobs := []vx.Job{
			{Scenario: "auth.bitflips", Params: vx.P("transport", "direct", "browser", "chrome"), Weight: 8},
			{Scenario: "auth.bitflips", Params: vx.P("transport", "direct", "browser", "firefox"), Weight: 6},
			{Scenario: "auth.bitflips", Params: vx.P("transport", "direct", "browser", "safari"), Weight: 6},
			{Scenario: "auth.bitflips", Params: vx.P("transport", "cdn"), Weight: 6},
			{Scenario: "auth.window", Params: vx.P("transport", "direct"), Weight: 2},
			{Scenario: "auth.window", Params: vx.P("transport", "cdn"), Weight: 2},
			{Scenario: "auth.matrix", Params: vx.P("transport", "direct"), Weight: 9},
			{Scenario: "auth.matrix", Params: vx.P("transport", "cdn"), Weight: 9},
			{Scenario: "auth.second", Params: vx.P("transport", "direct"), Weight: 3},
			{Scenario: "panel.staleauth", Params: vx.P("change", "credit0"), Bound: 2, BudgetS: 100, Weight: 4},
			{Scenario: "panel.staleauth", Params: vx.P("change", "expire"), Bound: 2, BudgetS: 100, Weight: 4},
			{Scenario: "panel.staleauth", Params: vx.P("change", "delete"), Bound: 2, BudgetS: 100, Weight: 4},
			{Scenario: "auth.second", Params: vx.P("transport", "cdn"), Weight: 3},
			// "the user-management API is reachable only with the admin UID and session id 0" (C18's driver over a real admin session)
			{Scenario: "adminapi.session", Params: vx.P("slow", "0"), Weight: 2},
			// a State built by InitState: which UIDs and proxy methods each configuration admits
			{Scenario: "auth.initstate", Weight: 2},
			// forgeries that need no key: small-order ephemeral points sealed under the secret they force
			{Scenario: "auth.smallorder", Params: vx.P("transport", "direct", "browser", "chrome"), Weight: 1},
			{Scenario: "auth.smallorder", Params: vx.P("transport", "direct", "browser", "firefox"), Weight: 1},
			{Scenario: "auth.smallorder", Params: vx.P("transport", "direct", "browser", "safari"), Weight: 1},
			{Scenario: "auth.smallorder", Params: vx.P("transport", "cdn"), Weight: 1},
			// "a UID the server currently authorises": admission of every connection along histories of
			// credit / expiry / cap changes while the user is already active (shared with C15)
			{Scenario: "panel.history", Params: vx.P("depth", "6"), Weight: 5},
		}
		if tier == "thorough" {
			jobs = append(jobs, vx.Job{Scenario: "auth.bitflips", Params: vx.P("transport", "direct", "browser", "firefox", "pairs", "1"), Weight: 9})
			jobs = append(jobs, vx.Job{Scenario: "auth.bitflips", Params: vx.P("transport", "cdn", "pairs", "1"), Weight: 9})
		}
		return jobs
	})
}

// freshBoltManagerPlain is freshBoltManager for free-running scenarios (real clock).
func freshBoltManagerPlain() interface {
	usermanager.UserManager
	Close() error
} {
	dbCounter++
	path := fmt.Sprintf("/dev/shm/vx-%d-m%d.db", rtime.Now().UnixNano(), dbCounter)
	m, err := usermanager.MakeLocalManager(path, common.WorldState{Now: rtime.Now})
	if err != nil {
		panic(err)
	}
	return &selfCleaning{m, path}
}

type selfCleaning struct {
	m interface {
		usermanager.UserManager
		Close() error
	}
	path string
}

func (s *selfCleaning) AuthenticateUser(u []byte) (int64, int64, error) {
	return s.m.AuthenticateUser(u)
}
func (s *selfCleaning) AuthoriseNewSession(u []byte, a usermanager.AuthorisationInfo) error {
	return s.m.AuthoriseNewSession(u, a)
}
func (s *selfCleaning) UploadStatus(x []usermanager.StatusUpdate) ([]usermanager.StatusResponse, error) {
	return s.m.UploadStatus(x)
}
func (s *selfCleaning) ListAllUsers() ([]usermanager.UserInfo, error)      { return s.m.ListAllUsers() }
func (s *selfCleaning) GetUserInfo(u []byte) (usermanager.UserInfo, error) { return s.m.GetUserInfo(u) }
func (s *selfCleaning) WriteUserInfo(u usermanager.UserInfo) error         { return s.m.WriteUserInfo(u) }
func (s *selfCleaning) DeleteUser(u []byte) error                          { return s.m.DeleteUser(u) }
func (s *selfCleaning) Close() error {
	err := s.m.Close()
	removeFile(s.path)
	return err
}

var _ = base64.StdEncoding
var _ = net.IPv4zero
var _ = strings.Contains
