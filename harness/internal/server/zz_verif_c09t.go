//go:build verif

package server

import (
	"bytes"
	"fmt"
	"io"
	"net"
	"os"
	rtime "time"

	"github.com/cbeuw/Cloak/internal/common"
	"github.com/cbeuw/Cloak/internal/vx"
)

// C09 driver on real TCP sockets (free-running; loopback addresses private to this process): the
// server's own accept loop (Serve) on a TCP listener, a TCP redirection target, and a visitor that is
// not a Cloak client. The target answers with replies from one byte to several megabytes and closes;
// the visitor reads eagerly, or slowly through a small receive buffer (so that the tail of the reply is
// still queued in the server's socket when the server has finished relaying and closes). The visitor
// receives exactly the target's reply and then a clean end of stream - what it would get from the
// target itself. Nothing here depends on timing when the property holds: the visitor simply reads to
// the end.
func init() {
	vx.Register(&vx.Scenario{Name: "redir.tcp", Prop: "C09", Run: func(c *vx.Ctx) *vx.Report {
		rep := &vx.Report{Job: c.Job, Engine: "enum", Outcomes: map[string]int64{}, Exhaustive: true}
		pid := os.Getpid()
		host := fmt.Sprintf("127.%d.%d", 1+pid%250, 1+(pid/250)%250)
		target, err := net.Listen("tcp", host+".201:30080")
		if err != nil {
			rep.HarnessError = err.Error()
			return rep
		}
		defer target.Close()
		front, err := net.Listen("tcp", host+".202:30443")
		if err != nil {
			rep.HarnessError = err.Error()
			return rep
		}
		defer front.Close()
		pv := make([]byte, 32)
		for i := range pv {
			pv[i] = byte(i + 1)
		}
		sta, err := InitState(RawConfig{
			ProxyBook:  map[string][]string{"shadowsocks": {"tcp", "127.0.0.1:9"}},
			RedirAddr:  target.Addr().String(),
			PrivateKey: pv,
		}, common.WorldState{Rand: vWorld().Rand, Now: rtime.Now})
		if err != nil {
			rep.HarnessError = "InitState: " + err.Error()
			return rep
		}
		go Serve(front, sta)
		replySize := make(chan int, 1)
		go func() {
			for {
				tc, err := target.Accept()
				if err != nil {
					return
				}
				n := <-replySize
				go func() {
					b := make([]byte, 4096)
					tc.Read(b) // the visitor's request
					reply := make([]byte, n)
					for i := range reply {
						reply[i] = byte(i*7 + n)
					}
					tc.Write(reply)
					tc.Close()
				}()
			}
		}()
		for _, n := range []int{1, 1000, 70000, 300000, 1 << 20, 3 << 20} {
			for _, slow := range []bool{false, true} {
				if slow && (n < 1000 || n > 300000) {
					continue // (a 4 KiB window makes the big replies take minutes)
				}
				replySize <- n
				d := net.Dialer{}
				cn, err := d.Dial("tcp", front.Addr().String())
				if err != nil {
					rep.HarnessError = "dial: " + err.Error()
					return rep
				}
				if slow {
					cn.(*net.TCPConn).SetReadBuffer(4096)
				}
				cn.Write([]byte("GET / HTTP/1.1\r\nHost: example.com\r\n\r\n"))
				var got []byte
				buf := make([]byte, 8192)
				var rerr error
				for {
					if slow {
						rtime.Sleep(200 * rtime.Microsecond)
					}
					k, err := cn.Read(buf)
					got = append(got, buf[:k]...)
					if err != nil {
						rerr = err
						break
					}
				}
				cn.Close()
				rep.Executions++
				rep.Transitions++
				want := make([]byte, n)
				for i := range want {
					want[i] = byte(i*7 + n)
				}
				if rerr != io.EOF || !bytes.Equal(got, want) {
					rep.Violations = append(rep.Violations, vx.Violation{Clause: "indistinguishable-from-target", Sig: vx.Sig(c.Job, "indistinguishable-from-target"),
						Msg: fmt.Sprintf("the target answered a visitor with %d bytes and closed; the visitor (slow reader: %v) received %d bytes through the server and then %v", n, slow, len(got), rerr)})
					rep.Exhaustive = false
					return rep
				}
				rep.Outcomes[fmt.Sprintf("slow=%v complete", slow)]++
			}
		}
		rep.States = rep.Executions
		return rep
	}})
}
