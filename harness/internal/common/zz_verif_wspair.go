//go:build verif

package common

import (
	"net/http"
	"net/url"

	"github.com/cbeuw/Cloak/internal/vnet"
	"github.com/cbeuw/Cloak/internal/vrt"
	"github.com/cbeuw/Cloak/internal/vrt/sync"
	"github.com/gorilla/websocket"
)

// VerifWSPair establishes a WebSocket connection over an in-memory byte stream of n (a real gorilla
// client and server upgrade) and returns both ends wrapped the way Cloak wraps them.
func VerifWSPair(n *vnet.Net, name string) (cli, srv *WebSocketConn, a, b *vnet.Conn) {
	a, b = n.Pair(name, false)
	var sc *websocket.Conn
	var wg sync.WaitGroup
	wg.Add(1)
	vrt.Go("ws-server-upgrade", func() {
		defer wg.Done()
		var err error
		sc, err = wsServerSide(b)
		if err != nil {
			vrt.Fail("harness", "upgrade: %v", err)
		}
	})
	u, _ := url.Parse("ws://example.com/")
	cc, _, err := websocket.NewClient(a, u, http.Header{}, 16480, 16480)
	if err != nil {
		vrt.Fail("harness", "NewClient: %v", err)
	}
	wg.Wait()
	return &WebSocketConn{Conn: cc}, &WebSocketConn{Conn: sc}, a, b
}
