//go:build verif

package common

import (
	"bufio"
	"bytes"
	"crypto/sha1"
	"encoding/base64"
	"errors"
	"fmt"
	"io"
	"net"
	"net/http"
	"net/url"
	"strings"

	"github.com/cbeuw/Cloak/internal/vnet"
	"github.com/cbeuw/Cloak/internal/vrt"
	"github.com/cbeuw/Cloak/internal/vrt/sync"
	"github.com/cbeuw/Cloak/internal/vrt/time"
	"github.com/cbeuw/Cloak/internal/vx"
	"github.com/gorilla/websocket"
)

// scriptConn is a net.Conn whose Read hands out a fixed byte stream in chunks ending at the given
// cut positions, and whose Write records each call.
type scriptConn struct {
	stream []byte
	cuts   []int // ascending offsets in (0, len(stream)) where a segment ends
	off    int
	writes [][]byte
}

func (s *scriptConn) Read(b []byte) (int, error) {
	if s.off >= len(s.stream) {
		return 0, io.EOF
	}
	end := len(s.stream)
	for _, c := range s.cuts {
		if c > s.off {
			end = c
			break
		}
	}
	n := copy(b, s.stream[s.off:end])
	s.off += n
	return n, nil
}
func (s *scriptConn) Write(b []byte) (int, error) {
	s.writes = append(s.writes, append([]byte{}, b...))
	return len(b), nil
}
func (s *scriptConn) Close() error                     { return nil }
func (s *scriptConn) LocalAddr() net.Addr              { return nil }
func (s *scriptConn) RemoteAddr() net.Addr             { return nil }
func (s *scriptConn) SetDeadline(time.Time) error      { return nil }
func (s *scriptConn) SetReadDeadline(time.Time) error  { return nil }
func (s *scriptConn) SetWriteDeadline(time.Time) error { return nil }

func c05Msg(i, n int) []byte {
	b := make([]byte, n)
	for k := range b {
		b[k] = byte(0x40*i + k + 1)
	}
	return b
}

// tlsWire runs the messages through TLSConn.Write and returns the byte stream, after checking that
// each message went out as one underlying Write carrying a well-formed record.
func tlsWire(msgs [][]byte) ([]byte, string) {
	sc := &scriptConn{}
	w := NewTLSConn(sc)
	for _, m := range msgs {
		n, err := w.Write(m)
		if err != nil || n != len(m) {
			return nil, fmt.Sprintf("Write(%d bytes) = %d, %v", len(m), n, err)
		}
	}
	if len(sc.writes) != len(msgs) {
		return nil, fmt.Sprintf("%d messages were emitted with %d writes on the underlying connection", len(msgs), len(sc.writes))
	}
	var stream []byte
	for i, wr := range sc.writes {
		m := msgs[i]
		if len(wr) != 5+len(m) || wr[0] != 23 || wr[1] != 3 || wr[2] != 3 || int(wr[3])<<8|int(wr[4]) != len(m) || !bytes.Equal(wr[5:], m) {
			return nil, fmt.Sprintf("message %d (%d bytes) was written as % x...", i, len(m), wr[:min(len(wr), 8)])
		}
		stream = append(stream, wr...)
	}
	return stream, ""
}

// readAll reads len(msgs) messages through TLSConn.Read over the scripted segmentation.
func tlsReadBack(stream []byte, cuts []int, msgs [][]byte, bufSize int) string {
	sc := &scriptConn{stream: stream, cuts: cuts}
	r := NewTLSConn(sc)
	buf := make([]byte, bufSize)
	for i, m := range msgs {
		n, err := r.Read(buf)
		if len(m) > bufSize {
			if err == nil {
				return fmt.Sprintf("message %d of %d bytes was delivered (n=%d) into a %d-byte buffer instead of an error", i, len(m), n, bufSize)
			}
			return ""
		}
		if err != nil {
			return fmt.Sprintf("message %d: Read returned %v (cuts %v)", i, err, cuts)
		}
		if !bytes.Equal(buf[:n], m) {
			return fmt.Sprintf("message %d: Read returned %d bytes % x, written % x (cuts %v)", i, n, buf[:min(n, 12)], m[:min(len(m), 12)], cuts)
		}
	}
	if n, err := r.Read(buf); err == nil {
		return fmt.Sprintf("an extra Read returned %d bytes after all messages were read", n)
	}
	return ""
}

func init() {
	// every segmentation of short exchanges
	vx.Register(&vx.Scenario{Name: "tls.segment", Prop: "C05", Run: func(c *vx.Ctx) *vx.Report {
		rep := &vx.Report{Job: c.Job, Engine: "enum", Outcomes: map[string]int64{}, Exhaustive: true}
		maxTotal := c.PI("maxtotal", 16)
		nmsgs := c.PI("msgs", 3)
		lens := []int{0, 1, 2, 3}
		var seqs [][]int
		var rec func(cur []int)
		rec = func(cur []int) {
			if len(cur) > 0 {
				seqs = append(seqs, append([]int{}, cur...))
			}
			if len(cur) == nmsgs {
				return
			}
			for _, l := range lens {
				rec(append(cur, l))
			}
		}
		rec(nil)
		for _, seq := range seqs {
			var msgs [][]byte
			for i, l := range seq {
				msgs = append(msgs, c05Msg(i, l))
			}
			stream, msg := tlsWire(msgs)
			if msg == "" && len(stream) > maxTotal {
				continue
			}
			L := len(stream)
			for mask := 0; msg == "" && mask < 1<<(L-1); mask++ {
				var cuts []int
				for b := 0; b < L-1; b++ {
					if mask>>b&1 == 1 {
						cuts = append(cuts, b+1)
					}
				}
				msg = tlsReadBack(stream, cuts, msgs, 64)
				rep.Executions++
				rep.Transitions += int64(len(cuts) + 1)
			}
			if msg != "" {
				rep.Violations = append(rep.Violations, vx.Violation{Clause: "one-write-one-read", Sig: vx.Sig(c.Job, "one-write-one-read"), Msg: fmt.Sprintf("message lengths %v: %s", seq, msg), Case: map[string]any{"lens": seq}})
				rep.Exhaustive = false
				rep.CapHit = "stopped at first violation"
				break
			}
			rep.Outcomes[fmt.Sprintf("msgs=%d", len(seq))]++
			if len(rep.Samples) < 2 {
				rep.Samples = append(rep.Samples, map[string]any{"message_lengths": seq, "stream_bytes": L, "segmentations": 1 << (L - 1)})
			}
		}
		rep.States = rep.Executions
		return rep
	}})

	// large records: all single cuts and all cut pairs around the header/body boundaries; reader
	// buffers around the record size
	vx.Register(&vx.Scenario{Name: "tls.large", Prop: "C05", Run: func(c *vx.Ctx) *vx.Report {
		rep := &vx.Report{Job: c.Job, Engine: "enum", Outcomes: map[string]int64{}, Exhaustive: true}
		size := c.PI("size", 300)
		allCuts := c.P("allcuts", "0") == "1"
		msgs := [][]byte{c05Msg(0, size), c05Msg(1, 7), c05Msg(2, size)}
		stream, msg := tlsWire(msgs)
		L := len(stream)
		near := map[int]bool{}
		bounds := []int{0, 5, 5 + size, 10 + size, 17 + size, 22 + size, L}
		for _, b := range bounds {
			for d := -3; d <= 3; d++ {
				if p := b + d; p > 0 && p < L {
					near[p] = true
				}
			}
		}
		var pts []int
		for p := 1; p < L; p++ {
			if allCuts || near[p] {
				pts = append(pts, p)
			}
		}
		fail := func(m string, cs any) {
			rep.Violations = append(rep.Violations, vx.Violation{Clause: "one-write-one-read", Sig: vx.Sig(c.Job, "one-write-one-read"), Msg: m, Case: cs})
			rep.Exhaustive = false
		}
		if msg != "" {
			fail(msg, nil)
		}
		for _, bs := range []int{size - 1, size, size + 1, 20480} {
			if bs < 8 {
				continue
			}
			// single cuts: every position
			for p := 1; p < L && len(rep.Violations) == 0; p++ {
				rep.Executions++
				rep.Transitions += 2
				if m := tlsReadBack(stream, []int{p}, msgs, bs); m != "" {
					fail(fmt.Sprintf("size %d buffer %d: %s", size, bs, m), map[string]any{"cuts": []int{p}, "buf": bs})
				}
			}
			for i := 0; i < len(pts) && len(rep.Violations) == 0; i++ {
				for j := i + 1; j < len(pts); j++ {
					rep.Executions++
					rep.Transitions += 3
					if m := tlsReadBack(stream, []int{pts[i], pts[j]}, msgs, bs); m != "" {
						fail(fmt.Sprintf("size %d buffer %d: %s", size, bs, m), map[string]any{"cuts": []int{pts[i], pts[j]}, "buf": bs})
						break
					}
				}
			}
			rep.Outcomes[fmt.Sprintf("buf=%d", bs)]++
		}
		// a record beyond the writer's limit is refused, the limit itself is not
		sc := &scriptConn{}
		w := NewTLSConn(sc)
		if _, err := w.Write(make([]byte, 16640)); err != nil {
			fail(fmt.Sprintf("a 16640-byte message was refused: %v", err), nil)
		}
		if _, err := w.Write(make([]byte, 16641)); err == nil {
			fail("a 16641-byte message was accepted", nil)
		}
		rep.States = rep.Executions
		rep.Samples = append(rep.Samples, map[string]any{"record_sizes": []int{size, 7, size}, "cut_points_for_pairs": len(pts)})
		return rep
	}})

	// concurrent writers on one TLSConn over a vnet byte stream: every schedule
	vx.Register(&vx.Scenario{Name: "tls.writers", Prop: "C05", Run: func(c *vx.Ctx) *vx.Report {
		nw, per := c.PI("writers", 2), c.PI("per", 2)
		sc := &vrt.Scenario{
			Opt:      vrt.Options{Delay: c.P("delay", "0") == "1"},
			Classify: func(r *vrt.Result) string { return map[bool]string{true: "no-deadlock"}[r.Status == vrt.Deadlock] },
			Main: func() {
				n := vnet.New()
				n.SegChoice = c.P("seg", "1") == "1"
				a, b := n.Pair("t", false)
				w, r := NewTLSConn(a), NewTLSConn(b)
				var wg sync.WaitGroup
				for i := 0; i < nw; i++ {
					i := i
					wg.Add(1)
					vrt.Go(fmt.Sprintf("writer%d", i), func() {
						defer wg.Done()
						for k := 0; k < per; k++ {
							m := c05Msg(i, 2+k)
							m[0] = byte(i<<4 | k)
							if _, err := w.Write(m); err != nil {
								vrt.Fail("no-error", "Write: %v", err)
							}
						}
					})
				}
				next := make([]int, nw)
				buf := make([]byte, 64)
				order := ""
				for got := 0; got < nw*per; got++ {
					k, err := r.Read(buf)
					if err != nil {
						vrt.Fail("one-write-one-read", "Read: %v", err)
					}
					i, kk := int(buf[0]>>4), int(buf[0]&15)
					if i >= nw || kk != next[i] {
						vrt.Fail("messages-do-not-interleave", "read % x: not the next whole message of any writer", buf[:k])
					}
					want := c05Msg(i, 2+kk)
					want[0] = buf[0]
					if !bytes.Equal(buf[:k], want) {
						vrt.Fail("messages-do-not-interleave", "read % x, writer %d wrote % x", buf[:k], i, want)
					}
					next[i]++
					order += fmt.Sprint(i)
				}
				wg.Wait()
				vrt.Observe("order=%s", order)
			},
		}
		return vx.RunSched(c, sc, nil)
	}})

	// a write that fails without reaching the wire (write k of `msgs`, every k; message sizes chosen
	// from a small menu) must not disturb later writes: the reader gets exactly the messages whose Write
	// succeeded, each whole, in order
	vx.Register(&vx.Scenario{Name: "tls.writefault", Prop: "C05", Run: func(c *vx.Ctx) *vx.Report {
		nm := c.PI("msgs", 3)
		sizes := []int{1, 5, 40}
		sc := &vrt.Scenario{
			Opt: vrt.Options{Delay: true, PoolRecycle: c.P("pool", "recycle") == "recycle"},
			Main: func() {
				fail := vrt.Choose(nm, "failing-write")
				fc := &faultWriteConn{failAt: fail}
				w := NewTLSConn(fc)
				var want [][]byte
				for k := 0; k < nm; k++ {
					m := c05Msg(k, sizes[vrt.Choose(len(sizes), "size")])
					n, err := w.Write(m)
					if k == fail {
						if err == nil {
							vrt.Fail("harness", "the failing write reported success")
						}
						continue
					}
					if err != nil || n != len(m) {
						vrt.Fail("one-write-one-read", "Write %d (%d bytes) after a failed write returned %d, %v", k, len(m), n, err)
					}
					want = append(want, m)
				}
				r := NewTLSConn(&scriptConn{stream: fc.wire})
				buf := make([]byte, 4096)
				for i, m := range want {
					k, err := r.Read(buf)
					if err != nil || !bytes.Equal(buf[:k], m) {
						vrt.Fail("one-write-one-read", "write %d of %d failed without reaching the wire; read %d of the later stream returned %d bytes % x, %v - the message written was % x", fail, nm, i, k, trunc5(buf[:k]), err, trunc5(m))
					}
				}
				if k, err := r.Read(buf); err == nil {
					vrt.Fail("one-write-one-read", "an extra message of %d bytes was read", k)
				}
				vrt.Observe("ok")
			},
		}
		return vx.RunSched(c, sc, nil)
	}})

	// a write fails on one connection; afterwards writers on two other connections of the same process
	// write at the same time (their Writes stall on back-pressure, so they overlap): every record on
	// either wire is exactly one of that connection's messages
	vx.Register(&vx.Scenario{Name: "tls.writefault2", Prop: "C05", Run: func(c *vx.Ctx) *vx.Report {
		sc := &vrt.Scenario{
			Opt:      vrt.Options{Delay: c.P("delay", "0") == "1"},
			Classify: func(r *vrt.Result) string { return map[bool]string{true: "no-deadlock"}[r.Status == vrt.Deadlock] },
			Main: func() {
				dead := NewTLSConn(&faultWriteConn{failAt: 0})
				if _, err := dead.Write(c05Msg(9, 30)); err == nil {
					vrt.Fail("harness", "the failing write reported success")
				}
				n := vnet.New()
				var wg sync.WaitGroup
				for i := 0; i < 2; i++ {
					i := i
					a, b := n.Pair(fmt.Sprintf("w%d", i), false)
					a.SetWriteLimit(1)
					w, r := NewTLSConn(a), NewTLSConn(b)
					wg.Add(2)
					vrt.Go(fmt.Sprintf("writer%d", i), func() {
						defer wg.Done()
						for k := 0; k < 2; k++ {
							m := c05Msg(i, 6+k)
							m[0] = byte(i<<4 | k)
							if _, err := w.Write(m); err != nil {
								vrt.Fail("no-error", "Write: %v", err)
							}
						}
					})
					vrt.Go(fmt.Sprintf("reader%d", i), func() {
						defer wg.Done()
						buf := make([]byte, 64)
						for k := 0; k < 2; k++ {
							got, err := r.Read(buf)
							want := c05Msg(i, 6+k)
							want[0] = byte(i<<4 | k)
							if err != nil || !bytes.Equal(buf[:got], want) {
								vrt.Fail("one-write-one-read", "connection %d, message %d: read % x, %v; written % x (an earlier write on another connection had failed)", i, k, buf[:got], err, want)
							}
						}
					})
				}
				wg.Wait()
				vrt.Observe("ok")
			},
		}
		return vx.RunSched(c, sc, nil)
	}})

	// WebSocketConn: messages of several sizes through a gorilla connection pair established over an
	// in-memory pipe, the byte stream cut at every position; and concurrent writers
	vx.Register(&vx.Scenario{Name: "ws.segment", Prop: "C05", Run: func(c *vx.Ctx) *vx.Report {
		rep := &vx.Report{Job: c.Job, Engine: "enum", Outcomes: map[string]int64{}, Exhaustive: true}
		sizes := []int{1, 2, 125, 126, 300}
		if c.P("big", "0") == "1" {
			sizes = append(sizes, 16401)
		}
		if c.P("big", "0") == "2" {
			// beyond what Cloak itself sends, up to exactly the reader's buffer (the write buffer of the
			// connection is 16480 bytes, the multiplexer's default message limit 16640, its read buffer 20480)
			sizes = []int{16480, 16481, 16640, 20479, 20480}
		}
		var msgs [][]byte
		for i, s := range sizes {
			msgs = append(msgs, c05Msg(i, s))
		}
		// 1. capture the server->client byte stream of these messages
		n := vnet.New()
		a, b := n.Pair("ws", false)
		cliCh := make(chan *websocket.Conn, 1)
		go func() {
			u, _ := url.Parse("ws://example.com/")
			cc, _, err := websocket.NewClient(a, u, http.Header{}, 16480, 16480)
			if err != nil {
				panic(err)
			}
			cliCh <- cc
		}()
		srvConn, err := wsServerSide(b)
		if err != nil {
			panic(err)
		}
		<-cliCh
		before := len(n.Tap)
		sw := &WebSocketConn{Conn: srvConn}
		for _, m := range msgs {
			if k, err := sw.Write(m); err != nil || k != len(m) {
				panic(fmt.Sprintf("ws write: %d %v", k, err))
			}
		}
		var stream []byte
		for _, t := range n.Tap[before:] {
			if t.Dir == "b>a" {
				stream = append(stream, t.Data...)
			}
		}
		// 2. replay it to a fresh client-side reader with every single cut
		for p := 0; p < len(stream); p++ {
			if c.P("big", "0") == "1" && p > 600 && p < len(stream)-600 && p%97 != 0 {
				continue
			}
			if c.P("big", "0") == "2" && p%1009 != 0 && p%16480 > 8 && p%16480 < 16472 {
				continue
			}
			cuts := []int{p}
			if p == 0 {
				cuts = nil
			}
			sc := &scriptConn{stream: stream, cuts: cuts}
			cc := websocketClientOver(sc)
			r := &WebSocketConn{Conn: cc}
			buf := make([]byte, 20480)
			for i, m := range msgs {
				k, err := r.Read(buf)
				rep.Transitions++
				if err != nil || !bytes.Equal(buf[:k], m) {
					rep.Violations = append(rep.Violations, vx.Violation{Clause: "one-write-one-read", Sig: vx.Sig(c.Job, "one-write-one-read"), Msg: fmt.Sprintf("cut at %d: message %d (%d bytes) read as %d bytes, err %v", p, i, len(m), k, err)})
					rep.Exhaustive = false
					break
				}
			}
			rep.Executions++
			if len(rep.Violations) > 0 {
				break
			}
		}
		// 2b. the connection dies after p bytes of the stream: whatever Read returns without error is one
		// whole message; the message the cut falls into comes back as an error, never as a shorter message
		for p := 0; p < len(stream) && len(rep.Violations) == 0; p++ {
			if c.P("big", "0") != "0" && p > 600 && p < len(stream)-600 && p%97 != 0 {
				continue
			}
			r := &WebSocketConn{Conn: websocketClientOver(&scriptConn{stream: stream[:p]})}
			buf := make([]byte, 20480)
			for i, m := range msgs {
				k, err := r.Read(buf)
				rep.Transitions++
				if err != nil {
					break
				}
				if !bytes.Equal(buf[:k], m) {
					rep.Violations = append(rep.Violations, vx.Violation{Clause: "one-write-one-read", Sig: vx.Sig(c.Job, "one-write-one-read"), Msg: fmt.Sprintf("connection lost after %d of %d stream bytes: message %d (%d bytes written) was delivered without error as %d bytes", p, len(stream), i, len(m), k)})
					rep.Exhaustive = false
					break
				}
			}
			rep.Executions++
		}
		// 3. a message larger than the reader's buffer is an error, not a truncated delivery
		sc := &scriptConn{stream: stream}
		r := &WebSocketConn{Conn: websocketClientOver(sc)}
		small := make([]byte, 100)
		for i, m := range msgs {
			k, err := r.Read(small)
			if len(m) > len(small) {
				if err == nil {
					rep.Violations = append(rep.Violations, vx.Violation{Clause: "oversize-is-an-error", Sig: vx.Sig(c.Job, "oversize-is-an-error"), Msg: fmt.Sprintf("message %d of %d bytes was delivered as %d bytes into a 100-byte buffer without error", i, len(m), k)})
					rep.Exhaustive = false
				}
				break
			}
		}
		rep.States = rep.Executions
		rep.Outcomes["cuts"] = rep.Executions
		rep.Samples = append(rep.Samples, map[string]any{"message_sizes": sizes, "stream_bytes": len(stream)})
		return rep
	}})

	// concurrent writers on one WebSocketConn (gorilla connection pair over a vnet byte stream)
	vx.Register(&vx.Scenario{Name: "ws.writers", Prop: "C05", Run: func(c *vx.Ctx) *vx.Report {
		nw, per := c.PI("writers", 2), c.PI("per", 1)
		sc := &vrt.Scenario{
			Opt:      vrt.Options{Delay: c.P("delay", "0") == "1"},
			Classify: func(r *vrt.Result) string { return map[bool]string{true: "no-deadlock"}[r.Status == vrt.Deadlock] },
			Main: func() {
				n := vnet.New()
				a, b := n.Pair("ws", false)
				var srv *websocket.Conn
				var wg sync.WaitGroup
				wg.Add(1)
				vrt.Go("ws-server-upgrade", func() {
					defer wg.Done()
					var err error
					srv, err = wsServerSide(b)
					if err != nil {
						vrt.Fail("harness", "upgrade: %v", err)
					}
				})
				u, _ := url.Parse("ws://example.com/")
				cc, _, err := websocket.NewClient(a, u, http.Header{}, 16480, 16480)
				if err != nil {
					vrt.Fail("harness", "NewClient: %v", err)
				}
				wg.Wait()
				w, r := &WebSocketConn{Conn: srv}, &WebSocketConn{Conn: cc}
				for i := 0; i < nw; i++ {
					i := i
					wg.Add(1)
					vrt.Go(fmt.Sprintf("writer%d", i), func() {
						defer wg.Done()
						for k := 0; k < per; k++ {
							m := c05Msg(i, 130+k)
							m[0] = byte(i<<4 | k)
							if _, err := w.Write(m); err != nil {
								vrt.Fail("no-error", "Write: %v", err)
							}
						}
					})
				}
				next := make([]int, nw)
				buf := make([]byte, 1024)
				order := ""
				for got := 0; got < nw*per; got++ {
					k, err := r.Read(buf)
					if err != nil {
						vrt.Fail("one-write-one-read", "Read: %v", err)
					}
					i, kk := int(buf[0]>>4), int(buf[0]&15)
					if i >= nw || kk != next[i] {
						vrt.Fail("messages-do-not-interleave", "read %d bytes starting % x: not the next whole message of any writer", k, buf[:4])
					}
					want := c05Msg(i, 130+kk)
					want[0] = buf[0]
					if !bytes.Equal(buf[:k], want) {
						vrt.Fail("messages-do-not-interleave", "read %d bytes, writer %d wrote %d", k, i, len(want))
					}
					next[i]++
					order += fmt.Sprint(i)
				}
				wg.Wait()
				vrt.Observe("order=%s", order)
			},
		}
		return vx.RunSched(c, sc, nil)
	}})

	vx.RegisterJobs("C05", func(tier string) []vx.Job {
		q := tier == "quick"
		jobs := []vx.Job{
			{Scenario: "tls.large", Params: vx.P("size", "300", "allcuts", "1"), Weight: 5},
			{Scenario: "tls.large", Params: vx.P("size", "16384"), Weight: 8},
			{Scenario: "tls.large", Params: vx.P("size", "16640"), Weight: 8},
			{Scenario: "tls.writers", Params: vx.P("writers", "2", "per", "2", "seg", "0"), Bound: -1, BudgetS: 100, Weight: 7},
			{Scenario: "tls.writers", Params: vx.P("writers", "2", "per", "2", "seg", "0", "pool", "recycle"), Bound: -1, BudgetS: 100, Weight: 7},
			{Scenario: "tls.writers", Params: vx.P("writers", "3", "per", "1", "seg", "0"), Bound: -1, BudgetS: 100, Weight: 7},
			{Scenario: "tls.writers", Params: vx.P("writers", "2", "per", "1", "seg", "1"), Bound: 2, BudgetS: 100, Weight: 7},
			{Scenario: "ws.writers", Params: vx.P("writers", "2", "per", "1"), Bound: -1, BudgetS: 100, Weight: 6},
			{Scenario: "ws.writers", Params: vx.P("writers", "2", "per", "2"), Bound: 2, BudgetS: 100, Weight: 7},
			{Scenario: "ws.writers", Params: vx.P("writers", "3", "per", "1"), Bound: 2, BudgetS: 100, Weight: 7},
			{Scenario: "tls.writefault2", Params: vx.P("pool", "recycle"), Bound: 2, BudgetS: 100, Weight: 5},
			{Scenario: "tls.writefault2", Bound: 2, BudgetS: 100, Weight: 5},
			{Scenario: "tls.writefault", Params: vx.P("msgs", "3"), Bound: 0, BudgetS: 100, Weight: 2},
			{Scenario: "mux.cutrecord", Params: vx.P("frames", "3", "plen", "7"), Bound: 0, BudgetS: 100, Weight: 2},
			{Scenario: "mux.oversizerecord", Params: vx.P("method", "aes-256-gcm"), Bound: 0, BudgetS: 100, Weight: 2},
			{Scenario: "mux.oversizerecord", Params: vx.P("method", "plain"), Bound: 0, BudgetS: 100, Weight: 2},
			// the WebSocket transport as the server sets it up (real upgrade through the in-process CDN edge): the
			// largest message a session may send passes it in both directions (the driver is C06's)
			{Scenario: "hs.agree", Params: vx.P("transport", "cdn", "browser", "firefox", "product", "star", "seeds", "1"), Weight: 4},
			{Scenario: "hs.serverfirst", Params: vx.P("browser", "firefox", "seg", "2"), Bound: 2, BudgetS: 100, Weight: 6},
			{Scenario: "hs.serverfirst", Params: vx.P("browser", "chrome", "seg", "0", "method", "aes-256-gcm"), Bound: 2, BudgetS: 100, Weight: 6},
			{Scenario: "ws.segment", Weight: 4},
			{Scenario: "ws.segment", Params: vx.P("big", "1"), Weight: 6},
			{Scenario: "ws.segment", Params: vx.P("big", "2"), Weight: 6},
		}
		if q {
			jobs = append(jobs, vx.Job{Scenario: "tls.segment", Params: vx.P("maxtotal", "16", "msgs", "3"), Weight: 6})
		} else {
			jobs = append(jobs, vx.Job{Scenario: "tls.segment", Params: vx.P("maxtotal", "22", "msgs", "3"), Weight: 9})
			jobs = append(jobs, vx.Job{Scenario: "tls.writers", Params: vx.P("writers", "3", "per", "2", "seg", "0"), Bound: 3, BudgetS: 900, Weight: 9})
		}
		return jobs
	})
}

// wsServerSide upgrades the server end of a raw connection without net/http's server.
func wsServerSide(c net.Conn) (*websocket.Conn, error) {
	br := bufio.NewReader(c)
	req, err := http.ReadRequest(br)
	if err != nil {
		return nil, err
	}
	up := websocket.Upgrader{}
	return up.Upgrade(&hijackWriter{conn: c, br: br, h: http.Header{}}, req, nil)
}

type hijackWriter struct {
	conn net.Conn
	br   *bufio.Reader
	h    http.Header
}

func (h *hijackWriter) Header() http.Header         { return h.h }
func (h *hijackWriter) Write(b []byte) (int, error) { return h.conn.Write(b) }
func (h *hijackWriter) WriteHeader(int)             {}
func (h *hijackWriter) Hijack() (net.Conn, *bufio.ReadWriter, error) {
	return h.conn, bufio.NewReadWriter(h.br, bufio.NewWriter(h.conn)), nil
}

// websocketClientOver builds a client-side gorilla connection that reads frames from a scripted
// byte stream: the handshake response is synthesised in front of it.
func websocketClientOver(sc *scriptConn) *websocket.Conn {
	hc := &handshakeConn{inner: sc}
	u, _ := url.Parse("ws://example.com/")
	cc, _, err := websocket.NewClient(hc, u, http.Header{}, 16480, 16480)
	if err != nil {
		panic(err)
	}
	return cc
}

// handshakeConn answers the client's upgrade request itself and then serves the scripted stream.
type handshakeConn struct {
	inner    *scriptConn
	req      []byte
	response []byte
}

func (h *handshakeConn) Write(b []byte) (int, error) {
	if h.response == nil {
		h.req = append(h.req, b...)
		if bytes.Contains(h.req, []byte("\r\n\r\n")) {
			req, err := http.ReadRequest(bufio.NewReader(bytes.NewReader(h.req)))
			if err != nil {
				return 0, err
			}
			key := req.Header.Get("Sec-Websocket-Key")
			h.response = []byte("HTTP/1.1 101 Switching Protocols\r\nUpgrade: websocket\r\nConnection: Upgrade\r\nSec-WebSocket-Accept: " + wsAccept(key) + "\r\n\r\n")
		}
		return len(b), nil
	}
	return len(b), nil
}
func (h *handshakeConn) Read(b []byte) (int, error) {
	if len(h.response) > 0 {
		n := copy(b, h.response)
		h.response = h.response[n:]
		if len(h.response) == 0 {
			h.response = []byte{}
		}
		return n, nil
	}
	if h.response == nil {
		return 0, errors.New("read before the handshake request")
	}
	return h.inner.Read(b)
}
func (h *handshakeConn) Close() error                     { return nil }
func (h *handshakeConn) LocalAddr() net.Addr              { return nil }
func (h *handshakeConn) RemoteAddr() net.Addr             { return nil }
func (h *handshakeConn) SetDeadline(time.Time) error      { return nil }
func (h *handshakeConn) SetReadDeadline(time.Time) error  { return nil }
func (h *handshakeConn) SetWriteDeadline(time.Time) error { return nil }

var _ = strings.Contains

func wsAccept(key string) string {
	h := sha1.New()
	h.Write([]byte(key + "258EAFA5-E914-47DA-95CA-C5AB0DC85B11"))
	return base64.StdEncoding.EncodeToString(h.Sum(nil))
}

// faultWriteConn records what is written, except that write number failAt fails without taking
// anything.
type faultWriteConn struct {
	scriptConn
	failAt, nw int
	wire       []byte
}

func (f *faultWriteConn) Write(b []byte) (int, error) {
	k := f.nw
	f.nw++
	if k == f.failAt {
		return 0, errors.New("injected write failure")
	}
	f.wire = append(f.wire, b...)
	return len(b), nil
}

func trunc5(b []byte) []byte {
	if len(b) > 24 {
		return b[:24]
	}
	return b
}
