//go:build verif

package vref

import (
	"encoding/binary"
	"fmt"
)

// An independent parser for the TLS record layer and the two hello messages, written from RFC 8446
// (nothing shared with Cloak's own parser).

type Record struct {
	Type    byte
	Version uint16
	Body    []byte
}

// SplitRecords consumes the whole stream; leftover bytes are an error.
func SplitRecords(stream []byte) ([]Record, error) {
	var out []Record
	off := 0
	for off < len(stream) {
		if len(stream)-off < 5 {
			return out, fmt.Errorf("trailing %d bytes do not make a record header (offset %d)", len(stream)-off, off)
		}
		l := int(binary.BigEndian.Uint16(stream[off+3 : off+5]))
		if off+5+l > len(stream) {
			return out, fmt.Errorf("record at offset %d declares %d bytes, only %d follow", off, l, len(stream)-off-5)
		}
		out = append(out, Record{Type: stream[off], Version: binary.BigEndian.Uint16(stream[off+1 : off+3]), Body: stream[off+5 : off+5+l]})
		off += 5 + l
	}
	return out, nil
}

type Hello struct {
	IsServer          bool
	Version           uint16
	Random            []byte
	SessionID         []byte
	Extensions        map[uint16][]byte
	SNI               string
	KeyShares         map[uint16][]byte // group -> key exchange
	SupportedVersions []uint16
}

type rd struct {
	b   []byte
	off int
	err error
}

func (r *rd) take(n int) []byte {
	if r.err != nil {
		return nil
	}
	if n < 0 || r.off+n > len(r.b) {
		r.err = fmt.Errorf("length field points %d bytes past the end (offset %d, need %d, have %d)", r.off+n-len(r.b), r.off, n, len(r.b)-r.off)
		return nil
	}
	s := r.b[r.off : r.off+n]
	r.off += n
	return s
}
func (r *rd) u8() int {
	s := r.take(1)
	if s == nil {
		return 0
	}
	return int(s[0])
}
func (r *rd) u16() int {
	s := r.take(2)
	if s == nil {
		return 0
	}
	return int(binary.BigEndian.Uint16(s))
}
func (r *rd) u24() int {
	s := r.take(3)
	if s == nil {
		return 0
	}
	return int(s[0])<<16 | int(s[1])<<8 | int(s[2])
}

// ParseHello parses one handshake message that must fill body exactly.
func ParseHello(body []byte) (*Hello, error) {
	r := &rd{b: body}
	typ := r.u8()
	l := r.u24()
	if r.err != nil {
		return nil, r.err
	}
	if typ != 1 && typ != 2 {
		return nil, fmt.Errorf("handshake type %d is neither ClientHello nor ServerHello", typ)
	}
	if l != len(body)-4 {
		return nil, fmt.Errorf("handshake length %d, message body has %d bytes", l, len(body)-4)
	}
	h := &Hello{IsServer: typ == 2, Extensions: map[uint16][]byte{}, KeyShares: map[uint16][]byte{}}
	h.Version = uint16(r.u16())
	h.Random = r.take(32)
	h.SessionID = r.take(r.u8())
	if typ == 1 {
		cs := r.take(r.u16())
		if r.err == nil && (len(cs) == 0 || len(cs)%2 != 0) {
			return nil, fmt.Errorf("cipher suite list of %d bytes", len(cs))
		}
		cm := r.take(r.u8())
		if r.err == nil && len(cm) == 0 {
			return nil, fmt.Errorf("empty compression method list")
		}
	} else {
		r.take(2) // cipher suite
		r.take(1) // compression method
	}
	extLen := r.u16()
	if r.err != nil {
		return nil, r.err
	}
	if extLen != len(body)-r.off {
		return nil, fmt.Errorf("extensions length %d, %d bytes remain", extLen, len(body)-r.off)
	}
	for r.off < len(body) {
		t := uint16(r.u16())
		d := r.take(r.u16())
		if r.err != nil {
			return nil, r.err
		}
		if _, dup := h.Extensions[t]; dup {
			return nil, fmt.Errorf("extension %d appears twice", t)
		}
		h.Extensions[t] = d
	}
	if d, ok := h.Extensions[0]; ok && typ == 1 { // server_name
		e := &rd{b: d}
		list := e.take(e.u16())
		if e.err != nil || e.off != len(d) {
			return nil, fmt.Errorf("malformed server_name extension")
		}
		le := &rd{b: list}
		if le.u8() != 0 {
			return nil, fmt.Errorf("server_name entry is not a host_name")
		}
		h.SNI = string(le.take(le.u16()))
		if le.err != nil || le.off != len(list) {
			return nil, fmt.Errorf("malformed server_name list")
		}
	}
	if d, ok := h.Extensions[0x33]; ok { // key_share
		e := &rd{b: d}
		if typ == 1 {
			list := e.take(e.u16())
			if e.err != nil || e.off != len(d) {
				return nil, fmt.Errorf("malformed key_share extension")
			}
			le := &rd{b: list}
			for le.off < len(list) {
				g := uint16(le.u16())
				k := le.take(le.u16())
				if le.err != nil {
					return nil, fmt.Errorf("malformed key_share entry: %v", le.err)
				}
				h.KeyShares[g] = k
			}
		} else {
			g := uint16(e.u16())
			k := e.take(e.u16())
			if e.err != nil || e.off != len(d) {
				return nil, fmt.Errorf("malformed ServerHello key_share")
			}
			h.KeyShares[g] = k
		}
	}
	if d, ok := h.Extensions[0x2b]; ok { // supported_versions
		if typ == 1 {
			e := &rd{b: d}
			l := e.take(e.u8())
			if e.err != nil || e.off != len(d) || len(l)%2 != 0 {
				return nil, fmt.Errorf("malformed supported_versions")
			}
			for i := 0; i+1 < len(l); i += 2 {
				h.SupportedVersions = append(h.SupportedVersions, binary.BigEndian.Uint16(l[i:]))
			}
		} else {
			if len(d) != 2 {
				return nil, fmt.Errorf("malformed ServerHello supported_versions")
			}
			h.SupportedVersions = []uint16{binary.BigEndian.Uint16(d)}
		}
	}
	return h, nil
}

// ValidHostname: letters, digits, hyphens and dots, labels of 1..63, total <= 253.
func ValidHostname(s string) bool {
	if len(s) == 0 || len(s) > 253 {
		return false
	}
	lab := 0
	for i := 0; i < len(s); i++ {
		c := s[i]
		switch {
		case c == '.':
			if lab == 0 {
				return false
			}
			lab = 0
		case c >= 'a' && c <= 'z', c >= 'A' && c <= 'Z', c >= '0' && c <= '9', c == '-':
			lab++
			if lab > 63 {
				return false
			}
		default:
			return false
		}
	}
	return lab > 0
}
