//go:build verif

// Package vref holds the reference models: an independent implementation of the Cloak v2 frame
// layout (written from the documented format, sharing only the Go crypto primitives), byte FIFOs,
// and an independent TLS record / hello parser.
package vref

import (
	"crypto/aes"
	"crypto/cipher"
	"encoding/binary"
	"errors"
	"fmt"

	"golang.org/x/crypto/chacha20poly1305"
	"golang.org/x/crypto/salsa20"
)

const (
	MethodPlain    = 0
	MethodAES256   = 1
	MethodChaCha20 = 2
	MethodAES128   = 3
	HeaderLen      = 14
)

type RefFrame struct {
	StreamID uint32
	Seq      uint64
	Closing  byte
	Payload  []byte
	Padding  []byte // padding bytes inside the sealed region (AEAD) or after the payload (plain)
	Trailer  []byte // plain only: the 8 random bytes that serve as header nonce
}

func aeadFor(method byte, key [32]byte) (cipher.AEAD, error) {
	switch method {
	case MethodPlain:
		return nil, nil
	case MethodAES256:
		b, err := aes.NewCipher(key[:])
		if err != nil {
			return nil, err
		}
		return cipher.NewGCM(b)
	case MethodAES128:
		b, err := aes.NewCipher(key[:16])
		if err != nil {
			return nil, err
		}
		return cipher.NewGCM(b)
	case MethodChaCha20:
		return chacha20poly1305.New(key[:])
	}
	return nil, fmt.Errorf("unknown method %d", method)
}

// Encode builds the on-wire message:
//
//	header(14) = StreamID(4, BE) | Seq(8, BE) | Closing(1) | extraLen(1)
//	body       = AEAD-Seal(key, nonce = header[0:12], payload | padding)          (extraLen = len(padding)+16)
//	           | payload | padding | 8 random bytes                               (plain; extraLen = len(padding)+8)
//	header is then XORed with Salsa20(key, nonce = last 8 bytes of the message).
func Encode(method byte, key [32]byte, f RefFrame) ([]byte, error) {
	a, err := aeadFor(method, key)
	if err != nil {
		return nil, err
	}
	hdr := make([]byte, HeaderLen)
	binary.BigEndian.PutUint32(hdr[0:4], f.StreamID)
	binary.BigEndian.PutUint64(hdr[4:12], f.Seq)
	hdr[12] = f.Closing
	var body []byte
	if a == nil {
		if len(f.Trailer) != 8 {
			return nil, errors.New("plain needs an 8-byte trailer")
		}
		extra := len(f.Padding) + 8
		if extra > 255 {
			return nil, errors.New("extra length does not fit one byte")
		}
		hdr[13] = byte(extra)
		body = append(append(append([]byte{}, f.Payload...), f.Padding...), f.Trailer...)
	} else {
		extra := len(f.Padding) + a.Overhead()
		if extra > 255 {
			return nil, errors.New("extra length does not fit one byte")
		}
		hdr[13] = byte(extra)
		pt := append(append([]byte{}, f.Payload...), f.Padding...)
		body = a.Seal(nil, hdr[:12], pt, nil)
	}
	msg := append(append([]byte{}, hdr...), body...)
	nonce := msg[len(msg)-8:]
	salsa20.XORKeyStream(msg[:HeaderLen], msg[:HeaderLen], nonce, &key)
	return msg, nil
}

// Decode is the inverse of Encode.
func Decode(method byte, key [32]byte, msg []byte) (RefFrame, error) {
	var f RefFrame
	a, err := aeadFor(method, key)
	if err != nil {
		return f, err
	}
	if len(msg) < HeaderLen+8 {
		return f, errors.New("too short")
	}
	hdr := make([]byte, HeaderLen)
	salsa20.XORKeyStream(hdr, msg[:HeaderLen], msg[len(msg)-8:], &key)
	f.StreamID = binary.BigEndian.Uint32(hdr[0:4])
	f.Seq = binary.BigEndian.Uint64(hdr[4:12])
	f.Closing = hdr[12]
	extra := int(hdr[13])
	body := msg[HeaderLen:]
	if extra > len(body) {
		return f, errors.New("extra length exceeds body")
	}
	if a == nil {
		if extra < 8 && extra != 0 {
			// the implementation accepts any extra <= len(body); the reference mirrors the documented
			// layout only for messages it produced itself
		}
		f.Payload = append([]byte{}, body[:len(body)-extra]...)
		if extra >= 8 {
			f.Padding = append([]byte{}, body[len(body)-extra:len(body)-8]...)
			f.Trailer = append([]byte{}, body[len(body)-8:]...)
		}
		return f, nil
	}
	if extra < a.Overhead() {
		return f, errors.New("extra length smaller than tag")
	}
	pt, err := a.Open(nil, hdr[:12], body, nil)
	if err != nil {
		return f, err
	}
	padLen := extra - a.Overhead()
	f.Payload = append([]byte{}, pt[:len(pt)-padLen]...)
	f.Padding = append([]byte{}, pt[len(pt)-padLen:]...)
	return f, nil
}
