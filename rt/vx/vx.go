//go:build verif

// Package vx is the registry and reporting layer shared by all harnesses in the mirror.
package vx

import (
	"encoding/json"
	"fmt"
	"os"
	"sort"
	"strconv"
	"strings"
	"time"

	"github.com/cbeuw/Cloak/internal/vrt"
)

type Job struct {
	Scenario string            `json:"scenario"`
	Params   map[string]string `json:"params,omitempty"`
	Bound    int               `json:"bound"`
	BudgetS  int               `json:"budget_s"`
	Weight   int               `json:"weight,omitempty"`
}

type Violation struct {
	Clause  string        `json:"clause"`
	Sig     string        `json:"sig"`
	Msg     string        `json:"msg"`
	Status  string        `json:"status,omitempty"`
	Choices []int         `json:"choices,omitempty"`
	Case    any           `json:"case,omitempty"`
	Trace   []vrt.TraceEv `json:"trace,omitempty"`
	Bound   int           `json:"bound,omitempty"`
	Sites   []string      `json:"sites,omitempty"` // shared-site set the choice list is relative to
}

type Report struct {
	Job            Job              `json:"job"`
	Engine         string           `json:"engine"`
	States         int64            `json:"states"`
	Transitions    int64            `json:"transitions"`
	Executions     int64            `json:"executions"`
	Outcomes       map[string]int64 `json:"outcomes,omitempty"`
	BoundCompleted int              `json:"bound_completed"`
	Exhaustive     bool             `json:"exhaustive"`
	CapHit         string           `json:"cap_hit,omitempty"`
	WallS          float64          `json:"wall_s"`
	Violations     []Violation      `json:"violations,omitempty"`
	Samples        []any            `json:"samples,omitempty"`
	Replays        int64            `json:"determinism_replays"`
	Notes          []string         `json:"notes,omitempty"`
	HarnessError   string           `json:"harness_error,omitempty"`
	Extra          map[string]any   `json:"extra,omitempty"`
}

type Ctx struct {
	Job      Job
	Seed     uint64
	Deadline time.Time
	// Replay: when non-nil the scenario re-executes this violation instead of exploring.
	Replay *Violation
}

func (c *Ctx) P(k, def string) string {
	if v, ok := c.Job.Params[k]; ok {
		return v
	}
	return def
}

func (c *Ctx) PI(k string, def int) int {
	if v, ok := c.Job.Params[k]; ok {
		n, err := strconv.Atoi(v)
		if err != nil {
			panic(fmt.Sprintf("param %s=%q is not an int", k, v))
		}
		return n
	}
	return def
}

type Scenario struct {
	Name string
	Prop string
	Run  func(c *Ctx) *Report
}

var scenarios = map[string]*Scenario{}
var jobTables = map[string]func(tier string) []Job{}

func Register(s *Scenario) {
	if _, dup := scenarios[s.Name]; dup {
		panic("duplicate scenario " + s.Name)
	}
	scenarios[s.Name] = s
}

func RegisterJobs(prop string, f func(tier string) []Job) { jobTables[prop] = f }

func Lookup(name string) *Scenario { return scenarios[name] }

func Jobs(prop, tier string) []Job {
	f := jobTables[prop]
	if f == nil {
		return nil
	}
	return f(tier)
}

func Names() []string {
	var n []string
	for k := range scenarios {
		n = append(n, k)
	}
	sort.Strings(n)
	return n
}

func P(kv ...string) map[string]string {
	m := map[string]string{}
	for i := 0; i+1 < len(kv); i += 2 {
		m[kv[i]] = kv[i+1]
	}
	return m
}

func Emit(r *Report) {
	b, err := json.Marshal(r)
	if err != nil {
		panic(err)
	}
	os.Stdout.Write(append(append([]byte("REPORT "), b...), '\n'))
}

// Sig is the signature known_findings.txt matches on: scenario, its parameters and the head of the
// failed oracle clause. A known finding therefore names one driver configuration and one clause; the
// same clause failing in another configuration, or another clause in the same one, is still reported.
func Sig(j Job, clause string) string {
	if i := strings.Index(clause, ":"); i >= 0 {
		clause = clause[:i]
	}
	ks := make([]string, 0, len(j.Params))
	for k := range j.Params {
		ks = append(ks, k)
	}
	sort.Strings(ks)
	var ps []string
	for _, k := range ks {
		ps = append(ps, k+"="+j.Params[k])
	}
	s := j.Scenario + "{" + strings.Join(ps, ",") + "}|" + clause
	return strings.ReplaceAll(s, " ", "_")
}

// SigFn maps a violation to its signature (what known_findings.txt matches on).
type SigFn func(v *vrt.Violation, r *vrt.Result) string

// RunSched explores a scheduled scenario and builds the report, including the determinism
// self-check (first execution and every reported violation are replayed twice).
func RunSched(c *Ctx, sc *vrt.Scenario, _ func(v *vrt.Violation) string) *Report {
	rep := &Report{Job: c.Job, Engine: "sched-dfs", Outcomes: map[string]int64{}}
	if sc.Opt.Seed == 0 {
		sc.Opt.Seed = c.Seed
	}
	if c.Job.Params["pool"] == "recycle" {
		// any scheduled scenario can be run with recycling sync.Pools (default: never recycle, poison on Put)
		sc.Opt.PoolRecycle = true
	}
	e := &vrt.Explorer{Sc: sc, Bound: c.Job.Bound, Deadline: c.Deadline, StopFirst: false}
	if os.Getenv("VERIF_NOPRUNE") != "" {
		e.NoPrune = true
	}
	if n, _ := strconv.Atoi(os.Getenv("VERIF_AUDIT")); n > 0 {
		// race audit (supporting, never deciding): the same harness body runs free, n times, in a
		// binary built with -race; oracle outcomes are ignored, only the detector's reports matter
		rep.Engine = "race-audit"
		for i := 0; i < n; i++ {
			done := make(chan struct{})
			go func() {
				defer close(done)
				defer func() { recover() }()
				sc.Main()
			}()
			select {
			case <-done:
				rep.Executions++
			case <-time.After(20 * time.Second):
				rep.Notes = append(rep.Notes, "free-running body did not finish within 20 s (not judged)")
				i = n
			}
		}
		rep.States, rep.Transitions = 1, 1
		rep.Samples = append(rep.Samples, "free-running")
		return rep
	}
	if c.Replay != nil {
		vrt.SetSharedSites(c.Replay.Sites)
		r, clause := e.Replay(c.Replay.Choices)
		rep.Executions = 1
		rep.Transitions = int64(r.Steps)
		rep.States = int64(len(r.Points))
		rep.Exhaustive = false
		rep.CapHit = "replay"
		rep.Outcomes[r.Status.String()+":"+r.Outcome] = 1
		if clause != "" {
			rep.Violations = append(rep.Violations, Violation{Clause: clause, Sig: Sig(c.Job, clause), Msg: r.Msg, Status: r.Status.String(), Choices: c.Replay.Choices, Trace: r.Trace})
		}
		rep.Samples = append(rep.Samples, map[string]any{"trace": r.Trace})
		return rep
	}
	// explore, but keep going after the first violation only to collect distinct clauses cheaply:
	// stop at first to keep failing runs short.
	e.StopFirst = true
	e.Explore()
	st := e.Stats
	rep.States, rep.Transitions, rep.Executions = st.States, st.Transitions, st.Executions
	rep.Outcomes = st.Outcomes
	rep.BoundCompleted = st.BoundDone
	rep.Exhaustive = st.Exhaustive
	rep.CapHit = st.CapHit
	rep.WallS = st.WallS
	rep.Extra = map[string]any{"pruned": st.Pruned, "complete": st.Complete, "deadlocks": st.Deadlocks, "max_points": st.MaxPoints, "max_threads": st.MaxThreads, "site_discovery_passes": st.SitePasses, "shared_sites": st.SharedSites}
	// determinism self-check
	if err := e.CheckDeterminism(nil); err != nil {
		rep.HarnessError = "default schedule: " + err.Error()
	}
	for _, ch := range e.SampleChoices {
		rep.Samples = append(rep.Samples, map[string]any{"schedule_choices": ch})
	}
	if len(rep.Samples) > 0 {
		if r, _ := e.Replay(e.SampleChoices[0]); true {
			tr := r.Trace
			if len(tr) > 60 {
				tr = tr[:60]
			}
			rep.Samples[0] = map[string]any{"schedule_choices": e.SampleChoices[0], "outcome": r.Outcome, "trace_head": tr}
		}
	}
	if e.Viol != nil {
		v := e.Viol
		if err := e.CheckDeterminism(v.Choices); err != nil {
			rep.HarnessError = "violating schedule: " + err.Error()
		}
		// 5 identical replays before a violation is believed
		for k := 0; k < 5; k++ {
			r, clause := e.Replay(v.Choices)
			if clause != v.Clause {
				rep.HarnessError = fmt.Sprintf("violation did not reproduce on replay %d: got %q (%s) want %q", k, clause, r.Status, v.Clause)
			}
			if k == 0 {
				v.Trace = r.Trace
			}
		}
		rep.Exhaustive = false
		if rep.CapHit == "" {
			rep.CapHit = "stopped at first violation"
		}
		rep.Violations = append(rep.Violations, Violation{Clause: v.Clause, Sig: Sig(c.Job, v.Clause), Msg: v.Msg, Status: v.Status, Choices: v.Choices, Trace: v.Trace, Bound: v.Bound, Sites: vrt.SharedSiteList()})
	}
	rep.Replays = e.Stats.Replays
	// cross-check of the reductions (jobs that ask for it are small): the same scenario explored again
	// without happens-before pruning and without shared-site reduction must produce exactly the same
	// set of outcomes; a difference means a reduction hid (or invented) behaviour
	if c.Job.Params["crosscheck"] == "1" && e.Viol == nil && rep.Exhaustive {
		vrt.NoSiteReduction = true
		e2 := &vrt.Explorer{Sc: sc, Bound: c.Job.Bound, Deadline: c.Deadline, NoPrune: true, StopFirst: true}
		e2.Explore()
		vrt.NoSiteReduction = false
		a, b := keysOf(st.Outcomes), keysOf(e2.Stats.Outcomes)
		rep.Extra["crosscheck_unreduced_executions"] = e2.Stats.Executions
		rep.Extra["crosscheck_outcomes_equal"] = a == b
		rep.Executions += e2.Stats.Executions
		rep.Transitions += e2.Stats.Transitions
		if !e2.Stats.Exhaustive {
			rep.Notes = append(rep.Notes, "unreduced cross-check did not finish within the budget: "+e2.Stats.CapHit)
		} else if a != b || e2.Viol != nil {
			rep.HarnessError = fmt.Sprintf("reduced and unreduced explorations disagree: outcomes %q vs %q (unreduced violation: %v)", a, b, e2.Viol != nil)
		}
	}
	return rep
}

func keysOf(m map[string]int64) string {
	var ks []string
	for k := range m {
		ks = append(ks, k)
	}
	sort.Strings(ks)
	return strings.Join(ks, " || ")
}
