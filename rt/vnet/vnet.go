// Package vnet is the in-memory network the harnesses plug into Cloak: connection pairs with
// message or byte-stream semantics, a tap that records everything written, fault injection, and
// listeners/dialers. Under the scheduler every operation is one scheduling point with an
// enabledness predicate; in passthrough mode a per-network mutex and condition variable are used.
package vnet

import (
	"errors"
	"fmt"
	"io"
	"net"
	"os"
	"strings"
	"sync"
	"time"

	"github.com/cbeuw/Cloak/internal/vrt"
)

var ErrReset = errors.New("vnet: connection reset by peer")
var ErrClosed = errors.New("vnet: use of closed network connection")

type timeoutErr struct{}

func (timeoutErr) Error() string   { return "vnet: i/o timeout" }
func (timeoutErr) Timeout() bool   { return true }
func (timeoutErr) Temporary() bool { return true }
func (timeoutErr) Unwrap() error   { return os.ErrDeadlineExceeded }

type TapRec struct {
	Conn string // pair name
	Dir  string // "a>b" or "b>a"
	Data []byte
	VT   int64 // virtual ns (0 in passthrough)
	Idx  int
}

type Net struct {
	mu        sync.Mutex
	cond      *sync.Cond
	Tap       []TapRec
	Conns     []*Conn
	listeners map[string]*Listener
	SegChoice bool // stream reads: the explorer chooses how many bytes are delivered
	SegBudget int  // > 0: at most this many reads per execution are cut short (a deviation bound on segmentation)
	segUsed   int
	NoTap     bool
}

// ConnByName returns the connection end with that name ("<pair>/a" or "<pair>/b"), or nil.
func (n *Net) ConnByName(name string) *Conn {
	for _, c := range n.Conns {
		if c.Name == name {
			return c
		}
	}
	return nil
}

func New() *Net {
	n := &Net{listeners: map[string]*Listener{}}
	n.cond = sync.NewCond(&n.mu)
	return n
}

// enter is the synchronisation entry of every operation. Returns false when the calling thread is
// being unwound by the scheduler (the operation must then be a no-op).
func (n *Net) enter(o *vrt.Obj, kind string, en func() bool) bool {
	if vrt.Cur() == nil {
		n.mu.Lock()
		for en != nil && !en() {
			n.cond.Wait()
		}
		return true
	}
	return vrt.Point(o, true, kind, en)
}

func (n *Net) leave() {
	if vrt.Cur() == nil {
		n.cond.Broadcast()
		n.mu.Unlock()
	}
}

type pipe struct {
	o       *vrt.Obj
	msgs    [][]byte // message mode
	buf     []byte   // stream mode
	wclosed bool
	rclosed bool
	reset   bool
	limit   int
	eofCut  int // >=0: deliver only this many more bytes, then EOF (fault)
}

func (p *pipe) avail(msg bool) bool {
	if msg {
		return len(p.msgs) > 0
	}
	return len(p.buf) > 0
}

type addr struct{ s string }

func (a addr) Network() string { return "tcp" }
func (a addr) String() string  { return a.s }

type Conn struct {
	n         *Net
	Name      string // "<pair>/a" or "<pair>/b"
	pair      string
	side      string
	in, out   *pipe
	msg       bool
	closed    bool
	rdl       int64 // virtual deadline ns since start, or real UnixNano in passthrough; 0 = none
	peer      *Conn
	la, ra    addr
	NClose    int
	ReadErr   error
	BytesIn   int64
	BytesOut  int64
	WriteHook func(c *Conn, b []byte) // harness callback evaluated inside Write (same point)
	// SentButFailed > 0: that many of the next Writes put their bytes on the wire and still report an
	// error (a write deadline that expires after the kernel took the data, an error surfacing late)
	SentButFailed int
	// PartialAt > 0: the PartialAt-th Write from now puts only its first PartialKeep bytes on the wire and
	// fails with a timeout error (a write deadline expiring while the peer's window is closed)
	PartialAt, PartialKeep int
}

// ErrSentButFailed is what a Write configured with SentButFailed returns.
var ErrSentButFailed = errors.New("vnet: write error reported after the data was sent")

// Pair creates a connected pair. msg=true: one Write is one Read (what TLSConn / WebSocketConn give
// the multiplexer); msg=false: byte stream.
func (n *Net) Pair(name string, msg bool) (*Conn, *Conn) {
	p1 := &pipe{o: vrt.NewObj("pipe " + name + " a>b"), eofCut: -1}
	p2 := &pipe{o: vrt.NewObj("pipe " + name + " b>a"), eofCut: -1}
	a := &Conn{n: n, Name: name + "/a", pair: name, side: "a", in: p2, out: p1, msg: msg, la: addr{"10.0.0.1:1000"}, ra: addr{"10.0.0.2:443"}}
	b := &Conn{n: n, Name: name + "/b", pair: name, side: "b", in: p1, out: p2, msg: msg, la: addr{"10.0.0.2:443"}, ra: addr{"10.0.0.1:1000"}}
	a.peer, b.peer = b, a
	if vrt.Cur() == nil {
		n.mu.Lock()
		n.Conns = append(n.Conns, a, b)
		n.mu.Unlock()
	} else {
		n.Conns = append(n.Conns, a, b)
	}
	return a, b
}

// SetWriteLimit makes writers on this conn block while more than limit bytes are queued.
func (c *Conn) SetWriteLimit(limit int) { c.out.limit = limit }

func (c *Conn) deadlinePassed() bool {
	if c.rdl == 0 {
		return false
	}
	if vrt.Cur() == nil {
		return time.Now().UnixNano() >= c.rdl
	}
	return vrt.NowNs() >= c.rdl
}

func (c *Conn) Read(b []byte) (int, error) {
	if len(b) == 0 {
		return 0, nil
	}
	p := c.in
	if !c.n.enter(p.o, "net.Read "+c.Name, func() bool {
		return c.closed || p.reset || p.avail(c.msg) || p.wclosed || p.eofCut == 0 || c.deadlinePassed()
	}) {
		return 0, ErrClosed
	}
	defer c.n.leave()
	switch {
	case c.closed:
		return 0, ErrClosed
	case p.reset:
		return 0, ErrReset
	case p.eofCut == 0:
		return 0, io.EOF
	case p.avail(c.msg):
		if c.msg {
			m := p.msgs[0]
			nn := copy(b, m)
			if nn < len(m) {
				// like a datagram socket: excess is a harness error, TLSConn never does this
				p.msgs[0] = m[nn:]
			} else {
				p.msgs = p.msgs[1:]
			}
			c.BytesIn += int64(nn)
			return nn, nil
		}
		nn := len(p.buf)
		if nn > len(b) {
			nn = len(b)
		}
		if p.eofCut > 0 && nn > p.eofCut {
			nn = p.eofCut
		}
		if c.n.SegChoice && nn > 1 && vrt.Active() && (c.n.SegBudget == 0 || c.n.segUsed < c.n.SegBudget) {
			// deliver everything, one byte, or all but one byte
			switch vrt.Choose(3, "seg") {
			case 1:
				nn = 1
				c.n.segUsed++
			case 2:
				nn = nn - 1
				c.n.segUsed++
			}
		}
		copy(b, p.buf[:nn])
		p.buf = p.buf[nn:]
		if p.eofCut > 0 {
			p.eofCut -= nn
		}
		c.BytesIn += int64(nn)
		return nn, nil
	case p.wclosed:
		return 0, io.EOF
	default:
		return 0, timeoutErr{}
	}
}

func (c *Conn) Write(b []byte) (int, error) {
	p := c.out
	if !c.n.enter(p.o, "net.Write "+c.Name, func() bool {
		if c.closed || p.reset || p.rclosed || p.limit == 0 {
			return true
		}
		q := len(p.buf)
		for _, m := range p.msgs {
			q += len(m)
		}
		return q < p.limit
	}) {
		return 0, ErrClosed
	}
	defer c.n.leave()
	if c.closed {
		return 0, ErrClosed
	}
	if p.reset {
		return 0, ErrReset
	}
	if p.rclosed {
		return 0, io.ErrClosedPipe
	}
	partial := false
	if c.PartialAt > 0 {
		c.PartialAt--
		if c.PartialAt == 0 && c.PartialKeep < len(b) {
			b = b[:c.PartialKeep]
			partial = true
		}
	}
	cp := append([]byte(nil), b...)
	if c.msg {
		p.msgs = append(p.msgs, cp)
	} else {
		p.buf = append(p.buf, cp...)
	}
	c.BytesOut += int64(len(b))
	if !c.n.NoTap {
		dir := "a>b"
		if c.side == "b" {
			dir = "b>a"
		}
		c.n.Tap = append(c.n.Tap, TapRec{Conn: c.pair, Dir: dir, Data: cp, VT: vrt.NowNs(), Idx: len(c.n.Tap)})
	}
	if c.WriteHook != nil {
		c.WriteHook(c, cp)
	}
	if partial {
		return len(b), timeoutErr{}
	}
	if c.SentButFailed > 0 {
		c.SentButFailed--
		return len(b), ErrSentButFailed
	}
	return len(b), nil
}

// Close closes this end: the peer drains what is queued and then reads EOF; the peer's writes fail.
func (c *Conn) Close() error {
	if !c.n.enter(c.out.o, "net.Close "+c.Name, nil) {
		return nil
	}
	defer c.n.leave()
	vrt.Event(c.in.o, true, "net.Close")
	c.NClose++
	if c.closed {
		return ErrClosed
	}
	c.closed = true
	c.out.wclosed = true
	c.in.rclosed = true
	return nil
}

// Reset is the injected fault: both ends see an error on every further operation, queued data is lost.
func (c *Conn) Reset() {
	if !c.n.enter(c.out.o, "net.RESET "+c.Name, nil) {
		return
	}
	defer c.n.leave()
	vrt.Event(c.in.o, true, "net.RESET")
	c.out.reset, c.in.reset = true, true
	c.out.msgs, c.out.buf, c.in.msgs, c.in.buf = nil, nil, nil, nil
}

// CutAfter is the injected fault "EOF after k more bytes" on the data flowing towards this end,
// and a reset of the opposite direction (the process at the other end died mid-record).
func (c *Conn) CutAfter(k int) {
	if !c.n.enter(c.in.o, "net.CUT "+c.Name, nil) {
		return
	}
	defer c.n.leave()
	vrt.Event(c.out.o, true, "net.CUT")
	c.in.eofCut = k
	c.out.reset = true
}

func (c *Conn) IsClosed() bool { return c.closed }

// Dead reports whether no more data can flow on this end (closed locally, reset, or EOF-cut).
func (c *Conn) Dead() bool { return c.closed || c.in.reset || c.out.reset }

func (c *Conn) Queued() int {
	q := len(c.in.buf)
	for _, m := range c.in.msgs {
		q += len(m)
	}
	return q
}

func (c *Conn) LocalAddr() net.Addr  { return c.la }
func (c *Conn) RemoteAddr() net.Addr { return c.ra }

func (c *Conn) SetReadDeadline(t time.Time) error {
	if !c.n.enter(c.in.o, "net.SetReadDeadline "+c.Name, nil) {
		return nil
	}
	defer c.n.leave()
	if t.IsZero() {
		c.rdl = 0
		return nil
	}
	if vrt.Cur() == nil {
		c.rdl = t.UnixNano()
		d := time.Until(t)
		if d < 0 {
			d = 0
		}
		time.AfterFunc(d+time.Millisecond, func() { c.n.mu.Lock(); c.n.cond.Broadcast(); c.n.mu.Unlock() })
		return nil
	}
	c.rdl = t.Sub(vrt.VEpoch).Nanoseconds()
	if c.rdl <= 0 {
		c.rdl = 1
	}
	vrt.AddWake(c.rdl)
	return nil
}

func (c *Conn) SetDeadline(t time.Time) error      { return c.SetReadDeadline(t) }
func (c *Conn) SetWriteDeadline(t time.Time) error { return nil }

// ---------------------------------------------------------------- listener / dialer

type Listener struct {
	n      *Net
	addr   string
	o      *vrt.Obj
	q      []*Conn
	closed bool
	Msg    bool
	count  int
}

func (n *Net) Listen(address string, msg bool) *Listener {
	l := &Listener{n: n, addr: address, o: vrt.NewObj("listener " + address), Msg: msg}
	n.listeners[address] = l
	return l
}

func (l *Listener) Accept() (net.Conn, error) {
	if !l.n.enter(l.o, "net.Accept "+l.addr, func() bool { return l.closed || len(l.q) > 0 }) {
		return nil, ErrClosed
	}
	defer l.n.leave()
	if len(l.q) > 0 {
		c := l.q[0]
		l.q = l.q[1:]
		return c, nil
	}
	return nil, ErrClosed
}

func (l *Listener) Close() error {
	if !l.n.enter(l.o, "net.ListenerClose", nil) {
		return nil
	}
	defer l.n.leave()
	l.closed = true
	return nil
}

func (l *Listener) Addr() net.Addr { return addr{l.addr} }

type Dialer struct {
	N       *Net
	FailAll bool
	OnDial  func(address string, c *Conn)
}

func (d *Dialer) Dial(network, address string) (net.Conn, error) {
	l := d.N.listeners[address]
	if l == nil || d.FailAll {
		return nil, fmt.Errorf("vnet: connection refused: %s", address)
	}
	if !d.N.enter(l.o, "net.Dial "+address, nil) {
		return nil, ErrClosed
	}
	if l.closed {
		d.N.leave()
		return nil, fmt.Errorf("vnet: connection refused: %s", address)
	}
	l.count++
	name := fmt.Sprintf("%s#%d", address, l.count)
	d.N.leave()
	a, b := d.N.Pair(name, l.Msg)
	if i := strings.LastIndexByte(address, ':'); i >= 0 {
		// the accepted end's local address carries the port that was dialled
		b.la = addr{"10.0.0.2" + address[i:]}
		a.ra = b.la
	}
	if !d.N.enter(l.o, "net.Dial2 "+address, nil) {
		return nil, ErrClosed
	}
	l.q = append(l.q, b)
	d.N.leave()
	if d.OnDial != nil {
		d.OnDial(address, a)
	}
	return a, nil
}
