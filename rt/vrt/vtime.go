package vrt

import "time"

// VEpoch is the wall-clock instant virtual time starts from.
var VEpoch = time.Unix(1700000000, 0)

func VNow() time.Time {
	s := cur
	if s == nil {
		return time.Now()
	}
	return VEpoch.Add(time.Duration(s.now))
}

func VSleep(d int64) {
	s := cur
	if s == nil {
		time.Sleep(time.Duration(d))
		return
	}
	if s.cur.abort {
		return
	}
	tm := s.addTimer(d, "sleep", nil)
	Point(nil, false, "sleep", func() bool { return s.now >= tm.at })
	Absorb(uint64(s.now))
}

type VTimer struct {
	s  *Sched
	tm *timer
	o  *Obj
}

func VAfterFunc(d int64, f func()) *VTimer {
	s := cur
	if s.cur.abort {
		return &VTimer{}
	}
	o := NewObj("timer")
	Point(o, true, "AfterFunc", nil)
	tm := s.addTimer(d, "AfterFunc", f)
	return &VTimer{s: s, tm: tm, o: o}
}

func (v *VTimer) Stop() bool {
	if v.tm == nil || cur != v.s || v.s.cur.abort {
		return false
	}
	Point(v.o, true, "Timer.Stop", nil)
	if v.tm.fired || v.tm.stopped {
		return false
	}
	v.tm.stopped = true
	return true
}

// Reset re-arms an AfterFunc timer to fire d from now; reports whether it had still been pending.
func (v *VTimer) Reset(d int64) bool {
	if v.tm == nil || cur != v.s || v.s.cur.abort {
		return false
	}
	Point(v.o, true, "Timer.Reset", nil)
	active := !(v.tm.fired || v.tm.stopped)
	v.tm.stopped = true
	v.tm = v.s.addTimer(d, "AfterFunc", v.tm.f)
	return active
}

// AdvanceTo lets a harness thread wait until virtual time t (ns since start).
func SleepUntilNs(at int64) {
	s := cur
	if s == nil {
		return
	}
	d := at - s.now
	if d > 0 {
		VSleep(d)
	}
}
