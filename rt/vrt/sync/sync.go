// Package sync shadows the standard sync package inside the instrumented mirror.
package sync

import (
	"reflect"
	rsync "sync"
	"unsafe"

	"github.com/cbeuw/Cloak/internal/vrt"
)

type Locker = rsync.Locker

type hdr struct {
	gen uint64
	o   *vrt.Obj
}

func (h *hdr) obj(label string, reset func()) *vrt.Obj {
	g := vrt.Gen()
	if h.gen != g || h.o == nil {
		h.gen = g
		h.o = vrt.NewObj(label)
		if reset != nil {
			reset()
		}
	}
	return h.o
}

// ---------------------------------------------------------------- Mutex

type Mutex struct {
	real rsync.Mutex
	h    hdr
	held bool
}

func (m *Mutex) reset() { m.held = false }

func (m *Mutex) Lock() {
	if vrt.Cur() == nil {
		m.real.Lock()
		return
	}
	if !vrt.Active() {
		return
	}
	o := m.h.obj("Mutex", m.reset)
	if vrt.Point(o, true, "Lock", func() bool { return !m.held }) {
		m.held = true
	}
}

func (m *Mutex) TryLock() bool {
	if vrt.Cur() == nil {
		return m.real.TryLock()
	}
	if !vrt.Active() {
		return true
	}
	o := m.h.obj("Mutex", m.reset)
	if vrt.Point(o, true, "TryLock", nil) {
		if m.held {
			return false
		}
		m.held = true
	}
	return true
}

func (m *Mutex) Unlock() {
	if vrt.Cur() == nil {
		m.real.Unlock()
		return
	}
	if !vrt.Active() {
		return
	}
	o := m.h.obj("Mutex", m.reset)
	if vrt.Point(o, true, "Unlock", nil) {
		if !m.held {
			panic("sync: unlock of unlocked mutex")
		}
		m.held = false
	}
}

// ---------------------------------------------------------------- RWMutex

type RWMutex struct {
	real     rsync.RWMutex
	h        hdr
	w        bool
	r        int
	wWaiting int
}

func (m *RWMutex) reset() { m.w, m.r, m.wWaiting = false, 0, 0 }

func (m *RWMutex) Lock() {
	if vrt.Cur() == nil {
		m.real.Lock()
		return
	}
	if !vrt.Active() {
		return
	}
	o := m.h.obj("RWMutex", m.reset)
	// a pending writer blocks new readers, as in the real implementation
	if !vrt.Point(o, true, "WLock-announce", nil) {
		return
	}
	m.wWaiting++
	if vrt.Point(o, true, "WLock", func() bool { return !m.w && m.r == 0 }) {
		m.wWaiting--
		m.w = true
	}
}

func (m *RWMutex) Unlock() {
	if vrt.Cur() == nil {
		m.real.Unlock()
		return
	}
	if !vrt.Active() {
		return
	}
	o := m.h.obj("RWMutex", m.reset)
	if vrt.Point(o, true, "WUnlock", nil) {
		if !m.w {
			panic("sync: Unlock of unlocked RWMutex")
		}
		m.w = false
	}
}

func (m *RWMutex) RLock() {
	if vrt.Cur() == nil {
		m.real.RLock()
		return
	}
	if !vrt.Active() {
		return
	}
	o := m.h.obj("RWMutex", m.reset)
	if vrt.Point(o, true, "RLock", func() bool { return !m.w && m.wWaiting == 0 }) {
		m.r++
	}
}

func (m *RWMutex) RUnlock() {
	if vrt.Cur() == nil {
		m.real.RUnlock()
		return
	}
	if !vrt.Active() {
		return
	}
	o := m.h.obj("RWMutex", m.reset)
	if vrt.Point(o, true, "RUnlock", nil) {
		if m.r <= 0 {
			panic("sync: RUnlock of unlocked RWMutex")
		}
		m.r--
	}
}

func (m *RWMutex) RLocker() Locker { return (*rlocker)(m) }

type rlocker RWMutex

func (r *rlocker) Lock()   { (*RWMutex)(r).RLock() }
func (r *rlocker) Unlock() { (*RWMutex)(r).RUnlock() }

// ---------------------------------------------------------------- WaitGroup

type WaitGroup struct {
	real rsync.WaitGroup
	h    hdr
	n    int
}

func (w *WaitGroup) reset() { w.n = 0 }

func (w *WaitGroup) Add(d int) {
	if vrt.Cur() == nil {
		w.real.Add(d)
		return
	}
	if !vrt.Active() {
		return
	}
	o := w.h.obj("WaitGroup", w.reset)
	if vrt.Point(o, true, "WG.Add", nil) {
		w.n += d
		if w.n < 0 {
			panic("sync: negative WaitGroup counter")
		}
	}
}

func (w *WaitGroup) Done() { w.Add(-1) }

func (w *WaitGroup) Wait() {
	if vrt.Cur() == nil {
		w.real.Wait()
		return
	}
	if !vrt.Active() {
		return
	}
	o := w.h.obj("WaitGroup", w.reset)
	vrt.Point(o, true, "WG.Wait", func() bool { return w.n == 0 })
}

// ---------------------------------------------------------------- Once

type Once struct {
	real    rsync.Once
	h       hdr
	done    bool
	running bool
}

func (on *Once) reset() { on.done, on.running = false, false }

func (on *Once) Do(f func()) {
	if vrt.Cur() == nil {
		on.real.Do(f)
		return
	}
	if !vrt.Active() {
		return
	}
	o := on.h.obj("Once", on.reset)
	if !vrt.Point(o, true, "Once.Do", func() bool { return !on.running }) {
		return
	}
	if on.done {
		return
	}
	on.running = true
	defer func() {
		on.running = false
		on.done = true
	}()
	f()
}

// ---------------------------------------------------------------- Cond

type condWaiter struct{ signaled bool }

type Cond struct {
	L       Locker
	real    *rsync.Cond
	h       hdr
	waiters []*condWaiter
}

func NewCond(l Locker) *Cond { return &Cond{L: l, real: rsync.NewCond(l)} }

func (c *Cond) reset() { c.waiters = nil }

func (c *Cond) Wait() {
	if vrt.Cur() == nil {
		c.real.Wait()
		return
	}
	if !vrt.Active() {
		return
	}
	o := c.h.obj("Cond", c.reset)
	if !vrt.Point(o, true, "Cond.Wait", nil) {
		return
	}
	w := &condWaiter{}
	c.waiters = append(c.waiters, w)
	c.L.Unlock()
	vrt.Point(o, true, "Cond.Woken", func() bool { return w.signaled })
	c.L.Lock()
}

func (c *Cond) Broadcast() {
	if vrt.Cur() == nil {
		c.real.Broadcast()
		return
	}
	if !vrt.Active() {
		return
	}
	o := c.h.obj("Cond", c.reset)
	if vrt.Point(o, true, "Cond.Broadcast", nil) {
		for _, w := range c.waiters {
			w.signaled = true
		}
		c.waiters = nil
	}
}

func (c *Cond) Signal() {
	if vrt.Cur() == nil {
		c.real.Signal()
		return
	}
	if !vrt.Active() {
		return
	}
	o := c.h.obj("Cond", c.reset)
	if vrt.Point(o, true, "Cond.Signal", nil) {
		if len(c.waiters) > 0 {
			c.waiters[0].signaled = true
			c.waiters = c.waiters[1:]
		}
	}
}

// ---------------------------------------------------------------- Pool

// Pool never recycles under the scheduler and poisons what is Put, so that a use-after-Put shows
// deterministically instead of depending on allocator luck.
type Pool struct {
	real  rsync.Pool
	New   func() any
	stack []any  // Options.PoolRecycle: LIFO of what was Put in this execution
	gen   uint64 // execution the stack belongs to
}

func (p *Pool) Get() any {
	if vrt.Cur() == nil {
		if x := p.real.Get(); x != nil {
			return x
		}
		if p.New != nil {
			return p.New()
		}
		return nil
	}
	if vrt.PoolRecycle() {
		// a recycling pool is shared state: Get and Put are events on it, so that two executions that
		// differ in who got whose buffer are different states for the explorer
		vrt.Point(vrt.ObjAt(uintptr(unsafe.Pointer(p)), "sync.Pool"), true, "Pool.Get", nil)
		if p.gen != vrt.Gen() {
			p.stack, p.gen = nil, vrt.Gen()
		}
		if n := len(p.stack); n > 0 {
			x := p.stack[n-1]
			p.stack = p.stack[:n-1]
			return x
		}
	}
	if p.New == nil {
		return nil
	}
	return p.New()
}

func (p *Pool) Put(x any) {
	if vrt.Cur() == nil {
		p.real.Put(x)
		return
	}
	if !vrt.Active() {
		return
	}
	if vrt.PoolRecycle() {
		vrt.Point(vrt.ObjAt(uintptr(unsafe.Pointer(p)), "sync.Pool"), true, "Pool.Put", nil)
		if p.gen != vrt.Gen() {
			p.stack, p.gen = nil, vrt.Gen()
		}
		p.stack = append(p.stack, x)
		return
	}
	switch b := x.(type) {
	case *[]byte:
		full := (*b)[:cap(*b)]
		for i := range full {
			full[i] = 0xAA
		}
	default:
		v := reflect.ValueOf(x)
		if v.Kind() == reflect.Ptr && !v.IsNil() && v.Elem().Kind() == reflect.Struct && v.Elem().CanSet() {
			// byte slices held by the struct (a bytes.Buffer's storage) are scribbled over first: a slice taken
			// from the object before the Put and used afterwards then shows garbage
			e := v.Elem()
			for i := 0; i < e.NumField(); i++ {
				f := e.Field(i)
				if f.Kind() == reflect.Slice && f.Type().Elem().Kind() == reflect.Uint8 && f.CanAddr() {
					b := *(*[]byte)(unsafe.Pointer(f.UnsafeAddr()))
					full := b[:cap(b)]
					for j := range full {
						full[j] = 0xAA
					}
				}
			}
			e.Set(reflect.Zero(e.Type()))
		}
	}
}

// ---------------------------------------------------------------- Map

// Map keeps insertion order under the scheduler so that Range is deterministic.
type Map struct {
	real  rsync.Map
	h     hdr
	order []any
}

func (m *Map) reset() { m.order = nil }

func (m *Map) pt(write bool, kind string) {
	if vrt.Active() {
		vrt.Point(m.h.obj("sync.Map", m.reset), write, kind, nil)
	}
}

func (m *Map) noteStore(k any) {
	if vrt.Cur() == nil {
		return
	}
	if _, ok := m.real.Load(k); !ok {
		m.order = append(m.order, k)
	}
}

func (m *Map) noteDelete(k any) {
	if vrt.Cur() == nil {
		return
	}
	for i, x := range m.order {
		if x == k {
			m.order = append(m.order[:i:i], m.order[i+1:]...)
			return
		}
	}
}

func (m *Map) Load(k any) (any, bool) { m.pt(false, "Map.Load"); return m.real.Load(k) }
func (m *Map) Store(k, v any)         { m.pt(true, "Map.Store"); m.noteStore(k); m.real.Store(k, v) }
func (m *Map) Delete(k any)           { m.pt(true, "Map.Delete"); m.noteDelete(k); m.real.Delete(k) }
func (m *Map) LoadOrStore(k, v any) (any, bool) {
	m.pt(true, "Map.LoadOrStore")
	m.noteStore(k)
	return m.real.LoadOrStore(k, v)
}
func (m *Map) LoadAndDelete(k any) (any, bool) {
	m.pt(true, "Map.LoadAndDelete")
	m.noteDelete(k)
	return m.real.LoadAndDelete(k)
}
func (m *Map) Swap(k, v any) (any, bool) {
	m.pt(true, "Map.Swap")
	m.noteStore(k)
	return m.real.Swap(k, v)
}
func (m *Map) CompareAndSwap(k, o, n any) bool {
	m.pt(true, "Map.CAS")
	return m.real.CompareAndSwap(k, o, n)
}
func (m *Map) CompareAndDelete(k, o any) bool {
	m.pt(true, "Map.CAD")
	if m.real.CompareAndDelete(k, o) {
		m.noteDelete(k)
		return true
	}
	return false
}
func (m *Map) Clear() { m.pt(true, "Map.Clear"); m.order = nil; m.real.Clear() }
func (m *Map) Range(f func(k, v any) bool) {
	m.pt(false, "Map.Range")
	if vrt.Cur() == nil {
		m.real.Range(f)
		return
	}
	keys := append([]any{}, m.order...)
	for _, k := range keys {
		v, ok := m.real.Load(k)
		if !ok {
			continue
		}
		if !f(k, v) {
			break
		}
	}
}

// OnceFunc and friends are not used by Cloak; left out on purpose so that a tree that starts using
// them fails to build instead of escaping the scheduler.
