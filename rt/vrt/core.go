// Package vrt is the cooperative runtime the instrumented mirror of Cloak is linked against.
//
// With no scheduler installed (Cur()==nil) every shim falls through to the real primitive
// ("passthrough" mode: free-running goroutines, used for the plain-flavour harnesses and the
// -race audit). With a scheduler installed exactly one managed thread runs at a time; every
// shim operation is a *point*: the thread publishes the operation it is about to perform together
// with an enabledness predicate, the scheduler picks who continues (asking the explorer whenever
// there is more than one candidate), and the operation's effect happens when the thread is resumed.
package vrt

import (
	"fmt"
	"reflect"
	"runtime"
	"runtime/debug"
	"sort"
	"strings"
	"unsafe"
)

type Status int

const (
	Complete Status = iota
	Deadlock
	Pruned
	Panicked
	Violated
	StepCap
)

func (s Status) String() string {
	return [...]string{"COMPLETE", "DEADLOCK", "PRUNED", "PANIC", "VIOLATION", "STEPCAP"}[s]
}

// Obj is a synchronisation object as seen by the happens-before fingerprinting.
type Obj struct {
	name  uint64
	lw    [2]uint64 // fingerprint of the last write access
	rs    [2]uint64 // commutative sum of read fingerprints since the last write
	Label string
	// shared-site discovery: the first thread that touched the object and the sites it was touched
	// from while still single-threaded
	owner *thread
	multi bool
	sites []uintptr
}

type thread struct {
	s       *Sched
	name    uint64
	label   string
	idx     int
	wake    chan struct{}
	ack     chan struct{}
	enabled func() bool
	pKind   string
	pObj    *Obj
	done    bool
	abort   bool
	isMain  bool
	fp      [2]uint64
	nspawn  uint64
	nobj    uint64
	nrand   uint64
	ntimer  uint64
	deadOps int
}

// PointRec describes one recorded decision point (more than one candidate).
type PointRec struct {
	N       int  // number of candidates
	Chosen  int  // candidate taken
	AltCost int  // deviation cost of taking a candidate other than 0 (1 = preemption, 0 = free)
	Before  int  // deviation cost accumulated before this point
	Key     Key  // state key at this point
	Data    bool // a data choice (Choose) rather than a thread choice
}

type Key [2]uint64

type TraceEv struct {
	Thread string `json:"t"`
	Op     string `json:"op"`
	Obj    string `json:"obj,omitempty"`
	Site   string `json:"site,omitempty"`
	VT     int64  `json:"vt_ms"`
}

type Result struct {
	Status   Status
	Outcome  string // harness-defined summary of what was observed (for the outcome histogram)
	Clause   string // oracle clause that failed (Violated) or status name
	Msg      string
	Points   []PointRec
	Steps    int
	Trace    []TraceEv
	Threads  int
	DeadInfo string
}

// Decider is asked at every decision point. It returns the candidate index, or -1 to cut the
// execution (state already explored).
type Decider func(s *Sched, n int, altCost int, data bool) int

type Options struct {
	Seed      uint64
	MemPoints bool // MemPoint is a scheduling point
	MemVars   bool // MemVar (locals shared with goroutines started by the same function) is a scheduling point
	// PoolRecycle: sync.Pool hands back the most recently Put object unchanged (LIFO) instead of never
	// recycling and poisoning - the other legal extreme of a pool, which shows state that survives in a
	// recycled object
	PoolRecycle bool
	StepCap     int   // max scheduling steps per execution
	HorizonNs   int64 // virtual time horizon: timers beyond it never fire
	Trace       bool
	// Delay: delay-bounded instead of preemption-bounded search - the default scheduler is
	// deterministic (keep running, else lowest thread name) and every other thread choice costs one
	// deviation, including switches at blocking points. Data choices stay free.
	Delay bool
	// Invariant, if set, is evaluated at every decision point (nothing else runs then, so it may read
	// private state directly); it reports through Fail.
	Invariant func()
	// ChooseRand: owned random draws that steer control flow become explorer choices when the
	// harness installs a handler; nil => PRF.
	RandInt func(n int, tag string) int
}

type timer struct {
	at      int64
	seq     uint64
	f       func()
	label   string
	name    uint64
	fp      [2]uint64
	stopped bool
	fired   bool
}

type Sched struct {
	opt      Options
	threads  []*thread
	cur      *thread
	now      int64
	timers   []*timer
	tseq     uint64
	decide   Decider
	res      Result
	finished chan struct{}
	isFin    bool
	aborting bool
	cost     int
	objs     map[uintptr]*Obj
	chans    map[any]*chanState
	outcome  []string
	gen      uint64
	Locals   map[string]any // harness scratch, per execution
	inInv    bool
}

var cur *Sched
var genCounter uint64

// Cur returns the installed scheduler or nil in passthrough mode.
func Cur() *Sched { return cur }

// Active reports whether a scheduler is installed and the calling (running) thread is not unwinding.
func Active() bool {
	s := cur
	return s != nil && !s.cur.abort
}

// PoolRecycle reports whether the running scenario asked for recycling pools.
func PoolRecycle() bool {
	s := cur
	return s != nil && s.opt.PoolRecycle
}

// Gen identifies the current execution (shim objects use it to reset stale state).
func Gen() uint64 {
	if cur == nil {
		return 0
	}
	return cur.gen
}

func mix(a, b uint64) uint64 {
	x := a ^ (b + 0x9e3779b97f4a7c15 + (a << 6) + (a >> 2))
	x ^= x >> 30
	x *= 0xbf58476d1ce4e5b9
	x ^= x >> 27
	x *= 0x94d049bb133111eb
	x ^= x >> 31
	return x
}

func mix2(a, b uint64) uint64 {
	x := (a ^ 0xa0761d6478bd642f) * (b ^ 0xe7037ed1a0b428db)
	x ^= x >> 29
	x *= 0xd6e8feb86659fd93
	x ^= x >> 32
	x += a<<17 | a>>47
	x ^= b
	x *= 0xff51afd7ed558ccd
	x ^= x >> 33
	return x
}

func hstr(s string) uint64 {
	h := uint64(1469598103934665603)
	for i := 0; i < len(s); i++ {
		h ^= uint64(s[i])
		h *= 1099511628211
	}
	return h
}

func (t *thread) absorb(v uint64) {
	t.fp[0] = mix(t.fp[0], v)
	t.fp[1] = mix2(t.fp[1], v)
}

// NewObj creates a synchronisation object named after the creating thread's history.
func NewObj(label string) *Obj {
	s := cur
	if s == nil {
		return &Obj{Label: label}
	}
	t := s.cur
	t.nobj++
	return &Obj{name: mix(mix(t.fp[0], t.nobj), hstr(label)), Label: label}
}

// ObjAt returns the object standing for a memory address (atomics, channels by identity).
func (s *Sched) objAt(p uintptr, label string) *Obj {
	o := s.objs[p]
	if o == nil {
		o = NewObj(label)
		s.objs[p] = o
	}
	return o
}

func ObjAt(p uintptr, label string) *Obj {
	if cur == nil {
		return nil
	}
	return cur.objAt(p, label)
}

func (s *Sched) event(t *thread, o *Obj, write bool, kind string) {
	kh := hstr(kind)
	if o == nil {
		t.absorb(kh)
		return
	}
	if write {
		t.absorb(mix(o.name, kh) ^ 1)
		t.absorb(o.lw[0])
		t.absorb(o.lw[1])
		t.absorb(o.rs[0])
		t.absorb(o.rs[1])
		o.lw = t.fp
		o.rs = [2]uint64{}
	} else {
		t.absorb(mix(o.name, kh))
		t.absorb(o.lw[0])
		t.absorb(o.lw[1])
		o.rs[0] += mix(t.fp[0], 0x1234567)
		o.rs[1] += mix2(t.fp[1], 0x7654321)
	}
}

// Absorb mixes a value observed by the running thread into its fingerprint (clock reads, choices).
func Absorb(v uint64) {
	if s := cur; s != nil {
		s.cur.absorb(v)
	}
}

// StateKey is the happens-before state key at this instant.
func (s *Sched) StateKey() Key {
	var k Key
	for _, t := range s.threads {
		st := uint64(0)
		if t.done {
			st = 1
		}
		k[0] += mix(mix(t.name, t.fp[0]), st+11)
		k[1] += mix2(mix2(t.name, t.fp[1]), st+13)
	}
	for _, tm := range s.timers {
		if !tm.stopped && !tm.fired {
			k[0] += mix(tm.name, uint64(tm.at))
			k[1] += mix2(tm.name, uint64(tm.at))
		}
	}
	c := s.cur
	ce := uint64(0)
	if !c.done && (c.enabled == nil || c.enabled()) {
		ce = 1
	}
	k[0] = mix(k[0], mix(c.name, ce)) ^ uint64(s.now)
	k[1] = mix2(k[1], mix2(c.name, ce)) + uint64(s.now)*0x9e3779b97f4a7c15
	return k
}

func (s *Sched) Cost() int      { return s.cost }
func (s *Sched) NowNs() int64   { return s.now }
func (s *Sched) Opt() *Options  { return &s.opt }
func (s *Sched) NumPoints() int { return len(s.res.Points) }

// Shared-site reduction. sharedKeys is the set of call sites (function+offset) known to operate on
// objects touched by more than one thread. Operations at other sites are thread-local in every
// execution explored so far and do not yield (they commute with everything). The set is frozen
// while an exploration pass runs, so that choice lists replay identically; discoveries are
// collected in pendingKeys and the explorer restarts the pass when there are any. An exploration
// is complete when a whole pass finishes without a discovery (see Explorer.Explore).
var sharedKeys = map[string]bool{}
var pendingKeys = map[string]bool{}
var pcYield = map[uintptr]bool{}
var pcKey = map[uintptr]string{}
var NoSiteReduction bool
var pcInternal = map[uintptr]bool{}

func keyOf(pc uintptr) string {
	k, ok := pcKey[pc]
	if !ok {
		f := runtime.FuncForPC(pc - 1)
		if f == nil {
			k = fmt.Sprintf("pc%x", pc)
		} else {
			k = fmt.Sprintf("%s+%d", f.Name(), pc-f.Entry())
		}
		pcKey[pc] = k
	}
	return k
}

func siteShared(pc uintptr) bool {
	y, ok := pcYield[pc]
	if !ok {
		y = sharedKeys[keyOf(pc)]
		pcYield[pc] = y
	}
	return y
}

func discover(pc uintptr) {
	if !siteShared(pc) {
		pendingKeys[keyOf(pc)] = true
	}
}

// MergePendingSites folds discoveries into the frozen set; reports whether anything was new.
func MergePendingSites() bool {
	if len(pendingKeys) == 0 {
		return false
	}
	for k := range pendingKeys {
		sharedKeys[k] = true
	}
	pendingKeys = map[string]bool{}
	pcYield = map[uintptr]bool{}
	return true
}

func SharedSiteList() []string {
	var l []string
	for k := range sharedKeys {
		l = append(l, k)
	}
	sort.Strings(l)
	return l
}

func SetSharedSites(l []string) {
	sharedKeys = map[string]bool{}
	for _, k := range l {
		sharedKeys[k] = true
	}
	pendingKeys = map[string]bool{}
	pcYield = map[uintptr]bool{}
}

func sitePC() uintptr {
	var pcs [6]uintptr
	n := runtime.Callers(3, pcs[:])
	for i := 0; i < n; i++ {
		pc := pcs[i]
		in, ok := pcInternal[pc]
		if !ok {
			f := runtime.FuncForPC(pc - 1)
			name := ""
			if f != nil {
				name = f.Name()
			}
			in = strings.Contains(name, "/internal/vrt") || strings.Contains(name, "/internal/vnet.")
			pcInternal[pc] = in
		}
		if !in {
			return pc
		}
	}
	return 1
}

func siteString(pc uintptr) string {
	f := runtime.FuncForPC(pc - 1)
	if f == nil {
		return "?"
	}
	file, line := f.FileLine(pc - 1)
	if i := strings.Index(file, "/internal/"); i >= 0 {
		file = file[i+10:]
	}
	name := f.Name()
	if i := strings.LastIndex(name, "/"); i >= 0 {
		name = name[i+1:]
	}
	return fmt.Sprintf("%s (%s:%d)", name, file, line)
}

// touch maintains the shared-site discovery; returns true when the operation must be a yield point.
func (s *Sched) touch(t *thread, o *Obj, pc uintptr) bool {
	if o == nil {
		return siteShared(pc)
	}
	if o.owner == nil {
		o.owner = t
	}
	if !o.multi && o.owner != t {
		o.multi = true
		for _, p := range o.sites {
			discover(p)
		}
		o.sites = nil
	}
	if o.multi {
		discover(pc)
	} else {
		seen := false
		for _, p := range o.sites {
			if p == pc {
				seen = true
				break
			}
		}
		if !seen {
			o.sites = append(o.sites, pc)
		}
	}
	return siteShared(pc)
}

// Point is a scheduling point for operation kind on o. en (may be nil) tells whether the operation
// can proceed; it is evaluated only while no thread runs. The caller performs the effect after
// Point returns. Returns false in passthrough / unwinding mode (caller must then not touch
// scheduler-only state).
func Point(o *Obj, write bool, kind string, en func() bool) bool {
	s := cur
	if s == nil {
		return false
	}
	t := s.cur
	if t.abort {
		t.deadOps++
		if t.deadOps > 100000 {
			runtime.Goexit()
		}
		return false
	}
	if s.inInv {
		// an invariant callback is reading state through instrumented accessors: no yield, no event
		return true
	}
	pc := sitePC()
	yield := s.touch(t, o, pc) || NoSiteReduction
	if !yield && en != nil && !en() {
		// blocked on something nobody else was seen touching (a timer, a deadline): must wait
		yield = true
	}
	if yield {
		t.enabled, t.pKind, t.pObj = en, kind, o
		s.schedule(t)
		t.enabled = nil
	}
	s.event(t, o, write, kind)
	if s.opt.Trace {
		ol := ""
		if o != nil {
			ol = o.Label
		}
		k := kind
		if !yield {
			k = "(" + kind + ")"
		}
		s.res.Trace = append(s.res.Trace, TraceEv{Thread: t.label, Op: k, Obj: ol, Site: siteString(pc), VT: s.now / 1e6})
	}
	return true
}

func (s *Sched) park(t *thread) {
	<-t.wake
	if s.aborting {
		t.abort = true
		runtime.Goexit()
	}
}

func (s *Sched) finish(st Status, clause, msg string) {
	if s.isFin {
		return
	}
	s.isFin = true
	s.res.Status = st
	if clause != "" {
		s.res.Clause = clause
	} else {
		s.res.Clause = st.String()
	}
	s.res.Msg = msg
	s.aborting = true
	close(s.finished)
}

// candidates returns the enabled threads in canonical order: t first if it can continue, then
// ascending thread name.
func (s *Sched) candidates(t *thread) ([]*thread, bool) {
	var cs []*thread
	curEn := false
	for _, u := range s.threads {
		if u.done {
			continue
		}
		if u.enabled != nil && !u.enabled() {
			continue
		}
		if u == t {
			curEn = true
			continue
		}
		cs = append(cs, u)
	}
	sort.Slice(cs, func(i, j int) bool { return cs[i].name < cs[j].name })
	if curEn {
		cs = append([]*thread{t}, cs...)
	}
	return cs, curEn
}

func (s *Sched) describeBlocked() string {
	var b []string
	for _, u := range s.threads {
		if u.done {
			continue
		}
		ol := ""
		if u.pObj != nil {
			ol = u.pObj.Label
		}
		b = append(b, fmt.Sprintf("%s@%s(%s)", u.label, u.pKind, ol))
	}
	sort.Strings(b)
	return strings.Join(b, "; ")
}

// schedule hands control to the next thread; returns when t is chosen again.
func (s *Sched) schedule(t *thread) {
	s.res.Steps++
	if s.res.Steps > s.opt.StepCap {
		s.finish(StepCap, "", "step cap "+fmt.Sprint(s.opt.StepCap))
		if t.done {
			return
		}
		s.park(t)
	}
	for {
		cs, curEn := s.candidates(t)
		if len(cs) == 0 {
			if s.advanceTime() {
				continue
			}
			s.res.DeadInfo = s.describeBlocked()
			s.finish(Deadlock, "", "no enabled thread: "+s.res.DeadInfo)
			if t.done {
				return
			}
			s.park(t)
		}
		idx := 0
		if len(cs) > 1 {
			ac := 0
			if curEn || s.opt.Delay {
				ac = 1
			}
			idx = s.decidePoint(len(cs), ac, false)
			if idx < 0 {
				s.finish(Pruned, "", "")
				if t.done {
					return
				}
				s.park(t)
			}
		}
		next := cs[idx]
		if next == t {
			return
		}
		s.cur = next
		next.wake <- struct{}{}
		if t.done {
			return
		}
		s.park(t)
		return
	}
}

func (s *Sched) decidePoint(n, altCost int, data bool) int {
	if s.opt.Invariant != nil && !s.inInv {
		s.inInv = true
		s.opt.Invariant()
		s.inInv = false
	}
	rec := PointRec{N: n, AltCost: altCost, Before: s.cost, Data: data}
	rec.Key = s.StateKey()
	s.res.Points = append(s.res.Points, rec)
	idx := s.decide(s, n, altCost, data)
	if idx < 0 {
		s.res.Points = s.res.Points[:len(s.res.Points)-1]
		return -1
	}
	if idx >= n {
		panic(fmt.Sprintf("vrt: replay divergence: choice %d out of range %d at point %d", idx, n, len(s.res.Points)-1))
	}
	s.res.Points[len(s.res.Points)-1].Chosen = idx
	if idx != 0 {
		s.cost += altCost
	}
	return idx
}

// LastKey is the key of the decision point being decided (valid inside a Decider).
func (s *Sched) LastKey() Key { return s.res.Points[len(s.res.Points)-1].Key }

// Choose is a free data choice among n values made by the explorer.
func Choose(n int, tag string) int {
	s := cur
	if s == nil {
		return 0
	}
	t := s.cur
	if t.abort || n <= 1 {
		return 0
	}
	t.absorb(hstr(tag))
	idx := s.decidePoint(n, 0, true)
	if idx < 0 {
		s.finish(Pruned, "", "")
		s.park(t)
	}
	t.absorb(uint64(idx) + 77)
	if s.opt.Trace {
		s.res.Trace = append(s.res.Trace, TraceEv{Thread: t.label, Op: fmt.Sprintf("choose %s=%d/%d", tag, idx, n), VT: s.now / 1e6})
	}
	return idx
}

// advanceTime moves the virtual clock to the earliest pending timer and fires everything due.
func (s *Sched) advanceTime() bool {
	var best int64 = -1
	for _, tm := range s.timers {
		if tm.stopped || tm.fired {
			continue
		}
		if best < 0 || tm.at < best {
			best = tm.at
		}
	}
	if best < 0 || best > s.opt.HorizonNs {
		return false
	}
	if best > s.now {
		s.now = best
	}
	live := s.timers[:0]
	var due []*timer
	for _, tm := range s.timers {
		if tm.stopped || tm.fired {
			continue
		}
		if tm.at <= s.now {
			tm.fired = true
			due = append(due, tm)
		} else {
			live = append(live, tm)
		}
	}
	s.timers = live
	sort.Slice(due, func(i, j int) bool { return due[i].seq < due[j].seq })
	for _, tm := range due {
		if tm.f != nil {
			s.spawn(tm.name, tm.fp, "timer:"+tm.label, tm.f)
		}
	}
	return true
}

func (s *Sched) addTimer(d int64, label string, f func()) *timer {
	t := s.cur
	t.ntimer++
	s.tseq++
	if d < 0 {
		d = 0
	}
	tm := &timer{at: s.now + d, seq: s.tseq, f: f, label: label, name: mix(t.name, t.ntimer+0x7100), fp: t.fp}
	t.absorb(tm.name)
	s.timers = append(s.timers, tm)
	return tm
}

func (s *Sched) spawn(name uint64, parentFp [2]uint64, label string, f func()) *thread {
	t := &thread{s: s, name: name, label: label, idx: len(s.threads), wake: make(chan struct{}, 1), ack: make(chan struct{})}
	t.fp = [2]uint64{mix(parentFp[0], name), mix2(parentFp[1], name)}
	t.pKind = "start"
	s.threads = append(s.threads, t)
	go func() {
		defer func() {
			if r := recover(); r != nil {
				if !s.isFin {
					s.res.Trace = append(s.res.Trace, TraceEv{Thread: t.label, Op: "panic"})
				}
				s.finish(Panicked, "no-panic", fmt.Sprintf("%v\n%s", r, trimStack(debug.Stack())))
			}
			close(t.ack)
		}()
		s.park(t)
		f()
		t.done = true
		if t.isMain {
			s.finish(Complete, "", "")
			return
		}
		s.schedule(t)
	}()
	return t
}

func trimStack(b []byte) string {
	lines := strings.Split(string(b), "\n")
	var out []string
	for i := 0; i < len(lines) && len(out) < 40; i++ {
		l := lines[i]
		if strings.Contains(l, "runtime/debug") || strings.Contains(l, "runtime/panic") {
			continue
		}
		out = append(out, l)
	}
	return strings.Join(out, "\n")
}

// Go starts a managed thread (a goroutine in passthrough mode).
func Go(label string, f func()) {
	s := cur
	if s == nil {
		go f()
		return
	}
	t := s.cur
	if t.abort {
		return
	}
	t.nspawn++
	name := mix(t.name, t.nspawn)
	t.absorb(name)
	s.spawn(name, t.fp, label, f)
}

// Run executes main under a fresh scheduler and returns what happened.
func Run(opt Options, decide Decider, main func()) Result {
	if opt.StepCap == 0 {
		opt.StepCap = 200000
	}
	if opt.HorizonNs == 0 {
		opt.HorizonNs = int64(3600) * 1e9
	}
	genCounter++
	s := &Sched{opt: opt, decide: decide, finished: make(chan struct{}), objs: map[uintptr]*Obj{}, chans: map[any]*chanState{}, gen: genCounter, Locals: map[string]any{}}
	cur = s
	mt := s.spawn(mix(opt.Seed, 0xabcdef), [2]uint64{1, 2}, "main", main)
	mt.isMain = true
	s.cur = mt
	mt.wake <- struct{}{}
	<-s.finished
	for i := 0; i < len(s.threads); i++ {
		t := s.threads[i]
		s.cur = t // shims consult s.cur.abort while t unwinds
		select {
		case t.wake <- struct{}{}:
		default:
		}
		<-t.ack
	}
	cur = nil
	s.res.Threads = len(s.threads)
	if s.res.Status == Complete || s.res.Status == Deadlock {
		s.res.Outcome = strings.Join(s.outcome, "|")
	}
	return s.res
}

// Fail records an oracle violation and ends the execution.
func Fail(clause, format string, args ...any) {
	s := cur
	msg := fmt.Sprintf(format, args...)
	if s == nil {
		panic("VERIF-FAIL " + clause + ": " + msg)
	}
	t := s.cur
	if t.abort {
		return
	}
	s.finish(Violated, clause, msg)
	s.park(t)
}

// Observe appends to the execution's outcome summary.
func Observe(format string, args ...any) {
	s := cur
	if s == nil || s.cur.abort {
		return
	}
	s.outcome = append(s.outcome, fmt.Sprintf(format, args...))
}

// TxPoint is inserted by the instrumenter in front of every database transaction: all transactions
// touch one object (the database), so any two of them are ordered by the explorer.
func TxPoint(site string) {
	s := cur
	if s == nil || s.cur.abort {
		return
	}
	Point(s.siteObj("database"), true, "tx", nil)
}

// MemPoint is inserted by the instrumenter before writes to shared-looking memory.
func MemPoint(site string) {
	s := cur
	if s == nil || !s.opt.MemPoints {
		return
	}
	Point(s.siteObj(site), true, "mem", nil)
}

func (s *Sched) siteObj(site string) *Obj {
	k := uintptr(hstr(site)) | 1<<63
	o := s.objs[k]
	if o == nil {
		o = &Obj{name: hstr(site), Label: site}
		s.objs[k] = o
	}
	return o
}

// Yield is a plain scheduling point with a thread-local event.
func Yield(kind string) { Point(nil, false, kind, nil) }

// ThreadLabel returns the running thread's label ("" in passthrough).
func ThreadLabel() string {
	if cur == nil {
		return ""
	}
	return cur.cur.label
}

// ThreadName returns the running thread's stable name (0 in passthrough).
func ThreadName() uint64 {
	if cur == nil {
		return 0
	}
	return cur.cur.name
}

// NextRand returns a per-thread deterministic 64-bit value (PRF of seed, thread name, counter).
func NextRand() uint64 {
	s := cur
	if s == nil {
		return 0
	}
	t := s.cur
	t.nrand++
	return mix2(mix(s.opt.Seed, t.name), t.nrand)
}

// Event records a happens-before event on o for the running thread without yielding (used when
// one operation touches a second object).
func Event(o *Obj, write bool, kind string) {
	s := cur
	if s == nil || s.cur.abort {
		return
	}
	s.event(s.cur, o, write, kind)
}

// AddWake makes sure virtual time can advance to `at` (ns since start) even if nothing else is due.
func AddWake(at int64) {
	s := cur
	if s == nil || s.cur.abort {
		return
	}
	d := at - s.now
	if d < 0 {
		return
	}
	s.addTimer(d, "wake", nil)
}

// NowNs is the virtual clock in ns since start (0 in passthrough).
func NowNs() int64 {
	if cur == nil {
		return 0
	}
	return cur.now
}

// SortedKeys returns the keys of m in a canonical order (used by the rewritten range-over-map
// statements: Go's random iteration order would otherwise be nondeterminism the explorer does not own).
func SortedKeys[M ~map[K]V, K comparable, V any](m M) []K {
	keys := make([]K, 0, len(m))
	for k := range m {
		keys = append(keys, k)
	}
	sort.Slice(keys, func(i, j int) bool { return fmt.Sprint(keys[i]) < fmt.Sprint(keys[j]) })
	return keys
}

// RangeCheck guards range statements the instrumenter did not recognise as map iterations.
func RangeCheck[T any](x T) T {
	if cur != nil {
		if reflect.ValueOf(x).Kind() == reflect.Map {
			panic("vrt: range over a map that the instrumenter did not rewrite (iteration order not owned)")
		}
	}
	return x
}

// MemVar is inserted by the instrumenter before statements that mention a local variable shared with a
// goroutine started by the same function (captured by a `go func(){...}` literal). The variable
// instance is the object: two goroutines conflict only on the same instance.
func MemVar[T any](p *T, write bool, site string) {
	s := cur
	if s == nil || !(s.opt.MemVars || s.opt.MemPoints) {
		return
	}
	Point(s.objAt(uintptr(unsafe.Pointer(p)), site), write, "memvar", nil)
}
