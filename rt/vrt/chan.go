package vrt

import (
	"reflect"
	"runtime"
)

type chanState struct {
	o      *Obj
	closed bool
}

func (s *Sched) chanOf(ch any) *chanState {
	cs := s.chans[ch]
	if cs == nil {
		cs = &chanState{o: NewObj("chan")}
		s.chans[ch] = cs
	}
	return cs
}

// Send performs `do` (a native channel send) as one scheduling point.
func Send(ch any, do func()) {
	s := cur
	if s == nil || s.cur.abort {
		if s == nil {
			do()
		}
		return
	}
	v := reflect.ValueOf(ch)
	if v.Cap() == 0 {
		panic("vrt: unbuffered channel send under the scheduler is not supported")
	}
	cs := s.chanOf(ch)
	if !Point(cs.o, true, "chan-send", func() bool { return cs.closed || v.Len() < v.Cap() }) {
		return
	}
	do() // panics on a closed channel exactly like the real thing
}

// Recv receives from ch as one scheduling point.
func Recv[T any](ch chan T) T {
	v, _ := Recv2(ch)
	return v
}

func Recv2[T any](ch chan T) (T, bool) {
	s := cur
	if s == nil {
		v, ok := <-ch
		return v, ok
	}
	var zero T
	if s.cur.abort {
		return zero, false
	}
	if cap(ch) == 0 {
		panic("vrt: unbuffered channel receive under the scheduler is not supported")
	}
	cs := s.chanOf(any(ch))
	if !Point(cs.o, true, "chan-recv", func() bool { return cs.closed || len(ch) > 0 }) {
		return zero, false
	}
	select {
	case v, ok := <-ch:
		return v, ok
	default:
		panic("vrt: channel receive would block after being enabled")
	}
}

// Close closes ch as one scheduling point.
func Close(ch any, do func()) {
	s := cur
	if s == nil || s.cur.abort {
		if s == nil {
			do()
		}
		return
	}
	cs := s.chanOf(ch)
	if !Point(cs.o, true, "chan-close", nil) {
		return
	}
	do()
	cs.closed = true
}

// ---- select

// SelCase is one communication clause of a rewritten select statement.
type SelCase struct {
	ch   any
	v    reflect.Value
	send bool
}

func SelRecv(ch any) SelCase { return SelCase{ch: ch, v: reflect.ValueOf(ch)} }
func SelSend(ch any) SelCase { return SelCase{ch: ch, v: reflect.ValueOf(ch), send: true} }

// Select is the scheduling point of a select statement (the instrumenter turns the statement into a
// switch over its result; the original statement is kept for free-running mode). It waits until a
// clause can proceed (or at once, with a default clause), lets the explorer choose among the ready
// clauses (Go chooses at random) and returns its index, -1 for default. The chosen clause then
// performs its communication with RecvNow / RecvNow2 / SendNow without another scheduling point.
func Select(hasDefault bool, cases ...SelCase) int {
	s := cur
	if s == nil {
		panic("vrt.Select in passthrough mode")
	}
	t := s.cur
	if t.abort {
		return -2
	}
	if s.inInv {
		panic("vrt.Select inside an invariant callback")
	}
	states := make([]*chanState, len(cases))
	for i, c := range cases {
		if !c.v.IsValid() || c.v.IsNil() {
			continue // a nil channel never proceeds
		}
		if c.v.Cap() == 0 {
			panic("vrt: select on an unbuffered channel under the scheduler is not supported")
		}
		states[i] = s.chanOf(c.ch)
	}
	ready := func() []int {
		var r []int
		for i, c := range cases {
			cs := states[i]
			if cs == nil {
				continue
			}
			if c.send {
				if cs.closed || c.v.Len() < c.v.Cap() {
					r = append(r, i)
				}
			} else if cs.closed || c.v.Len() > 0 {
				r = append(r, i)
			}
		}
		return r
	}
	en := func() bool { return hasDefault || len(ready()) > 0 }
	pc := sitePC()
	yield := NoSiteReduction
	var first *Obj
	for _, cs := range states {
		if cs == nil {
			continue
		}
		if first == nil {
			first = cs.o
		}
		if s.touch(t, cs.o, pc) {
			yield = true
		}
	}
	if first == nil && siteShared(pc) {
		yield = true
	}
	if !yield && !en() {
		yield = true
	}
	if yield {
		t.enabled, t.pKind, t.pObj = en, "select", first
		s.schedule(t)
		t.enabled = nil
	}
	idx := -1
	if r := ready(); len(r) > 0 {
		idx = r[0]
		if len(r) > 1 {
			idx = r[Choose(len(r), "select-clause")]
		}
	}
	// the statement observed every channel and acted on the chosen one
	for i, cs := range states {
		if cs != nil {
			s.event(t, cs.o, i == idx, "select")
		}
	}
	if s.opt.Trace {
		s.res.Trace = append(s.res.Trace, TraceEv{Thread: t.label, Op: "select", Obj: "chan", Site: siteString(pc), VT: s.now / 1e6})
	}
	return idx
}

// RecvNow receives from a channel that Select found ready (no scheduling point).
func RecvNow[T any](ch <-chan T) T {
	v, _ := RecvNow2(ch)
	return v
}

func RecvNow2[T any](ch <-chan T) (T, bool) {
	select {
	case v, ok := <-ch:
		return v, ok
	default:
		panic("vrt: channel receive would block after select chose it")
	}
}

// SelectAbort ends a thread whose Select returned -2 (the execution is being torn down).
func SelectAbort() { runtime.Goexit() }

// SendNow performs the send of the clause Select chose.
func SendNow(ch any, do func()) { do() }
