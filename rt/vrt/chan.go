package vrt

import (
	"reflect"
)

type chanState struct {
	o      *Obj
	closed bool
}

func (s *Sched) chanOf(ch any) *chanState {
	cs := s.chans[ch]
	if cs == nil {
		cs = &chanState{o: NewObj("chan")}
		s.chans[ch] = cs
	}
	return cs
}

// Send performs `do` (a native channel send) as one scheduling point.
func Send(ch any, do func()) {
	s := cur
	if s == nil || s.cur.abort {
		if s == nil {
			do()
		}
		return
	}
	v := reflect.ValueOf(ch)
	if v.Cap() == 0 {
		panic("vrt: unbuffered channel send under the scheduler is not supported")
	}
	cs := s.chanOf(ch)
	if !Point(cs.o, true, "chan-send", func() bool { return cs.closed || v.Len() < v.Cap() }) {
		return
	}
	do() // panics on a closed channel exactly like the real thing
}

// Recv receives from ch as one scheduling point.
func Recv[T any](ch chan T) T {
	v, _ := Recv2(ch)
	return v
}

func Recv2[T any](ch chan T) (T, bool) {
	s := cur
	if s == nil {
		v, ok := <-ch
		return v, ok
	}
	var zero T
	if s.cur.abort {
		return zero, false
	}
	if cap(ch) == 0 {
		panic("vrt: unbuffered channel receive under the scheduler is not supported")
	}
	cs := s.chanOf(any(ch))
	if !Point(cs.o, true, "chan-recv", func() bool { return cs.closed || len(ch) > 0 }) {
		return zero, false
	}
	select {
	case v, ok := <-ch:
		return v, ok
	default:
		panic("vrt: channel receive would block after being enabled")
	}
}

// Close closes ch as one scheduling point.
func Close(ch any, do func()) {
	s := cur
	if s == nil || s.cur.abort {
		if s == nil {
			do()
		}
		return
	}
	cs := s.chanOf(ch)
	if !Point(cs.o, true, "chan-close", nil) {
		return
	}
	do()
	cs.closed = true
}
