package vrt

import (
	"fmt"
	"sort"
	"time"
)

// Scenario is one closed driver: Main is the body of the main thread (it spawns the others with
// Go and joins them); it reports through Fail / Observe.
type Scenario struct {
	Opt  Options
	Main func()
	// Classify may turn a non-violating terminal status into a violation (e.g. DEADLOCK for a
	// liveness clause). Return "" to accept.
	Classify func(r *Result) (clause string)
}

type Stats struct {
	Executions  int64            `json:"executions"`
	Complete    int64            `json:"complete"`
	Pruned      int64            `json:"pruned"`
	Deadlocks   int64            `json:"deadlocks"`
	StepCaps    int64            `json:"stepcaps"`
	States      int64            `json:"states"`
	Transitions int64            `json:"transitions"`
	MaxPoints   int              `json:"max_points"`
	MaxThreads  int              `json:"max_threads"`
	Bound       int              `json:"bound"`
	BoundDone   int              `json:"bound_completed"`
	Exhaustive  bool             `json:"exhaustive"`
	CapHit      string           `json:"cap_hit,omitempty"`
	Outcomes    map[string]int64 `json:"outcomes"`
	WallS       float64          `json:"wall_s"`
	Replays     int64            `json:"determinism_replays"`
	SitePasses  int              `json:"site_discovery_passes"`
	SharedSites int              `json:"shared_sites"`
}

type Violation struct {
	Clause  string    `json:"clause"`
	Msg     string    `json:"msg"`
	Status  string    `json:"status"`
	Choices []int     `json:"choices"`
	Bound   int       `json:"bound"`
	Trace   []TraceEv `json:"trace,omitempty"`
	Outcome string    `json:"outcome,omitempty"`
}

type Explorer struct {
	Sc            *Scenario
	Bound         int // deviation bound; <0 = unbounded
	NoPrune       bool
	Deadline      time.Time
	MaxExec       int64
	Stats         Stats
	Viol          *Violation
	AllViol       map[string]*Violation // first violation per clause signature
	StopFirst     bool
	cache         map[Key]int16
	restart       bool
	stop          bool
	SampleChoices [][]int
}

func (e *Explorer) classify(r *Result) string {
	switch r.Status {
	case Violated:
		return r.Clause
	case Panicked:
		return "no-panic"
	case StepCap:
		return ""
	}
	if e.Sc.Classify != nil {
		return e.Sc.Classify(r)
	}
	return ""
}

// runOnce executes with the given choice prefix; after the prefix, choice 0 everywhere, cutting at
// already-explored states when prune is set.
func (e *Explorer) runOnce(prefix []int, bound int, prune bool, trace bool) Result {
	opt := e.Sc.Opt
	opt.Trace = trace
	i := 0
	decide := func(s *Sched, n, altCost int, data bool) int {
		k := i
		i++
		if k < len(prefix) {
			return prefix[k]
		}
		if prune {
			rem := int16(30000)
			if bound >= 0 {
				rem = int16(bound - s.Cost())
			}
			key := s.LastKey()
			if old, ok := e.cache[key]; ok && old >= rem {
				return -1
			}
			if _, ok := e.cache[key]; !ok {
				e.Stats.States++
			}
			e.cache[key] = rem
		}
		return 0
	}
	return Run(opt, decide, e.Sc.Main)
}

func choicesOf(r *Result) []int {
	c := make([]int, len(r.Points))
	for i, p := range r.Points {
		c[i] = p.Chosen
	}
	return c
}

func (e *Explorer) record(r *Result, bound int) {
	e.Stats.Executions++
	e.Stats.Transitions += int64(r.Steps)
	if len(r.Points) > e.Stats.MaxPoints {
		e.Stats.MaxPoints = len(r.Points)
	}
	if r.Threads > e.Stats.MaxThreads {
		e.Stats.MaxThreads = r.Threads
	}
	switch r.Status {
	case Complete:
		e.Stats.Complete++
		e.Stats.Outcomes[r.Outcome]++
	case Deadlock:
		e.Stats.Deadlocks++
		e.Stats.Outcomes["DEADLOCK:"+r.DeadInfo]++
	case Pruned:
		e.Stats.Pruned++
	case StepCap:
		e.Stats.StepCaps++
		e.Stats.CapHit = "step cap reached in some execution"
	}
	if len(e.SampleChoices) < 3 && r.Status == Complete {
		e.SampleChoices = append(e.SampleChoices, choicesOf(r))
	}
	if cl := e.classify(r); cl != "" {
		v := &Violation{Clause: cl, Msg: r.Msg, Status: r.Status.String(), Choices: choicesOf(r), Bound: bound, Outcome: r.Outcome}
		if r.Status == Deadlock {
			v.Msg = r.Msg
		}
		if e.AllViol == nil {
			e.AllViol = map[string]*Violation{}
		}
		sig := cl
		if _, ok := e.AllViol[sig]; !ok {
			e.AllViol[sig] = v
		}
		if e.Viol == nil {
			e.Viol = v
		}
		if e.StopFirst {
			e.stop = true
		}
	}
}

func (e *Explorer) explore(prefix []int, bound int) {
	if e.stop {
		return
	}
	if !e.Deadline.IsZero() && time.Now().After(e.Deadline) {
		e.Stats.CapHit = "time budget"
		e.stop = true
		return
	}
	if e.MaxExec > 0 && e.Stats.Executions >= e.MaxExec {
		e.Stats.CapHit = "execution cap"
		e.stop = true
		return
	}
	r := e.runOnce(prefix, bound, !e.NoPrune, false)
	if MergePendingSites() {
		e.Stats.Executions++
		e.Stats.Transitions += int64(r.Steps)
		e.restart, e.stop = true, true
		return
	}
	e.record(&r, bound)
	ch := choicesOf(&r)
	for i := len(r.Points) - 1; i >= len(prefix); i-- {
		p := r.Points[i]
		if bound >= 0 && p.Before+p.AltCost > bound {
			continue
		}
		for alt := 1; alt < p.N; alt++ {
			if e.stop {
				return
			}
			np := make([]int, i+1)
			copy(np, ch[:i])
			np[i] = alt
			e.explore(np, bound)
		}
	}
}

// Explore iterates the deviation bound 0..Bound (or runs unbounded when Bound<0).
func (e *Explorer) Explore() {
	start := time.Now()
	e.Stats.Outcomes = map[string]int64{}
	e.Stats.Bound = e.Bound
	e.Stats.BoundDone = -1
	bounds := []int{-1}
	if e.Bound >= 0 {
		bounds = nil
		for b := 0; b <= e.Bound; b++ {
			bounds = append(bounds, b)
		}
	}
	for bi := 0; bi < len(bounds); bi++ {
		b := bounds[bi]
		e.cache = map[Key]int16{}
		e.Stats.States = 0
		e.restart = false
		e.explore(nil, b)
		if e.restart {
			// a call site turned out to operate on a shared object: executions explored so far did
			// not yield there, so exploration starts again with the larger (frozen) site set
			e.Stats.SitePasses++
			e.stop = false
			e.Viol, e.AllViol = nil, nil
			e.SampleChoices = nil
			e.Stats.Outcomes = map[string]int64{}
			bi = -1
			continue
		}
		if e.stop {
			break
		}
		e.Stats.BoundDone = b
	}
	e.Stats.SharedSites = len(sharedKeys)
	e.Stats.Exhaustive = !e.stop && e.Stats.CapHit == ""
	if e.Bound < 0 && e.Stats.Exhaustive {
		e.Stats.BoundDone = -1
	}
	e.Stats.WallS = time.Since(start).Seconds()
}

// Replay runs one recorded choice list with tracing.
func (e *Explorer) Replay(choices []int) (Result, string) {
	r := e.runOnce(choices, -1, false, true)
	return r, e.classify(&r)
}

// CheckDeterminism replays choices twice and compares outcome, status and decision structure.
func (e *Explorer) CheckDeterminism(choices []int) error {
	var sig [2]string
	for k := 0; k < 2; k++ {
		r := e.runOnce(choices, -1, false, false)
		e.Stats.Replays++
		// (the step count is not part of the signature: it also counts hand-overs made while the threads of
		// a finished execution are unwound, which vary with how far each had got - seen once under load)
		sig[k] = fmt.Sprintf("%s|%s|%s|%v", r.Status, r.Clause, r.Outcome, pointShape(&r))
	}
	if sig[0] != sig[1] {
		return fmt.Errorf("nondeterministic replay:\n  %s\n  %s", sig[0], sig[1])
	}
	return nil
}

func pointShape(r *Result) string {
	s := ""
	for _, p := range r.Points {
		s += fmt.Sprintf("%d/%d,", p.Chosen, p.N)
	}
	return s
}

func TopOutcomes(m map[string]int64, n int) []string {
	type kv struct {
		k string
		v int64
	}
	var all []kv
	for k, v := range m {
		all = append(all, kv{k, v})
	}
	sort.Slice(all, func(i, j int) bool {
		if all[i].v != all[j].v {
			return all[i].v > all[j].v
		}
		return all[i].k < all[j].k
	})
	var out []string
	for i := 0; i < len(all) && i < n; i++ {
		out = append(out, fmt.Sprintf("%d x %s", all[i].v, all[i].k))
	}
	return out
}
