// Package rand shadows crypto/rand inside the instrumented mirror. Under the scheduler bytes come
// from a PRF of (seed, thread name, per-thread counter): a function of the thread's own history,
// not of the interleaving.
package rand

import (
	rrand "crypto/rand"
	"io"
	"math/big"

	"github.com/cbeuw/Cloak/internal/vrt"
)

type reader struct{}

func (reader) Read(b []byte) (int, error) {
	if vrt.Cur() == nil {
		return vrt.PlainRandRead(b)
	}
	fill(b)
	if len(b) == 1 {
		// a single random byte is a length or an index: a harness may pin it (Options.RandInt)
		if s := vrt.Cur(); s != nil {
			if f := s.Opt().RandInt; f != nil && vrt.Active() {
				if v := f(256, "rand.Read1"); v >= 0 {
					b[0] = byte(v)
				}
			}
		}
	}
	return len(b), nil
}

func fill(b []byte) {
	for i := 0; i < len(b); i += 8 {
		v := vrt.NextRand()
		for j := 0; j < 8 && i+j < len(b); j++ {
			b[i+j] = byte(v >> (8 * j))
		}
	}
}

var Reader io.Reader = reader{}

func Read(b []byte) (int, error) { return Reader.Read(b) }

// Int draws uniformly from [0,max). Under the scheduler a harness may turn the draw into an
// explorer choice (Options.RandInt).
func Int(r io.Reader, max *big.Int) (*big.Int, error) {
	if s := vrt.Cur(); s != nil {
		if _, ours := r.(reader); ours {
			n := int(max.Int64())
			if f := s.Opt().RandInt; f != nil && vrt.Active() {
				if v := f(n, "rand.Int"); v >= 0 {
					return big.NewInt(int64(v)), nil
				}
			}
			return big.NewInt(int64(vrt.NextRand() % uint64(n))), nil
		}
	}
	if _, ours := r.(reader); ours && vrt.PlainRandInt != nil {
		return big.NewInt(int64(vrt.PlainRandInt(int(max.Int64())))), nil
	}
	return rrand.Int(r, max)
}
