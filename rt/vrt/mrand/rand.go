// Package rand shadows math/rand/v2 inside the instrumented mirror (only what Cloak uses).
package rand

import (
	rrand "math/rand/v2"

	"github.com/cbeuw/Cloak/internal/vrt"
)

type Source = rrand.Source

type ChaCha8 = rrand.ChaCha8

func NewChaCha8(seed [32]byte) *ChaCha8 { return rrand.NewChaCha8(seed) }

type Rand struct{ r *rrand.Rand }

func New(src Source) *Rand { return &Rand{r: rrand.New(src)} }

// Uint32N is the draw switchboard.pickRandConn makes: which connection carries the frame. Under the
// scheduler it is an explorer choice (if the harness asks for it) or a PRF value.
func (r *Rand) Uint32N(n uint32) uint32 {
	if s := vrt.Cur(); s != nil {
		if f := s.Opt().RandInt; f != nil && vrt.Active() {
			if v := f(int(n), "mrand.Uint32N"); v >= 0 {
				return uint32(v)
			}
		}
		return uint32(vrt.NextRand() % uint64(n))
	}
	return r.r.Uint32N(n)
}

func (r *Rand) IntN(n int) int { return int(r.Uint32N(uint32(n))) }
func (r *Rand) Uint32() uint32 { return r.Uint32N(1<<31) | r.Uint32N(2)<<31 }
func (r *Rand) Uint64() uint64 { return uint64(r.Uint32())<<32 | uint64(r.Uint32()) }
