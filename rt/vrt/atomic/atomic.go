// Package atomic shadows sync/atomic inside the instrumented mirror: every operation is a
// scheduling point on the object standing for the address.
package atomic

import (
	ratomic "sync/atomic"
	"unsafe"

	"github.com/cbeuw/Cloak/internal/vrt"
)

func pt(p unsafe.Pointer, write bool, kind string) {
	if vrt.Active() {
		vrt.Point(vrt.ObjAt(uintptr(p), "atomic"), write, kind, nil)
	}
}

func AddInt32(a *int32, d int32) int32 {
	pt(unsafe.Pointer(a), true, "atomic.Add")
	return ratomic.AddInt32(a, d)
}
func AddInt64(a *int64, d int64) int64 {
	pt(unsafe.Pointer(a), true, "atomic.Add")
	return ratomic.AddInt64(a, d)
}
func AddUint32(a *uint32, d uint32) uint32 {
	pt(unsafe.Pointer(a), true, "atomic.Add")
	return ratomic.AddUint32(a, d)
}
func AddUint64(a *uint64, d uint64) uint64 {
	pt(unsafe.Pointer(a), true, "atomic.Add")
	return ratomic.AddUint64(a, d)
}
func LoadInt32(a *int32) int32 {
	pt(unsafe.Pointer(a), false, "atomic.Load")
	return ratomic.LoadInt32(a)
}
func LoadInt64(a *int64) int64 {
	pt(unsafe.Pointer(a), false, "atomic.Load")
	return ratomic.LoadInt64(a)
}
func LoadUint32(a *uint32) uint32 {
	pt(unsafe.Pointer(a), false, "atomic.Load")
	return ratomic.LoadUint32(a)
}
func LoadUint64(a *uint64) uint64 {
	pt(unsafe.Pointer(a), false, "atomic.Load")
	return ratomic.LoadUint64(a)
}
func StoreInt32(a *int32, v int32) {
	pt(unsafe.Pointer(a), true, "atomic.Store")
	ratomic.StoreInt32(a, v)
}
func StoreInt64(a *int64, v int64) {
	pt(unsafe.Pointer(a), true, "atomic.Store")
	ratomic.StoreInt64(a, v)
}
func StoreUint32(a *uint32, v uint32) {
	pt(unsafe.Pointer(a), true, "atomic.Store")
	ratomic.StoreUint32(a, v)
}
func StoreUint64(a *uint64, v uint64) {
	pt(unsafe.Pointer(a), true, "atomic.Store")
	ratomic.StoreUint64(a, v)
}
func SwapInt32(a *int32, v int32) int32 {
	pt(unsafe.Pointer(a), true, "atomic.Swap")
	return ratomic.SwapInt32(a, v)
}
func SwapInt64(a *int64, v int64) int64 {
	pt(unsafe.Pointer(a), true, "atomic.Swap")
	return ratomic.SwapInt64(a, v)
}
func SwapUint32(a *uint32, v uint32) uint32 {
	pt(unsafe.Pointer(a), true, "atomic.Swap")
	return ratomic.SwapUint32(a, v)
}
func SwapUint64(a *uint64, v uint64) uint64 {
	pt(unsafe.Pointer(a), true, "atomic.Swap")
	return ratomic.SwapUint64(a, v)
}
func CompareAndSwapInt32(a *int32, o, n int32) bool {
	pt(unsafe.Pointer(a), true, "atomic.CAS")
	return ratomic.CompareAndSwapInt32(a, o, n)
}
func CompareAndSwapInt64(a *int64, o, n int64) bool {
	pt(unsafe.Pointer(a), true, "atomic.CAS")
	return ratomic.CompareAndSwapInt64(a, o, n)
}
func CompareAndSwapUint32(a *uint32, o, n uint32) bool {
	pt(unsafe.Pointer(a), true, "atomic.CAS")
	return ratomic.CompareAndSwapUint32(a, o, n)
}
func CompareAndSwapUint64(a *uint64, o, n uint64) bool {
	pt(unsafe.Pointer(a), true, "atomic.CAS")
	return ratomic.CompareAndSwapUint64(a, o, n)
}

type Value struct{ v ratomic.Value }

func (x *Value) Load() any      { pt(unsafe.Pointer(x), false, "Value.Load"); return x.v.Load() }
func (x *Value) Store(v any)    { pt(unsafe.Pointer(x), true, "Value.Store"); x.v.Store(v) }
func (x *Value) Swap(v any) any { pt(unsafe.Pointer(x), true, "Value.Swap"); return x.v.Swap(v) }
func (x *Value) CompareAndSwap(o, n any) bool {
	pt(unsafe.Pointer(x), true, "Value.CAS")
	return x.v.CompareAndSwap(o, n)
}

type Bool struct{ v ratomic.Bool }

func (x *Bool) Load() bool       { pt(unsafe.Pointer(x), false, "atomic.Load"); return x.v.Load() }
func (x *Bool) Store(v bool)     { pt(unsafe.Pointer(x), true, "atomic.Store"); x.v.Store(v) }
func (x *Bool) Swap(v bool) bool { pt(unsafe.Pointer(x), true, "atomic.Swap"); return x.v.Swap(v) }
func (x *Bool) CompareAndSwap(o, n bool) bool {
	pt(unsafe.Pointer(x), true, "atomic.CAS")
	return x.v.CompareAndSwap(o, n)
}

type Int32 struct{ v ratomic.Int32 }

func (x *Int32) Load() int32        { pt(unsafe.Pointer(x), false, "atomic.Load"); return x.v.Load() }
func (x *Int32) Store(v int32)      { pt(unsafe.Pointer(x), true, "atomic.Store"); x.v.Store(v) }
func (x *Int32) Add(d int32) int32  { pt(unsafe.Pointer(x), true, "atomic.Add"); return x.v.Add(d) }
func (x *Int32) Swap(v int32) int32 { pt(unsafe.Pointer(x), true, "atomic.Swap"); return x.v.Swap(v) }
func (x *Int32) CompareAndSwap(o, n int32) bool {
	pt(unsafe.Pointer(x), true, "atomic.CAS")
	return x.v.CompareAndSwap(o, n)
}

type Int64 struct{ v ratomic.Int64 }

func (x *Int64) Load() int64        { pt(unsafe.Pointer(x), false, "atomic.Load"); return x.v.Load() }
func (x *Int64) Store(v int64)      { pt(unsafe.Pointer(x), true, "atomic.Store"); x.v.Store(v) }
func (x *Int64) Add(d int64) int64  { pt(unsafe.Pointer(x), true, "atomic.Add"); return x.v.Add(d) }
func (x *Int64) Swap(v int64) int64 { pt(unsafe.Pointer(x), true, "atomic.Swap"); return x.v.Swap(v) }
func (x *Int64) CompareAndSwap(o, n int64) bool {
	pt(unsafe.Pointer(x), true, "atomic.CAS")
	return x.v.CompareAndSwap(o, n)
}

type Uint32 struct{ v ratomic.Uint32 }

func (x *Uint32) Load() uint32        { pt(unsafe.Pointer(x), false, "atomic.Load"); return x.v.Load() }
func (x *Uint32) Store(v uint32)      { pt(unsafe.Pointer(x), true, "atomic.Store"); x.v.Store(v) }
func (x *Uint32) Add(d uint32) uint32 { pt(unsafe.Pointer(x), true, "atomic.Add"); return x.v.Add(d) }
func (x *Uint32) Swap(v uint32) uint32 {
	pt(unsafe.Pointer(x), true, "atomic.Swap")
	return x.v.Swap(v)
}
func (x *Uint32) CompareAndSwap(o, n uint32) bool {
	pt(unsafe.Pointer(x), true, "atomic.CAS")
	return x.v.CompareAndSwap(o, n)
}

type Uint64 struct{ v ratomic.Uint64 }

func (x *Uint64) Load() uint64        { pt(unsafe.Pointer(x), false, "atomic.Load"); return x.v.Load() }
func (x *Uint64) Store(v uint64)      { pt(unsafe.Pointer(x), true, "atomic.Store"); x.v.Store(v) }
func (x *Uint64) Add(d uint64) uint64 { pt(unsafe.Pointer(x), true, "atomic.Add"); return x.v.Add(d) }
func (x *Uint64) Swap(v uint64) uint64 {
	pt(unsafe.Pointer(x), true, "atomic.Swap")
	return x.v.Swap(v)
}
func (x *Uint64) CompareAndSwap(o, n uint64) bool {
	pt(unsafe.Pointer(x), true, "atomic.CAS")
	return x.v.CompareAndSwap(o, n)
}
