package vrt

import (
	crand "crypto/rand"
	"sync"
)

var plainMu sync.Mutex

// origReader is the operating-system randomness, captured before any harness redirects
// crypto/rand.Reader to DetReader.
var origReader = crand.Reader
var plainSeeded bool
var plainState, plainCtr uint64

// SeedPlainRand makes passthrough-mode randomness a seeded stream (deterministic for
// single-threaded use).
func SeedPlainRand(seed uint64) {
	plainMu.Lock()
	plainSeeded, plainState, plainCtr = true, seed, 0
	plainMu.Unlock()
}

func UnseedPlainRand() {
	plainMu.Lock()
	plainSeeded = false
	plainMu.Unlock()
}

func PlainRandRead(b []byte) (int, error) {
	plainMu.Lock()
	defer plainMu.Unlock()
	if !plainSeeded {
		return origReader.Read(b)
	}
	for i := 0; i < len(b); i += 8 {
		plainCtr++
		v := mix2(mix(plainState, 0x5151), plainCtr)
		for j := 0; j < 8 && i+j < len(b); j++ {
			b[i+j] = byte(v >> (8 * j))
		}
	}
	return len(b), nil
}

// DetReader is an io.Reader over the owned randomness, usable as crypto/rand.Reader replacement
// for un-instrumented libraries (uTLS).
type DetReader struct{}

func (DetReader) Read(b []byte) (int, error) {
	if cur == nil {
		return PlainRandRead(b)
	}
	for i := 0; i < len(b); i += 8 {
		v := NextRand()
		for j := 0; j < 8 && i+j < len(b); j++ {
			b[i+j] = byte(v >> (8 * j))
		}
	}
	return len(b), nil
}

// PlainRandInt, when set, answers crypto/rand.Int draws in passthrough mode (single-threaded
// enumeration harnesses use it to choose the padding length).
var PlainRandInt func(n int) int
