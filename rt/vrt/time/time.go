// Package time shadows the standard time package inside the instrumented mirror: the clock,
// sleeping and timers are virtual under the scheduler (time advances only when no thread can run).
package time

import (
	rtime "time"

	"github.com/cbeuw/Cloak/internal/vrt"
)

type Duration = rtime.Duration
type Time = rtime.Time
type Month = rtime.Month
type Location = rtime.Location

const (
	Nanosecond  = rtime.Nanosecond
	Microsecond = rtime.Microsecond
	Millisecond = rtime.Millisecond
	Second      = rtime.Second
	Minute      = rtime.Minute
	Hour        = rtime.Hour
	RFC3339     = rtime.RFC3339
)

var UTC = rtime.UTC

func Unix(sec, nsec int64) Time { return rtime.Unix(sec, nsec) }
func UnixMilli(ms int64) Time   { return rtime.UnixMilli(ms) }
func Date(y int, m Month, d, h, mi, s, ns int, l *Location) Time {
	return rtime.Date(y, m, d, h, mi, s, ns, l)
}
func ParseDuration(s string) (Duration, error) { return rtime.ParseDuration(s) }

func Now() Time {
	if !vrt.Active() {
		if vrt.Cur() != nil {
			return vrt.VNow()
		}
		return rtime.Now()
	}
	t := vrt.VNow()
	vrt.Absorb(uint64(t.UnixNano()))
	return t
}

func Since(t Time) Duration { return Now().Sub(t) }
func Until(t Time) Duration { return t.Sub(Now()) }

func Sleep(d Duration) {
	if vrt.Cur() == nil {
		rtime.Sleep(d)
		return
	}
	vrt.VSleep(int64(d))
}

type Timer struct {
	real *rtime.Timer
	v    *vrt.VTimer
}

func AfterFunc(d Duration, f func()) *Timer {
	if vrt.Cur() == nil {
		return &Timer{real: rtime.AfterFunc(d, f)}
	}
	return &Timer{v: vrt.VAfterFunc(int64(d), f)}
}

func (t *Timer) Stop() bool {
	if t.real != nil {
		return t.real.Stop()
	}
	if t.v == nil {
		return false
	}
	return t.v.Stop()
}

// Reset re-arms a timer created by AfterFunc.
func (t *Timer) Reset(d Duration) bool {
	if t.real != nil {
		return t.real.Reset(d)
	}
	if t.v == nil {
		return false
	}
	return t.v.Reset(int64(d))
}

// NewTimer, After, Tick and Timer.C are deliberately absent: a tree that starts using channel-based
// timers must fail to build rather than escape the virtual clock.
