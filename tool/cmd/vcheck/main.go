// vcheck drives every check: it mirrors /repo's working tree into a scratch directory, instruments
// the mirror, drops the runtime and the harnesses in, builds the explorer binary (vx), runs the
// jobs of a property in parallel, aggregates what they covered into evidence/<id>.json and applies
// the exit protocol (VIOLATION / KNOWN-FINDING lines).
package main

import (
	"bufio"
	"bytes"
	"encoding/json"
	"fmt"
	"io"
	"io/fs"
	"os"
	"os/exec"
	"path/filepath"
	"runtime"
	"sort"
	"strconv"
	"strings"
	"sync"
	"time"

	"veriftool/instr"
)

var (
	verifDir = envOr("VERIF_DIR", "/verif")
	repoDir  = envOr("VERIF_REPO", "/repo")
)

func envOr(k, d string) string {
	if v := os.Getenv(k); v != "" {
		return v
	}
	return d
}

var instrumentedPkgs = []string{
	"internal/multiplex", "internal/common", "internal/server", "internal/server/usermanager", "internal/client",
}

func fatal(format string, a ...any) {
	fmt.Fprintf(os.Stderr, "vcheck: "+format+"\n", a...)
	os.Exit(2)
}

func copyFile(src, dst string) error {
	b, err := os.ReadFile(src)
	if err != nil {
		return err
	}
	if err := os.MkdirAll(filepath.Dir(dst), 0o755); err != nil {
		return err
	}
	return os.WriteFile(dst, b, 0o644)
}

func copyTree(src, dst string, skip func(rel string, d fs.DirEntry) bool) error {
	return filepath.WalkDir(src, func(p string, d fs.DirEntry, err error) error {
		if err != nil {
			return err
		}
		rel, _ := filepath.Rel(src, p)
		if rel == "." {
			return nil
		}
		if skip != nil && skip(rel, d) {
			if d.IsDir() {
				return filepath.SkipDir
			}
			return nil
		}
		if d.IsDir() {
			return os.MkdirAll(filepath.Join(dst, rel), 0o755)
		}
		if !d.Type().IsRegular() {
			return nil
		}
		return copyFile(p, filepath.Join(dst, rel))
	})
}

var goBinPath string
var goBinLocal bool

// goBin finds the toolchain /repo's go.mod asks for. The cached toolchain module is used directly
// (GOTOOLCHAIN=local) so that no checksum-database lookup is attempted; otherwise the default go
// switches by itself.
func goBin() string {
	if goBinPath != "" {
		return goBinPath
	}
	goBinPath = "go"
	want := ""
	if b, err := os.ReadFile(filepath.Join(repoDir, "go.mod")); err == nil {
		for _, l := range strings.Split(string(b), "\n") {
			f := strings.Fields(l)
			if len(f) == 2 && f[0] == "toolchain" {
				want = f[1]
			}
		}
	}
	if want != "" {
		out, err := exec.Command("go", "env", "GOMODCACHE").Output()
		if err == nil {
			cand := filepath.Join(strings.TrimSpace(string(out)), "golang.org", "toolchain@v0.0.1-"+want+".linux-amd64", "bin", "go")
			if _, err := os.Stat(cand); err == nil {
				goBinPath, goBinLocal = cand, true
			}
		}
	}
	return goBinPath
}

func goEnv() []string {
	var env []string
	for _, e := range os.Environ() {
		if strings.HasPrefix(e, "GOFLAGS=") || strings.HasPrefix(e, "GOTOOLCHAIN=") || strings.HasPrefix(e, "GOSUMDB=") || strings.HasPrefix(e, "GOPROXY=") {
			continue
		}
		env = append(env, e)
	}
	goBin()
	env = append(env, "GOFLAGS=-mod=mod", "GOPROXY=off", "CGO_ENABLED=0")
	if goBinLocal {
		env = append(env, "GOTOOLCHAIN=local", "GOSUMDB=off")
	} else {
		env = append(env, "GOTOOLCHAIN=auto")
	}
	return env
}

type mirror struct {
	dir string
	vx  string
	st  instr.Stats
}

func (m *mirror) cleanup() {
	if m != nil && m.dir != "" && os.Getenv("VERIF_KEEP") == "" {
		os.RemoveAll(m.dir)
	}
}

// buildMirror copies the working tree of /repo, instruments it and builds vx.
func buildMirror(race bool) (*mirror, error) {
	tmp, err := os.MkdirTemp("", "vmirror-")
	if err != nil {
		return nil, err
	}
	m := &mirror{dir: tmp}
	root := filepath.Join(tmp, "src")
	err = copyTree(repoDir, root, func(rel string, d fs.DirEntry) bool {
		if rel == ".git" || strings.HasPrefix(rel, ".git/") {
			return true
		}
		if !d.IsDir() && strings.HasSuffix(rel, "_test.go") {
			return true
		}
		if strings.HasPrefix(filepath.Base(rel), "zz_verif_") {
			return true
		}
		return false
	})
	if err != nil {
		return m, fmt.Errorf("mirror copy: %v", err)
	}
	// 1. instrument the Cloak packages
	for _, pkg := range instrumentedPkgs {
		dir := filepath.Join(root, pkg)
		vars, err := instr.PackageVars(dir)
		if err != nil {
			return m, fmt.Errorf("instrument %s: %v", pkg, err)
		}
		ents, _ := os.ReadDir(dir)
		for _, e := range ents {
			if e.IsDir() || !strings.HasSuffix(e.Name(), ".go") {
				continue
			}
			p := filepath.Join(dir, e.Name())
			out, err := instr.File(p, pkg[len("internal/"):]+"/"+e.Name(), vars, &m.st)
			if err != nil {
				return m, fmt.Errorf("instrument: %v", err)
			}
			if err := os.WriteFile(p, out, 0o644); err != nil {
				return m, err
			}
		}
	}
	// 1b. the two commands as importable packages: cmd/ck-client -> internal/ckclient, cmd/ck-server ->
	// internal/ckserver (instrumented like the rest; "package main" renamed, main() exported as Main(),
	// and ck-server's net.Listen routed through a variable the harness can point at the in-memory network)
	for _, cm := range [][2]string{{"cmd/ck-client", "ckclient"}, {"cmd/ck-server", "ckserver"}} {
		src := filepath.Join(root, cm[0])
		dst := filepath.Join(root, "internal", cm[1])
		os.MkdirAll(dst, 0o755)
		vars, err := instr.PackageVars(src)
		if err != nil {
			return m, fmt.Errorf("instrument %s: %v", cm[0], err)
		}
		ents, _ := os.ReadDir(src)
		for _, e := range ents {
			if e.IsDir() || !strings.HasSuffix(e.Name(), ".go") || strings.HasSuffix(e.Name(), "_test.go") {
				continue
			}
			out, err := instr.File(filepath.Join(src, e.Name()), cm[1]+"/"+e.Name(), vars, &m.st)
			if err != nil {
				return m, fmt.Errorf("instrument: %v", err)
			}
			txt := string(out)
			txt = strings.Replace(txt, "\npackage main\n", "\npackage "+cm[1]+"\n", 1)
			if strings.HasPrefix(txt, "package main\n") {
				txt = "package " + cm[1] + "\n" + txt[len("package main\n"):]
			}
			txt = strings.Replace(txt, "\nfunc main() {", "\nfunc Main() {", 1)
			if cm[1] == "ckserver" {
				txt = strings.ReplaceAll(txt, "net.Listen(", "VerifListen(")
			}
			if err := os.WriteFile(filepath.Join(dst, e.Name()), []byte(txt), 0o644); err != nil {
				return m, err
			}
		}
	}
	// 2. vendored, instrumented copy of juju/ratelimit (token buckets on virtual time)
	rl, err := findModule("github.com/juju/ratelimit", root)
	if err != nil {
		return m, err
	}
	rlDst := filepath.Join(root, "internal/vthird/ratelimit")
	ents, _ := os.ReadDir(rl)
	os.MkdirAll(rlDst, 0o755)
	for _, e := range ents {
		if e.IsDir() || !strings.HasSuffix(e.Name(), ".go") || strings.HasSuffix(e.Name(), "_test.go") {
			continue
		}
		out, err := instr.File(filepath.Join(rl, e.Name()), "ratelimit/"+e.Name(), map[string]bool{}, &m.st)
		if err != nil {
			return m, fmt.Errorf("instrument ratelimit: %v", err)
		}
		if err := os.WriteFile(filepath.Join(rlDst, e.Name()), out, 0o644); err != nil {
			return m, err
		}
	}
	// 3. runtime + harnesses
	if err := copyTree(filepath.Join(verifDir, "rt"), filepath.Join(root, "internal"), nil); err != nil {
		return m, err
	}
	if err := copyTree(filepath.Join(verifDir, "harness"), root, nil); err != nil {
		return m, err
	}
	// 4. build
	m.vx = filepath.Join(tmp, "vx")
	args := []string{"build", "-tags", "verif", "-o", m.vx}
	if race {
		args = append(args, "-race")
	}
	args = append(args, "./cmd/vx")
	cmd := exec.Command(goBin(), args...)
	cmd.Dir = root
	cmd.Env = goEnv()
	if race {
		cmd.Env = append(cmd.Env, "CGO_ENABLED=1")
	}
	out, err := cmd.CombinedOutput()
	if err != nil {
		return m, fmt.Errorf("building the instrumented mirror failed:\n%s", out)
	}
	return m, nil
}

func findModule(mod, root string) (string, error) {
	cmd := exec.Command(goBin(), "list", "-m", "-f", "{{.Dir}}", mod)
	cmd.Dir = root
	cmd.Env = goEnv()
	out, err := cmd.Output()
	if err != nil {
		return "", fmt.Errorf("go list -m %s: %v", mod, err)
	}
	return strings.TrimSpace(string(out)), nil
}

// ---------------------------------------------------------------- jobs and reports

type Job struct {
	Scenario string            `json:"scenario"`
	Params   map[string]string `json:"params,omitempty"`
	Bound    int               `json:"bound"`
	BudgetS  int               `json:"budget_s"`
	Weight   int               `json:"weight,omitempty"`
}

type Violation struct {
	Clause  string          `json:"clause"`
	Sig     string          `json:"sig"`
	Msg     string          `json:"msg"`
	Status  string          `json:"status,omitempty"`
	Choices []int           `json:"choices,omitempty"`
	Case    json.RawMessage `json:"case,omitempty"`
	Trace   json.RawMessage `json:"trace,omitempty"`
	Bound   int             `json:"bound,omitempty"`
	Sites   []string        `json:"sites,omitempty"`
}

type Report struct {
	Job            Job               `json:"job"`
	Engine         string            `json:"engine"`
	States         int64             `json:"states"`
	Transitions    int64             `json:"transitions"`
	Executions     int64             `json:"executions"`
	Outcomes       map[string]int64  `json:"outcomes,omitempty"`
	BoundCompleted int               `json:"bound_completed"`
	Exhaustive     bool              `json:"exhaustive"`
	CapHit         string            `json:"cap_hit,omitempty"`
	WallS          float64           `json:"wall_s"`
	Violations     []Violation       `json:"violations,omitempty"`
	Samples        []json.RawMessage `json:"samples,omitempty"`
	Replays        int64             `json:"determinism_replays"`
	Notes          []string          `json:"notes,omitempty"`
	HarnessError   string            `json:"harness_error,omitempty"`
	Extra          map[string]any    `json:"extra,omitempty"`
}

func (m *mirror) listJobs(prop, tier string) ([]Job, error) {
	cmd := exec.Command(m.vx, "jobs", prop, tier)
	cmd.Env = append(os.Environ(), "VERIF_DIR="+verifDir)
	out, err := cmd.Output()
	if err != nil {
		return nil, fmt.Errorf("vx jobs: %v", err)
	}
	var jobs []Job
	if err := json.Unmarshal(out, &jobs); err != nil {
		return nil, fmt.Errorf("vx jobs output: %v", err)
	}
	return jobs, nil
}

func (m *mirror) runJob(j Job, seed int64, replay string) (*Report, string, error) {
	jb, _ := json.Marshal(j)
	args := []string{"run", string(jb)}
	if replay != "" {
		args = []string{"replay", replay}
	}
	cmd := exec.Command(m.vx, args...)
	// the cooperative scheduler runs one goroutine at a time: a single P avoids futex hand-offs
	// (measured 1.45x faster); free-running scenarios get real parallelism
	procs := "GOMAXPROCS=1"
	for _, pfx := range []string{"hs.agree", "auth.", "udp.route", "wire.udp", "ws.segment", "tls.segment", "tls.large", "codec.", "session.garbage", "dgram.sizes", "cfg.", "adminapi.", "wire.names", "climain.", "redir.tcp", "mux.longlived", "ws.textflood", "panel.history", "panel.valve", "replay.crosstransport", "sbuf.orders", "sbuf.bfs"} {
		if strings.HasPrefix(j.Scenario, pfx) && j.Scenario != "panel.valve.sched" {
			procs = "GOMAXPROCS=4"
		}
	}
	cmd.Env = append(os.Environ(), procs, fmt.Sprintf("VERIF_SEED=%d", seed), "VERIF_DIR="+verifDir, "VERIF_REPO="+repoDir)
	var stdout, stderr bytes.Buffer
	cmd.Stdout = &stdout
	cmd.Stderr = &stderr
	// watchdog: scheduled explorations stop themselves at their budget and every enumeration finishes in
	// minutes on a tree where the property holds; a job still running after the hard limit has a call
	// that never returned (seen on broken trees: a free-running enumeration waiting for data that a failed
	// write never sent). It is killed and reported as a violation of the job's termination.
	limit := 45 * time.Minute
	if os.Getenv("VERIF_TIER") == "thorough" {
		limit = 6 * time.Hour
	}
	if v := os.Getenv("VERIF_JOB_LIMIT_S"); v != "" {
		if n, e := strconv.Atoi(v); e == nil && n > 0 {
			limit = time.Duration(n) * time.Second
		}
	}
	err := cmd.Start()
	if err == nil {
		done := make(chan error, 1)
		go func() { done <- cmd.Wait() }()
		select {
		case err = <-done:
		case <-time.After(limit):
			cmd.Process.Kill()
			<-done
			if replay == "" {
				msg := fmt.Sprintf("the job did not finish within %v and was killed: some call in it never returned", limit)
				return &Report{Job: j, Engine: "watchdog", CapHit: "killed by the watchdog", Violations: []Violation{{Clause: "job-terminates", Sig: j.Scenario + paramStr(j.Params) + "|job-terminates", Msg: msg}}}, stderr.String(), nil
			}
			err = fmt.Errorf("killed after %v", limit)
		}
	}
	logs := stderr.String()
	// the report is the last line starting with "REPORT "
	var rep *Report
	sc := bufio.NewScanner(&stdout)
	sc.Buffer(make([]byte, 1<<20), 1<<28)
	var other []string
	for sc.Scan() {
		line := sc.Text()
		if strings.HasPrefix(line, "REPORT ") {
			r := &Report{}
			if e := json.Unmarshal([]byte(line[7:]), r); e != nil {
				return nil, logs, fmt.Errorf("bad report from %s: %v", j.Scenario, e)
			}
			rep = r
		} else {
			other = append(other, line)
		}
	}
	if len(other) > 0 {
		logs += strings.Join(other, "\n") + "\n"
	}
	if rep == nil && replay == "" && (strings.Contains(logs, "fatal error: ") || strings.Contains(logs, "\npanic: ") || strings.HasPrefix(logs, "panic: ")) {
		// the job's process died of something no recover can catch (stack exhaustion, a concurrent map
		// write, a panic in a goroutine the harness does not own): on a tree where the property holds no job
		// ever does, so this is reported as a violation, with the head of the crash message
		head := logs
		if i := strings.Index(head, "fatal error: "); i >= 0 {
			head = head[i:]
		} else if i := strings.Index(head, "\npanic: "); i >= 0 && !strings.HasPrefix(head, "panic: ") {
			head = head[i+1:]
		}
		if len(head) > 600 {
			head = head[:600]
		}
		return &Report{Job: j, Engine: "crash", CapHit: "the job's process crashed", Violations: []Violation{{Clause: "no-crash", Sig: j.Scenario + paramStr(j.Params) + "|no-crash", Msg: "the process running this job crashed: " + head}}}, logs, nil
	}
	if rep == nil {
		tail := logs
		if len(tail) > 4000 {
			tail = tail[len(tail)-4000:]
		}
		return nil, logs, fmt.Errorf("job %s %v produced no report (%v):\n%s", j.Scenario, j.Params, err, tail)
	}
	return rep, logs, nil
}

// ---------------------------------------------------------------- known findings

type knownEntry struct {
	kind, prop, sig, text string
}

func loadKnown() []knownEntry {
	var out []knownEntry
	b, err := os.ReadFile(filepath.Join(verifDir, "known_findings.txt"))
	if err != nil {
		return nil
	}
	for _, line := range strings.Split(string(b), "\n") {
		line = strings.TrimSpace(line)
		if line == "" || strings.HasPrefix(line, "#") {
			continue
		}
		var e knownEntry
		switch {
		case strings.HasPrefix(line, "known:"):
			e.kind = "known"
			line = strings.TrimSpace(line[6:])
		case strings.HasPrefix(line, "fixed:"):
			e.kind = "fixed"
			line = strings.TrimSpace(line[6:])
		default:
			continue
		}
		for _, f := range strings.Fields(line) {
			if strings.HasPrefix(f, "property=") && e.prop == "" {
				e.prop = f[9:]
			} else if strings.HasPrefix(f, "sig=") && e.sig == "" {
				e.sig = f[4:]
			}
		}
		e.text = line
		out = append(out, e)
	}
	return out
}

// ---------------------------------------------------------------- evidence

type evidence struct {
	PropertyID  string         `json:"property_id"`
	Tier        string         `json:"tier"`
	Seed        int64          `json:"seed"`
	Level       string         `json:"level"`
	Coverage    map[string]any `json:"coverage"`
	Assumptions []string       `json:"assumptions"`
	WallS       float64        `json:"wall_s"`
	Violations  int            `json:"violations"`
}

func runProperty(prop, tier string, seed int64) int {
	start := time.Now()
	m, err := buildMirror(false)
	defer m.cleanup()
	if err != nil {
		fatal("%v", err)
	}
	buildS := time.Since(start).Seconds()
	jobs, err := m.listJobs(prop, tier)
	if err != nil {
		fatal("%v", err)
	}
	if len(jobs) == 0 {
		fatal("no jobs registered for %s/%s", prop, tier)
	}
	// heaviest first
	sort.SliceStable(jobs, func(i, j int) bool { return jobs[i].Weight > jobs[j].Weight })
	par := runtime.NumCPU()
	if v := os.Getenv("VERIF_PAR"); v != "" {
		par, _ = strconv.Atoi(v)
	}
	reports := make([]*Report, len(jobs))
	errs := make([]error, len(jobs))
	var wg sync.WaitGroup
	sem := make(chan struct{}, par)
	for i := range jobs {
		wg.Add(1)
		go func(i int) {
			defer wg.Done()
			sem <- struct{}{}
			defer func() { <-sem }()
			rep, logs, err := m.runJob(jobs[i], seed, "")
			reports[i], errs[i] = rep, err
			if os.Getenv("VERIF_VERBOSE") != "" && logs != "" {
				fmt.Fprintf(os.Stderr, "--- %s %v\n%s", jobs[i].Scenario, jobs[i].Params, logs)
			}
		}(i)
	}
	wg.Wait()
	for i, e := range errs {
		if e != nil {
			fatal("harness broken: %v", e)
		}
		if reports[i].HarnessError != "" {
			fatal("harness broken in %s %v: %s", jobs[i].Scenario, jobs[i].Params, reports[i].HarnessError)
		}
	}

	known := loadKnown()
	cov := map[string]any{}
	var states, trans, execs, replays int64
	exhaustive := true
	var caps []string
	outcomes := map[string]int64{}
	var samples []json.RawMessage
	var perJob []map[string]any
	var notes []string
	engines := map[string]bool{}
	nviol := 0
	exit := 0
	printedKnown := map[string]bool{}
	os.MkdirAll(filepath.Join(verifDir, "replays"), 0o755)
	for i, r := range reports {
		states += r.States
		trans += r.Transitions
		execs += r.Executions
		replays += r.Replays
		engines[r.Engine] = true
		if !r.Exhaustive {
			exhaustive = false
			caps = append(caps, fmt.Sprintf("%s%v: %s", r.Job.Scenario, paramStr(r.Job.Params), r.CapHit))
		}
		for k, v := range r.Outcomes {
			outcomes[k] += v
		}
		if len(samples) < 6 && len(r.Samples) > 0 {
			samples = append(samples, r.Samples[0])
		}
		notes = append(notes, r.Notes...)
		perJob = append(perJob, map[string]any{
			"scenario": r.Job.Scenario, "params": r.Job.Params, "bound": r.Job.Bound, "bound_completed": r.BoundCompleted,
			"engine": r.Engine, "states": r.States, "transitions": r.Transitions, "executions": r.Executions,
			"distinct_outcomes": len(r.Outcomes), "exhaustive": r.Exhaustive, "cap_hit": r.CapHit, "wall_s": r.WallS, "violations": len(r.Violations),
			"extra": r.Extra,
		})
		for vi, v := range r.Violations {
			isKnown := false
			for _, k := range known {
				if k.kind == "known" && k.prop == prop && k.sig == v.Sig {
					isKnown = true
					if !printedKnown[k.sig] {
						printedKnown[k.sig] = true
						fmt.Printf("KNOWN-FINDING: %s\n", k.text)
					}
				}
			}
			if isKnown {
				continue
			}
			nviol++
			if exit == 0 || vi == 0 {
				path := filepath.Join(verifDir, "replays", fmt.Sprintf("%s-%s-%s.json", prop, sanitize(r.Job.Scenario), sanitize(v.Sig)))
				rf := map[string]any{"property": prop, "job": jobs[i], "violation": v, "seed": seed}
				b, _ := json.MarshalIndent(rf, "", " ")
				os.WriteFile(path, b, 0o644)
				fmt.Printf("VIOLATION property=%s replay=%s\n", prop, path)
				fmt.Printf("  scenario=%s params=%s clause=%s sig=%s\n  %s\n", r.Job.Scenario, paramStr(r.Job.Params), v.Clause, v.Sig, firstLines(v.Msg, 12))
			}
			exit = 1
		}
	}
	sort.Strings(notes)
	notes = uniq(notes)
	distinct := len(outcomes)
	if states < 1 {
		states = 1
	}
	cov["states"] = states
	cov["transitions"] = trans
	cov["executions"] = execs
	cov["traces_validated_against_impl"] = execs + replays
	cov["determinism_replays"] = replays
	cov["distinct_outcomes"] = distinct
	cov["exhaustive"] = exhaustive
	cov["caps_hit"] = caps
	cov["jobs"] = perJob
	cov["engines"] = keys(engines)
	cov["top_outcomes"] = topOutcomes(outcomes, 12)
	if len(samples) == 0 {
		samples = append(samples, json.RawMessage(`"(no sample reported)"`))
	}
	cov["samples"] = samples
	cov["evaluations"] = execs
	cov["distinct_nontrivial"] = distinct
	cov["rule"] = "every execution/case is a run of the real (instrumented) Cloak code; distinct = distinct observation summaries (outcome strings) across all jobs"
	cov["explanation"] = "states = distinct happens-before state keys (schedule exploration) or distinct enumerated cases/BFS states; transitions = scheduling steps or operations applied; every explored trace is an implementation run, so traces_validated_against_impl = executions + determinism re-replays"
	cov["instrumentation"] = map[string]any{"files": m.st.Files, "imports_redirected": m.st.Imports, "go_stmts": m.st.GoStmts, "chan_ops": m.st.ChanOps, "mem_points": m.st.MemPoints}
	cov["build_s"] = buildS
	cov["notes"] = notes
	ev := evidence{PropertyID: prop, Tier: tier, Seed: seed, Level: "model_checking", Coverage: cov,
		Assumptions: []string{
			"small-scope hypothesis: bounds per job are listed in coverage.jobs; nothing beyond them is claimed",
			"Cloak code communicates between goroutines only through instrumented operations (sync, atomic, channels, time, owned randomness, vnet); plain-memory races are only seen where memory points are enabled",
			"Go memory-model effects weaker than sequential consistency are not modelled",
			"third-party libraries (bbolt, gorilla, utls, logrus) and the Go standard library are trusted and run atomically between scheduling points",
		},
		WallS: time.Since(start).Seconds(), Violations: nviol}
	b, _ := json.MarshalIndent(ev, "", " ")
	os.MkdirAll(filepath.Join(verifDir, "evidence"), 0o755)
	if err := os.WriteFile(filepath.Join(verifDir, "evidence", prop+".json"), b, 0o644); err != nil {
		fatal("%v", err)
	}
	fmt.Printf("%s %s: jobs=%d executions=%d states=%d transitions=%d distinct_outcomes=%d exhaustive=%v violations=%d wall=%.1fs (build %.1fs)\n",
		prop, tier, len(jobs), execs, states, trans, distinct, exhaustive, nviol, time.Since(start).Seconds(), buildS)
	for _, c := range caps {
		fmt.Printf("  cap: %s\n", c)
	}
	if distinct < 2 && execs > 1 {
		fmt.Printf("  note: a single distinct outcome over %d executions\n", execs)
	}
	return exit
}

func paramStr(p map[string]string) string {
	ks := make([]string, 0, len(p))
	for k := range p {
		ks = append(ks, k)
	}
	sort.Strings(ks)
	var b []string
	for _, k := range ks {
		b = append(b, k+"="+p[k])
	}
	return "{" + strings.Join(b, ",") + "}"
}

func keys(m map[string]bool) []string {
	var o []string
	for k := range m {
		o = append(o, k)
	}
	sort.Strings(o)
	return o
}

func uniq(s []string) []string {
	var o []string
	for i, x := range s {
		if i == 0 || x != s[i-1] {
			o = append(o, x)
		}
	}
	return o
}

func topOutcomes(m map[string]int64, n int) []string {
	type kv struct {
		k string
		v int64
	}
	var all []kv
	for k, v := range m {
		all = append(all, kv{k, v})
	}
	sort.Slice(all, func(i, j int) bool {
		if all[i].v != all[j].v {
			return all[i].v > all[j].v
		}
		return all[i].k < all[j].k
	})
	var out []string
	for i := 0; i < len(all) && i < n; i++ {
		k := all[i].k
		if len(k) > 300 {
			k = k[:300] + "..."
		}
		out = append(out, fmt.Sprintf("%d x %s", all[i].v, k))
	}
	return out
}

func sanitize(s string) string {
	var b strings.Builder
	for _, c := range s {
		if c >= 'a' && c <= 'z' || c >= 'A' && c <= 'Z' || c >= '0' && c <= '9' || c == '-' || c == '_' || c == '.' {
			b.WriteRune(c)
		} else {
			b.WriteByte('_')
		}
	}
	r := b.String()
	if len(r) > 80 {
		r = r[:80]
	}
	return r
}

func firstLines(s string, n int) string {
	l := strings.Split(s, "\n")
	if len(l) > n {
		l = l[:n]
	}
	return strings.Join(l, "\n  ")
}

// audit builds the mirror with the race detector and runs every scheduled scenario's body free
// (real goroutines, real primitives through the passthrough shims). It validates the assumption the
// exploration rests on - Cloak's goroutines communicate only through instrumented operations - and
// never decides a property: races whose two accesses are both in harness code are dropped, the rest
// are written to audit/<prop>.txt and summarised.
func audit(prop string, seed int64) int {
	m, err := buildMirror(true)
	defer m.cleanup()
	if err != nil {
		fatal("%v", err)
	}
	jobs, err := m.listJobs(prop, "quick")
	if err != nil {
		fatal("%v", err)
	}
	os.MkdirAll(filepath.Join(verifDir, "audit"), 0o755)
	var out strings.Builder
	total, cloak := 0, 0
	seen := map[string]bool{}
	for _, j := range jobs {
		jb, _ := json.Marshal(j)
		cmd := exec.Command(m.vx, "run", string(jb))
		cmd.Env = append(os.Environ(), "VERIF_AUDIT=10", fmt.Sprintf("VERIF_SEED=%d", seed), "VERIF_DIR="+verifDir, "VERIF_REPO="+repoDir, "GORACE=halt_on_error=0")
		var stderr bytes.Buffer
		cmd.Stderr = &stderr
		cmd.Stdout = io.Discard
		done := make(chan error, 1)
		cmd.Start()
		go func() { done <- cmd.Wait() }()
		select {
		case <-done:
		case <-time.After(120 * time.Second):
			cmd.Process.Kill()
		}
		for _, rpt := range strings.Split(stderr.String(), "==================") {
			if !strings.Contains(rpt, "DATA RACE") {
				continue
			}
			total++
			// the first source line of each of the two access stacks
			var tops []string
			for _, block := range strings.Split(rpt, "\n\n") {
				if !(strings.Contains(block, "Write at") || strings.Contains(block, "Read at") || strings.Contains(block, "Previous write at") || strings.Contains(block, "Previous read at")) {
					continue
				}
				for _, l := range strings.Split(block, "\n") {
					l = strings.TrimSpace(l)
					if strings.HasPrefix(l, "/") && strings.Contains(l, ".go:") && !strings.Contains(l, "/internal/vrt/") && !strings.Contains(l, "/internal/vnet/") && !strings.Contains(l, "golang.org/toolchain@") && !strings.Contains(l, "/go/src/") {
						if i := strings.Index(l, "/src/"); i >= 0 {
							l = l[i+5:]
						}
						tops = append(tops, strings.Fields(l)[0])
						break
					}
				}
			}
			// a race whose racing access itself is inside the shims or the in-memory network is the
			// harness's, not Cloak's
			shim := false
			for _, block := range strings.Split(rpt, "\n\n") {
				ls := strings.Split(strings.TrimSpace(block), "\n")
				if len(ls) >= 3 && (strings.Contains(ls[0], " at 0x")) && (strings.Contains(ls[2], "/internal/vrt/") || strings.Contains(ls[2], "/internal/vnet/")) {
					shim = true
				}
			}
			if shim {
				continue
			}
			harnessOnly := len(tops) > 0
			for _, t := range tops {
				if !strings.Contains(t, "zz_verif_") {
					harnessOnly = false
				}
			}
			if harnessOnly {
				continue
			}
			key := strings.Join(tops, " <-> ")
			if seen[key] {
				continue
			}
			seen[key] = true
			cloak++
			fmt.Fprintf(&out, "== %s %s\n   %s\n%s\n", j.Scenario, paramStr(j.Params), key, rpt)
		}
	}
	path := filepath.Join(verifDir, "audit", prop+".txt")
	os.WriteFile(path, []byte(out.String()), 0o644)
	fmt.Printf("race audit %s: %d jobs, %d race reports, %d distinct involving Cloak code (details: %s)\n", prop, len(jobs), total, cloak, path)
	var ks []string
	for k := range seen {
		ks = append(ks, k)
	}
	sort.Strings(ks)
	for _, k := range ks {
		fmt.Printf("  race: %s\n", k)
	}
	return 0
}

func replay(path string) int {
	b, err := os.ReadFile(path)
	if err != nil {
		fatal("%v", err)
	}
	var rf struct {
		Property string `json:"property"`
	}
	if err := json.Unmarshal(b, &rf); err != nil {
		fatal("%v", err)
	}
	m, err := buildMirror(false)
	defer m.cleanup()
	if err != nil {
		fatal("%v", err)
	}
	abs, _ := filepath.Abs(path)
	cmd := exec.Command(m.vx, "replay", abs)
	cmd.Env = append(os.Environ(), "VERIF_DIR="+verifDir, "VERIF_REPO="+repoDir)
	cmd.Stdout = os.Stdout
	cmd.Stderr = os.Stderr
	if err := cmd.Run(); err != nil {
		if ee, ok := err.(*exec.ExitError); ok {
			return ee.ExitCode()
		}
		fatal("%v", err)
	}
	return 0
}

func main() {
	if len(os.Args) < 2 {
		fatal("usage: vcheck run <PROP> [--tier quick|thorough] | replay <file> | warm | mirror")
	}
	seed := int64(1)
	if v := os.Getenv("VERIF_SEED"); v != "" {
		if n, err := strconv.ParseInt(v, 10, 64); err == nil {
			seed = n
		}
	}
	switch os.Args[1] {
	case "run":
		if len(os.Args) < 3 {
			fatal("run needs a property id")
		}
		tier := envOr("VERIF_TIER", "quick")
		for i := 3; i < len(os.Args); i++ {
			if os.Args[i] == "--tier" && i+1 < len(os.Args) {
				tier = os.Args[i+1]
			}
		}
		if tier != "quick" && tier != "thorough" {
			fatal("unknown tier %q", tier)
		}
		os.Setenv("VERIF_TIER", tier) // (the job watchdog's limit depends on it)
		os.Exit(runProperty(os.Args[2], tier, seed))
	case "replay":
		if len(os.Args) < 3 {
			fatal("replay needs a file")
		}
		os.Exit(replay(os.Args[2]))
	case "audit":
		if len(os.Args) < 3 {
			fatal("audit needs a property id")
		}
		os.Exit(audit(os.Args[2], seed))
	case "warm":
		m, err := buildMirror(false)
		m.cleanup()
		if err != nil {
			fatal("%v", err)
		}
		fmt.Printf("mirror builds: %+v\n", m.st)
	case "mirror":
		// keep a mirror for debugging: prints its path
		os.Setenv("VERIF_KEEP", "1")
		m, err := buildMirror(len(os.Args) > 2 && os.Args[2] == "race")
		if err != nil {
			fmt.Println(m.dir)
			fatal("%v", err)
		}
		fmt.Println(m.dir)
	case "vx":
		// run an arbitrary vx command on a fresh mirror (debugging)
		m, err := buildMirror(false)
		defer m.cleanup()
		if err != nil {
			fatal("%v", err)
		}
		cmd := exec.Command(m.vx, os.Args[2:]...)
		cmd.Env = append(os.Environ(), "VERIF_DIR="+verifDir, "VERIF_REPO="+repoDir)
		cmd.Stdout, cmd.Stderr, cmd.Stdin = os.Stdout, os.Stderr, os.Stdin
		err = cmd.Run()
		m.cleanup()
		if err != nil {
			os.Exit(1)
		}
	default:
		fatal("unknown command %q", os.Args[1])
	}
	_ = io.Discard
}
