#!/usr/bin/env python3
"""Regenerates /verif/MANIFEST.json from the table below (one entry per claimed property)."""
import json, sys
SCHED = "stateless model checking of the implementation under a controlled scheduler (bounded DFS over schedules, arrival orders and owned random choices, happens-before state caching)"
ENUM = "bounded-exhaustive enumeration / explicit-state BFS over the real functions against a reference model"
claimed = {
 "C01": ("sched-dfs", SCHED, "all schedules up to the stated preemption/delay bound, all cross-connection arrival orders and connection choices of a closed Session-pair driver (1-3 connections, 1-3 streams, 1-3 frames, both directions, late connection adder, 4 methods) running the real multiplexer; oracle: per-stream byte FIFO, no error and no teardown on a healthy session, no deadlock", "small configurations; TLSConn/WebSocketConn are replaced by message connections (their contract is C05); bounds per job in the evidence"),
 "C02": ("enum+bfs+sched-dfs", ENUM + "; plus unbounded schedule exploration of reader vs deliverer", "all n! arrival orders x all 2^n drain patterns x 3 base sequence numbers on the real streamBuffer (n<=6 quick, n<=8 thorough), explicit-state BFS over arrived-sets with a differential oracle, and all schedules of a blocking reader against a deliverer", "frames delivered exactly once; sequence numbers near 2^64 but not wrapping"),
 "C03": ("sched-dfs", SCHED, "all schedules/arrival orders (to the stated bound) of write-then-close on a Session pair: data and closing frame on any connection, 0..3 frames, either side, simultaneous close, local close with buffered bytes, singleplex", "the server's accept loop is already waiting when traffic starts (as serveSession is); small configurations"),
 "C04": ("enum", ENUM, "every payload length 1..16132 x 4 methods (one slice per method in quick, the full product of sequence numbers around the padding threshold x closing flags x padding extremes x 3 keys x both buffer placements in thorough), all padding lengths on the extreme lengths; oracle: independent reference codec decodes the implementation's bytes, re-encodes them identically, and the implementation decodes the reference's messages; size limit; in-place == separate", "the Go crypto primitives (AES-GCM, ChaCha20-Poly1305, Salsa20) are shared with the reference and trusted; stream ids/keys from a small fixed set"),
 "C05": ("enum+sched-dfs", ENUM + "; plus exhaustive schedule exploration of concurrent writers", "all 2^(L-1) segmentations of every sequence of <=3 messages of 0..3 bytes (stream <=16 bytes quick, <=22 thorough); records of 300/16384/16640 bytes with every single cut and all cut pairs around header/body boundaries, reader buffers record-1/record/record+1/20480; one-Write-per-record on the sender; all schedules of 2-3 concurrent writers on one TLSConn and on one WebSocketConn (gorilla pair over an in-memory byte stream); every single cut of a WebSocket message stream", "gorilla/websocket's own framing is trusted; loopback TCP is not used (the scripted connection delivers exactly the enumerated segmentations)"),
 "C08": ("sched-dfs", SCHED + " on a virtual clock; histories are explorer data choices", "all histories up to depth 4-5 (quick) / 5-6 (thorough) over {present P1, present P2, present the bit-255 variant of P1, advance the server clock by 1s/179s/181s/359s/361s/12h-1s/12h} x 3 phases of the 12-hourly cleaner, with the cleaner goroutine interleaved by the scheduler; all schedules of 2-3 simultaneous presentations of one packet, also at the instant of a clean-up; oracle: acceptances per sealed identity block <= 1", "the only key-less alteration that still authenticates and changes the 32 raw key bytes is bit 255 (C07's bit-flip sweep shows every other accepted flip leaves those bytes alone)"),
 "C11": ("enum", ENUM, "every single-bit flip at every position, every truncation and extensions by 1..16 bytes of encoder output at 5 sizes x 3 AEAD methods; 8x8 matrix of (sealed under method/key A, opened under B); Session.recvDataFromRemote on every length 0..20480 x 3 fills x 4 methods with a valid frame interleaved", "bit flips are single; multi-byte corruptions only through the length sweep"),
 "C12": ("sched-dfs", SCHED + "; faults (reset, in-record EOF, Session.Close) are threads whose position is enumerated by the scheduler; timers on a virtual clock", "fault position x schedule exploration on a Session pair: reset / in-record EOF classes / Close by either side during open-transfer-close; Session.Close racing OpenStream/Read/Write/Stream.Close; stream counter at quiescence; inactivity timer racing stream opening on a virtual clock", "one fault per execution; fault position within the deviation bound; TLSConn over a vnet byte stream for in-record faults"),
 "C14": ("sched-dfs+enum", SCHED + "; plus exhaustive enumeration of datagram sizes", "all schedules (to the bound) of concurrent datagram senders on 1-2 unordered streams over 1-3 connections with reader buffers around the datagram size; the datagram pipe alone with 2 writers and 1 reader, unbounded; every datagram size 1..max+2 for every method", "no close/fault during the exchange (exactly-once clause); RouteUDP's socket loop is not explored"),
 "C15": ("sched-dfs", SCHED + "; invariant evaluated at every decision point", "N simultaneous real handshakes (client Transport.Handshake against server dispatchConnection, in-memory and bbolt user stores) for sets of (user, session id) pairs with caps 0..2 and a concurrent closure of a non-last session; oracle: same pair => same key and one session, different pairs => different keys, live sessions <= cap at every decision point, admissions = min(cap, distinct ids)", "2-3 connections, 1-2 users; handshake cryptography runs atomically between scheduling points; credit/expiry histories are covered by C16/C18 drivers"),
 "C16": ("sched-dfs", SCHED + "; the harness network's tap is the ground truth for volume", "traffic threads on 1-2 sessions of 1-2 limited users, usage-upload rounds, session closure, admin top-up/delete/expire in any overlap (in-memory and bbolt stores); oracle: deduction <= tapped volume at quiescence, equality after a final round while the user stayed active, upload<->up and download<->down, exhausted/expired/deleted users' sessions closed", "one upload round at a time (overlapping rounds belong to C17); rates high enough not to wait"),
 "C20": ("enum", ENUM, "all 2^9 presence subsets of the optional keys with the mandatory ones present (all 2^18 subsets of all keys in thorough), every mandatory key missing singly and in pairs, one-at-a-time value classes for every key under both transports, each case rendered as JSON file and as option string (base64 '=' written as '\\='); oracle: ParseConfig+ProcessRawConfig equal a table transcribed from README.md in both syntaxes, errors instead of panics; the dialer line in cmd/ck-client is checked textually", "documented meaning and defaults only; the table is my transcription of README.md"),
 "C18": ("bfs", "explicit-state BFS whose transitions are HTTP requests served by the real APIRouter on a real bbolt file (state = copy of the database file), compared with a reference map", "BFS to depth 2 over the full alphabet (2 UIDs x {POST with each of the 64 field subsets, single-field POSTs with 0/-1/1/min/max, UID mismatch, malformed JSON, out-of-range SessionsCap, GET, DELETE} + LIST + REOPEN; 162 operations) and to depth 4 over a reduced alphabet in thorough; after every transition the whole store is read back through the API (and again after close/reopen) and compared with the reference, and for every stored user ListAllUsers, GetUserInfo, AuthenticateUser, AuthoriseNewSession, UploadStatus and userPanel.GetUser (the owner connecting) are run under recover", "never-set fields are expected to read as 0; the admin gate itself (admin UID and session id 0) is exercised in C07"),
 "C19": ("sched-dfs", SCHED + " on a virtual clock (token buckets of the vendored, instrumented juju/ratelimit run on virtual time)", "all interleavings (to the bound) of 1-3 senders with their own session/connection/stream sharing one LimitedValve, rates 1000/4096/1e6 B/s, both directions; oracle on the virtual clock: for every pair of instants the bytes passed stay within 1.01*rate*dt + rate, every byte crossing the network is metered, a backlogged sender finishes in N/(0.99 rate) + one message; plus: all sessions of a user share that user's one valve", "messages no larger than one second's worth of rate; time advances only at quiescence (discrete-event semantics)"),
 "C17": ("sched-dfs", SCHED, "every 2-thread pair and the 3-/4-thread combinations of {connection admission, session closure, user termination, usage-upload round, second upload round} on the real userPanel/ActiveUser, unbounded for pairs, bounded for more; oracle: no deadlock, every live session handed out is owned by the single record the panel knows", "in-memory UserManager (the property is about the panel's locks); 1-2 users, 1-2 sessions"),
 "C13": ("sched-dfs", SCHED + " with memory points before unsynchronised field writes; sender-side wire tap decoded by an independent reference codec", "all schedules (to the bound) of concurrent Write / ReadFrom / Close on one stream plus a second stream and a failing connection; oracle: unique (stream,seq), gap-free numbering, order-preserving contiguous writes, close numbered after completed writes", "ReadFrom calls that overlap Close are not judged (the property speaks of completed writes)"),
}
na_reason = "harness not built yet (in progress); will be decided by model checking as planned in DESIGN.md"
m = {
 "version": 1,
 "setup_cmd": "cd /verif/tool && go build -o /verif/bin/vcheck ./cmd/vcheck && cd /verif && ./bin/vcheck warm",
 "hooks": {
  "guard": "verif",
  "enable": "no hooks live in /repo: every check copies /repo's working tree to a scratch mirror, instruments it mechanically (AST rewrite of sync, sync/atomic, time, crypto/rand, math/rand/v2, go statements, channel operations, map iteration) and adds the runtime and harness files, which carry the build tag `verif` and are compiled with -tags verif",
  "baseline_off_cmd": "cd /repo && go test -vet=off -count=1 -timeout 25m ./...",
  "source_commits": [],
  "add_only": True,
 },
 "engines": [
  {"name": "sched-dfs", "path": "rt/vrt", "serves_properties": sorted(k for k,v in claimed.items() if "sched" in v[0]), "kind_free_text": "cooperative scheduler + stateless DFS over the instrumented implementation with deviation bounding (preemptions or delays), happens-before state caching and shared-site reduction; virtual clock, owned randomness, adversarial in-memory network"},
  {"name": "enum/bfs", "path": "harness", "serves_properties": sorted(k for k,v in claimed.items() if "enum" in v[0] or "bfs" in v[0]), "kind_free_text": "bounded-exhaustive enumeration and explicit-state BFS whose transitions call the real functions, compared with reference models in harness/internal/vref"},
 ],
 "checks": [],
 "not_applicable": [],
 "notes": "properties are added as their harnesses land; known_findings.txt lists genuine defects (fixed or recorded)",
}
for pid in sorted(claimed):
    eng, tech, text, note = claimed[pid]
    m["checks"].append({
     "property_id": pid,
     "quick_cmd": f"./bin/vcheck run {pid} --tier quick",
     "thorough_cmd": f"./bin/vcheck run {pid} --tier thorough",
     "evidence_file": f"evidence/{pid}.json",
     "replay_cmd_template": "./bin/vcheck replay {path}",
     "engine": eng,
     "level_claimed": {"category": "model_checking", "text": text, "design_ref": f"DESIGN.md §5 {pid}"},
     "level_note": note + "; sequentially consistent memory; Go runtime and third-party libraries trusted",
     "technique": tech,
    })
for i in range(1, 21):
    pid = "C%02d" % i
    if pid not in claimed:
        m["not_applicable"].append({"property_id": pid, "reason": na_reason})
json.dump(m, open("/verif/MANIFEST.json", "w"), indent=1)
print("claimed:", sorted(claimed))
