import sys,json
for l in sys.stdin:
    if l.startswith('REPORT '):
        r=json.loads(l[7:])
        print({k:r.get(k) for k in ['states','transitions','executions','bound_completed','exhaustive','cap_hit','wall_s','harness_error']})
        print(' outcomes:', dict(list(r.get('outcomes',{}).items())[:8]))
        print(' extra:', r.get('extra'))
        for v in r.get('violations',[]):
            print(' VIOL', v['clause'], '|', v['msg'][:1500])
            if '-t' in sys.argv:
                for e in (v.get('trace') or [])[-60:]: print('    ', e)
    else:
        print(l, end='')
