#!/bin/bash
# usage: tool/seedcheck.sh <PROP> <k> [extra props to run...]
# Confirms a sub-agent's change (/tmp/seed/<PROP>/out/change<k>) in a fresh scratch worktree:
# applies, builds, baseline tests still pass, demo fails with / passes without. Then runs the
# property's quick check (and any extra ones) against /repo with the patch applied, and undoes it.
set -u
P=$1; K=$2; shift 2
SRC=${SEEDROOT:-/tmp/seed}/$P/out/change$K
[ -f "$SRC/patch.diff" ] || { echo "no $SRC/patch.diff"; exit 2; }
WT=/tmp/seedverify-$P-$K
git -C /repo worktree remove --force "$WT" 2>/dev/null
git -C /repo worktree add -q --detach "$WT" HEAD || exit 2
cd "$WT" || exit 2
res() { echo "RESULT $P/$K: $*"; }
if ! git apply --3way "$SRC/patch.diff" 2>/tmp/seedapply.err; then
  if ! git apply "$SRC/patch.diff" 2>>/tmp/seedapply.err; then res "patch does not apply: $(head -3 /tmp/seedapply.err)"; cd /; git -C /repo worktree remove --force "$WT"; exit 3; fi
fi
git diff HEAD > /tmp/seed-$P-$K.applied.diff
git reset -q --hard HEAD; git apply /tmp/seed-$P-$K.applied.diff
if ! go build ./... 2>/tmp/seedbuild.err; then res "does not build: $(head -3 /tmp/seedbuild.err)"; cd /; git -C /repo worktree remove --force "$WT"; exit 3; fi
# baseline with the change (twice; TestParseRedirAddr is the known offline failure)
base_ok=1
for i in 1 2; do
  go test -count=1 ./... 2>&1 | grep -E "^--- FAIL" | grep -v "TestParseRedirAddr" > /tmp/seedbase.$i
  if [ -s /tmp/seedbase.$i ]; then base_ok=0; fi
done
if [ $base_ok = 0 ] && ! cat /tmp/seedbase.1 /tmp/seedbase.2 | grep -v "TestReadFirstPacket" | grep -q .; then
  # only the timing test TestReadFirstPacket failed (a known flake on a loaded machine): it is
  # re-run on its own; one clean pass shows the change did not break it
  for i in 1 2 3; do
    if go test -count=1 -run '^TestReadFirstPacket$' ./internal/server/ > /tmp/seedbase.rfp 2>&1; then base_ok=1; echo "baseline: TestReadFirstPacket flaked under load, passes when run alone (attempt $i)"; break; fi
  done
fi
[ $base_ok = 1 ] && echo "baseline with change: pass (x2)" || { echo "baseline with change: FAILS:"; cat /tmp/seedbase.1 /tmp/seedbase.2 | sort -u; }
# demo: find *_test.go files in the change dir and the package they say they belong to
demo_with=unknown; demo_without=unknown
for f in "$SRC"/*_test.go "$SRC"/demo/*_test.go "$SRC"/*/*_test.go; do
  [ -f "$f" ] || continue
  pkg=$(grep -m1 '^package ' "$f" | awk '{print $2}')
  case "$pkg" in
    multiplex) d=internal/multiplex;; server) d=internal/server;; client) d=internal/client;; common) d=internal/common;; usermanager) d=internal/server/usermanager;; main) if grep -q "internal/server\|ck-server" "$f" "$SRC/NOTES.md" 2>/dev/null && ! grep -q "cmd/ck-client" "$SRC/NOTES.md" 2>/dev/null; then d=cmd/ck-server; else d=cmd/ck-client; fi;; *) d=$(grep -rl "^package $pkg\$" --include=*.go internal cmd | head -1 | xargs dirname);;
  esac
  cp "$f" "$d/zz_seed_demo_test.go"
  tn=$(grep -oE '^func (Test[A-Za-z0-9_]+)' "$f" | awk '{print $2}' | paste -sd'|')
  if go test -count=1 -run "^($tn)\$" "./$d" > /tmp/seeddemo.with 2>&1; then demo_with=pass; else demo_with=fail; fi
  git reset -q --hard HEAD
  cp "$f" "$d/zz_seed_demo_test.go"
  if go test -count=1 -run "^($tn)\$" "./$d" > /tmp/seeddemo.without 2>&1; then demo_without=pass; else demo_without=fail; fi
  rm -f "$d/zz_seed_demo_test.go"
  git apply /tmp/seed-$P-$K.applied.diff
  echo "demo $(basename $f) in $d [$tn]: with change=$demo_with without=$demo_without"
done
VDIR=${VERIF_SNAP:-/verif}
cd "$VDIR"
git -C /repo worktree remove --force "$WT"
# now the checks, against /repo itself
if ! git -C /repo diff --quiet; then echo "/repo dirty"; exit 2; fi
git -C /repo apply /tmp/seed-$P-$K.applied.diff || { res "applied diff does not apply to /repo"; exit 3; }
for prop in $P "$@"; do
  VERIF_DIR="$VDIR" ./bin/vcheck run $prop --tier quick > /tmp/seedcheck.$prop.out 2>&1; rc=$?
  n=$(grep -c "^VIOLATION" /tmp/seedcheck.$prop.out)
  echo "check $prop: exit=$rc violations=$n"
  grep -A1 "^VIOLATION" /tmp/seedcheck.$prop.out | grep "clause=" | sed 's/.*clause=/    clause=/' | sort | uniq -c | head -5
  grep "^vcheck:" /tmp/seedcheck.$prop.out | head -3
done
git -C /repo checkout -- .
[ "$VDIR" = /verif ] && git -C /verif checkout -- evidence 2>/dev/null
res "baseline_ok=$base_ok demo_with=$demo_with demo_without=$demo_without"
