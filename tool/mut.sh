#!/bin/bash
# usage: tool/mut.sh <patch> <PROP> [tier]  -- applies a patch to /repo, runs the check, reverts.
set -u
patch=$(realpath "$1"); prop=$2; tier=${3:-quick}
cd /repo || exit 2
if ! git diff --quiet; then echo "/repo has uncommitted changes"; exit 2; fi
git apply "$patch" || { echo "patch does not apply"; exit 2; }
cd /verif
VERIF_DIR=/verif ./bin/vcheck run "$prop" --tier "$tier" > /tmp/mut.$$.out 2>&1
rc=$?
git -C /repo checkout -- . 
grep -E "VIOLATION|KNOWN|clause=|quick:|thorough:|vcheck:" /tmp/mut.$$.out | head -8
rm -f /tmp/mut.$$.out
git -C /verif checkout -- evidence 2>/dev/null
echo "exit=$rc"
exit $rc
