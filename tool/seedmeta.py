#!/usr/bin/env python3
"""Collects confirmed sub-agent changes from /tmp/seed/<P>/out/change<k> into /verif/seeded/<P>-<k>/
(patch.diff rebased onto /repo HEAD, the demonstration, the agent's notes, meta.json) using the
results that tool/seedcheck.sh left in /tmp/seedres-<P>-<k>.log."""
import json, os, re, shutil, glob, subprocess
DESC = {
 "C01-1": ("streamBuffer.Write writes released payloads to the pipe after dropping recvM", "2+ connections, 3+ frames of one stream in flight, a cross-connection reorder, and a third frame arriving on another connection exactly while the released frames are being flushed"),
 "C01-2": ("recvDataFromRemote shortcut: a closing frame for a known stream closes it at once instead of going through the reorder buffer", "2+ connections and the closing frame overtaking the last data frames on a slower connection"),
 "C02-1": ("drain loop coalesces parked frames into one write but returns on the closing frame before flushing", "closing frame and at least one lower data frame both parked when the gap filler arrives (n>=3, e.g. order 1,2c,0)"),
 "C02-2": ("reorder-window check nextRecvSeq+maxReorderDistance overflows uint64", "sequence numbers within 2^20 of 2^64 and any non-identity arrival order"),
 "C03-1": ("heap-drain loop delivers a frame's payload before looking at its closing flag", "2+ connections and the closing notice overtaking data: its random padding is delivered as stream data"),
 "C03-2": ("closeStream skips the closing frame when the stream never sent a frame", "exactly zero bytes written before Close on a multiplexed session: the peer's Read never returns"),
 "C04-1": ("MakeSession clamps configured limits *below* 16640 up to 16640 (comparison direction slip)", "a configured limit < 16640 (16401 in production), a full-size payload and a padded first frame"),
 "C04-2": ("deobfuscate runt check uses <= : the smallest legal frame is refused", "payload of exactly 1 byte without padding (seq >= 5 or padding draw 0)"),
 "C05-1": ("read-ahead buffer in TLSConn.Read mishandles a header fragment left mid-buffer", "a read that ends 1-4 bytes into the next record header without filling the read-ahead buffer"),
 "C05-2": ("WebSocketConn.Read loop bounded by len(buf): oversize message returned truncated without error", "a WebSocket message strictly longer than the reader's buffer"),
 "C06-1": ("decryptClientInfo takes its plaintext buffer from a sync.Pool; ClientInfo.UID aliases it", "a second first-packet processed between AuthFirstPacket and the later uses of ci.UID (concurrent handshakes)"),
 "C06-2": ("proxy-method field read 'up to the first NUL' without stopping at byte 28", "a 12-byte proxy method name together with a non-plain encryption method"),
 "C07-1": ("timestamp window rewritten as |client-server| >= tolerance with a saturating Sub", "a correctly sealed packet stamped more than ~292 years before the server clock (or MaxInt64)"),
 "C07-2": ("credit checks dropped from AuthoriseNewSession", "user already active, credit then set to 0 through the admin API, a connection with a new session id before the next upload round"),
 "C08-1": ("replay memory split per transport (separate map for WebSocket)", "a captured TLS handshake re-wrapped as a WebSocket request (or the reverse)"),
 "C08-2": ("cleaner rebuilds the map from a snapshot taken under RLock and swaps it in", "a handshake registered between the cleaner's snapshot and its swap, then replayed"),
 "C09-1": ("readFirstPacket compares dataLength instead of dataLength+5 with the buffer size", "first byte 0x16 and a declared record length of 2996..3000: slice out of range, no recover, process dies"),
 "C09-2": ("goWeb starts both Copy goroutines before replaying the consumed prefix", "peer bytes beyond the consumed prefix already pending and the copier writing to the target before the prefix"),
 "C10-1": ("TLSConn.Write grows its pooled buffer with make() and loses the 3 header bytes", "a record payload larger than ~14 KB (bulk transfer): records go out as 00 00 00 <len>"),
 "C10-2": ("obfuscate returns 0,nil for an empty payload: a zero-length application-data record is sent", "UDP mode and the proxied service sending an empty datagram"),
 "C11-1": ("makeAESGCM helper passes the full 32-byte key for aes-128-gcm too", "a frame sealed under aes-256-gcm presented to an aes-128-gcm session with the same key (or an independent AES-128 encoder)"),
 "C11-2": ("deobfuscate returns nil for an empty input without filling the frame", "a received message of exactly 0 bytes (record 17 03 03 00 00): phantom stream / replay of the previous frame"),
 "C12-1": ("closeStream closes the receive buffer only after the closing frame was sent", "a parked reader, a concurrent Stream.Close and the connection failing while the closing frame is in flight"),
 "C12-2": ("streamBuffer.Close drains the out-of-order heap into the pipe", "2+ connections, a fault while frame k is lost on the failing connection and frames k+1.. are parked: reader gets a hole"),
 "C13-1": ("closing frame built from a copy of writingFrame: its sequence number is not consumed", "a ReadFrom that passed its unlocked closed-check, then Close, then ReadFrom sends: closing frame and data frame share (stream, seq)"),
 "C13-2": ("Write takes writingM per frame instead of per call", "a write split into several frames plus a second concurrent writer on the same stream"),
 "C14-1": ("length queue turned into a ring that is grown without unwrapping", "a stream that was read from before (head != 0) and a backlog reaching the ring size"),
 "C14-2": ("RouteUDP: loop variables hoisted and the per-stream reply goroutine uses the shared addr", "two local source addresses on one listener and a reply for the older one after a packet from the newer one"),
 "C15-1": ("userPanel.GetUser looks up under RLock, authenticates unlocked, inserts without re-check", "two first connections of a not-yet-active user overlapping in AuthenticateUser"),
 "C15-2": ("AuthoriseNewSession reads downCredit from the UpCredit key", "user already holds a session, DownCredit alone set <= 0 through the admin API, then a new session id"),
 "C15-3": ("atomic session counter decremented in CloseSession outside `if existing`", "fill the cap, one refused attempt (whose error path calls CloseSession), then a new session id: admitted beyond the cap"),
 "C15-4": ("GetSession looks the id up under RLock and creates under the write lock without looking again", "two simultaneous first connections of one (UID, session id): two sessions with different keys, the first overwritten"),
 "C16-1": ("commitUpdate skips (and then drops) queue entries of users that are no longer active", "traffic, then the user's last session closes, then an upload round"),
 "C16-2": ("TERMINATE verdict applied to the *ActiveUser remembered before UploadStatus", "the user's record replaced (last session drops, client reconnects) while the upload is in flight"),
 "C17-1": ("commitUpdate holds activeUsersM.RLock across the loop and isActive read-locks again", "a writer (GetUser/TerminateActiveUser) arriving between the two read locks: deadlock"),
 "C17-2": ("TerminateActiveUser deletes the UID unconditionally again", "second termination of a stale record after the same user became active again (dispatcher error path)"),
 "C18-1": ("writeUserInfoHlr takes its UserInfo from a sync.Pool and resets only UID", "a POST mentioning field F followed by an accepted POST that omits F"),
 "C18-2": ("token-bucket capacity becomes rate/10", "a record with UpRate or DownRate in 1..9 whose owner connects: ratelimit panics"),
 "C19-1": ("userPanel.GetUser lock narrowing without re-check (two valves for one user)", "two first connections of an inactive limited user overlapping"),
 "C19-2": ("token request clamped to the bucket capacity", "a configured rate below the frame size and full frames"),
 "C20-1": ("in-place filter of empty AlternativeNames does not step back after deleting", "two or more adjacent empty names"),
 "C20-2": ("CDN fallback reuses remote.RemoteAddr which is computed later", "Transport=CDN without CDNOriginHost: wsUrl ws:///"),
 "C01-3": ("Stream.Write split loop: slice bound loses its +n when the unit is hoisted into a local", "a single Write call larger than two frames: the second chunk is empty, Write fails on a healthy session and a sequence number is burnt (stream stalls)"),
 "C01-4": ("RouteTCP's first-packet buffer hoisted out of the per-connection goroutine", "two local connections whose first packets are read at the same moment: one stream carries the other's first bytes"),
 "C02-3": ("streamBufferedPipe.Read returns EOF right after waking on a closed pipe", "a reader parked on an empty buffer when one arrival both hands over data and lets the closing frame take effect (orders 1,2c,0 / 2c,0,1 ...)"),
 "C02-4": ("'too far ahead' bound nextRecvSeq+2^20 overflows near 2^64", "sequence numbers within 2^20 of 2^64 and a non-sorted arrival order"),
 "C03-3": ("closeStream skips the closing frame when writingFrame.Seq == 0 (also true for accepted streams that never wrote)", "the accepting side closes with zero bytes written on a multiplexed session: the opener's Read never returns"),
 "C03-4": ("Stream.Write checks isClosed before taking writingM", "Write stalled in the connection, Close queued behind it, second Write queued behind Close: data frame after the closing frame, Write acknowledged after Close returned"),
 "C04-3": ("send buffers sized 16640 instead of the configured limit + ReadFrom window derived from the buffer length", "an explicitly configured limit below 16640 (production: 16401), bulk source via ReadFrom, one of the first five (padded) frames"),
 "C04-4": ("split-loop refactor: remaining < maxPayload instead of <=", "an unordered session and a Write of exactly the per-frame maximum: refused with ErrShortBuffer"),
 "C05-3": ("TLSConn.Write returns early on a write error without resetting the pooled buffer", "a Write that fails without reaching the wire, then a later successful Write on the connection: stale record prepended, framing lost"),
 "C05-4": ("switchboard.deplex hands buf[:n] to the session whenever n > 0, before looking at err", "connection lost mid-record (TLSConn returns k, ErrUnexpectedEOF) or oversize WebSocket message: truncated record processed as a frame"),
 "C06-3": ("client auth plaintext taken from a sync.Pool scratch buffer that is never cleared", "two handshakes in one process with different configurations (long proxy method / unordered, then shorter / ordered): stale bytes and flag survive"),
 "C06-4": ("client drains ChangeCipherSpec and encrypted-certificate records through a 64-byte buffer", "the server's random certificate length drawing 68: client handshake fails with short buffer while the server completed"),
 "C07-3": ("proxy-method gate moved behind the session lookup (checked for new sessions only)", "an existing session id of the user, then a valid first packet naming an unknown proxy method: answered as Cloak instead of redirected"),
 "C07-4": ("shared account reader sets both credits from the UpCredit key", "a user with upload credit left and download credit <= 0: accepted again"),
 "C08-3": ("registerRandom split into a lookup before decryption and a store after it", "N simultaneous presentations of one handshake all passing the lookup before any store"),
 "C08-4": ("top-bit mask moved into the TLS transport's parser; WebSocket path forgotten", "a WebSocket handshake replayed with bit 255 of the key flipped"),
 "C09-3": ("first-packet read deadline cleared after the error return instead of by defer", "unrecognised first byte / over-long record / over-long header, relayed connection still open 15 s after accept: relay cut"),
 "C09-4": ("fallback redirect port written back into the shared State", "RedirAddr without a port, two bind ports, probes on one port and then on the other: second goes to the wrong port"),
 "C10-3": ("TLSConn.Write grows its pooled buffer once to the maximum and loses the 3 header bytes", "first payload of 14332+ bytes on a connection: record goes out as 00 00 00 <len>, and so does every later record from that buffer"),
 "C10-4": ("session-closing notice length drawn from 0..255 and an obfuscate error only logged", "an actively closed session drawing padding length 0 (1 in 256): 17 03 03 00 00 on the wire"),
 "C11-3": ("deobfuscate bound check compares the extra-length byte with len(in); negative-length test dropped", "plain mode, message shorter than 270 bytes whose extra-length byte falls in the 14-value window: slice bounds panic in deplex"),
 "C11-4": ("deplex treats n == 0 like an error", "an empty TLS record 17 03 03 00 00 injected by anyone on the path: session torn down"),
 "C12-3": ("send's error path sets sb.broken before passiveClose", "multi-connection session, a reset first seen by an in-flight write: closeAll loses its CAS, other connections never closed, their readers parked"),
 "C12-4": ("close(acceptCh) moved before streamsM.Lock in closeSession", "session close racing the first frame of a new stream (or a full accept backlog): send on closed channel panics in deplex"),
 "C13-3": ("closing frame sent directly, not through obfuscateAndSend: its sequence number is not consumed", "ReadFrom past its unlocked closed-check, Write stalled holding the mutex, Close queued, ReadFrom chunk queued: (id,seq) reused for closing and data frame"),
 "C13-4": ("ReadFrom sets writingFrame.Payload before taking writingM", "Write #1 stalled holding the mutex, Write #2 queued, ReadFrom chunk queued behind: ReadFrom's frame carries Write #2's length over its own pooled buffer"),
 "C14-3": ("datagramBufferedPipe.Read reads into target instead of target[:dataLen]", "two datagrams queued before a Read with a buffer larger than the first: merged / later datagrams' content shifted"),
 "C14-4": ("closing frame's payload queued as a datagram before the pipe is marked closed", "peer actively closes the stream and the local side reads to the end: the random padding is delivered as a message"),
 "C16-3": ("UploadStatus 'continue's after the upload-credit verdict, skipping the download deduction of the same report", "one report whose upload usage exhausts upload credit and whose download usage is non-zero"),
 "C16-4": ("LimitedValve.Nullify loads the counters and then stores 0 instead of swapping", "AddRx/AddTx landing between the load and the store: bytes never charged"),
 "C17-3": ("TerminateActiveUser deletes the UID unconditionally", "stale record terminated a second time (dispatcher error path) after a fresh record took its place: live session in a forgotten record"),
 "C17-4": ("TerminateActiveUser holds activeUsersM across updateUsageQueueForOne (table -> queue order)", "a termination overlapping the start of an upload round (queue -> table order): deadlock, table stays write-locked"),
 "C18-3": ("WriteUserInfo skips storing a value of 0", "an accepted update of a non-zero field to 0: reads keep the old value"),
 "C18-4": ("POST handler lost its return after a body decode error", "valid JSON with matching UID and one ill-typed field: 400 answered and the half-decoded record written"),
 "C19-3": ("txWait moved after conn.Write (charging what was written)", "empty bucket and several backlogged senders: each gets a whole message out before sleeping (per-interval bound exceeded)"),
 "C19-4": ("MakeValve: tx bucket capacity taken from rxRate", "UpRate > DownRate and a full tx bucket: burst of upRate/downRate seconds' worth towards the user"),
 "C20-3": ("ProcessRawConfig: negative NumConn no longer clamped (Singleplex with NumConn=-1)", "NumConn < 0 in either syntax: accepted, then makechan panic on the first stream"),
 "C20-4": ("single-pass unescape in ssvToJson with an off-by-one at the end of the string", "an escaped option string ending in an escape sequence (base64 '\\=\\=' last, no trailing ';'): rejected although the JSON form is accepted"),
 "C01-5": ("recvBufferSizeLimit lowered from ~2 GiB to 4 MiB", "more than 4 MiB unread on one stream, one more frame for it, and the application closing that stream: the receive loop is parked holding recvM, Close waits for it, every other stream of the connection stalls"),
 "C01-6": ("RouteTCP's first-packet read-deadline reset moved into a defer", "a proxied connection older than the stream timeout (300 s) although never idle: its read times out and the relay is torn down"),
 "C02-5": ("parked frames copied into pooled 16640-byte buffers (payload truncated)", "an out-of-order arrival of a payload larger than 16640 bytes (the receive buffer takes 20480)"),
 "C02-6": ("in-order fast path releases recvM before writing to the pipe", "two receive loops delivering frames k and k+1 of one stream at once: swapped bytes / close reported before the data is in the pipe"),
 "C03-5": ("Stream.passiveClose takes writingM", "a local Write/ReadFrom stalled by back-pressure when the peer's closing notice arrives: the notice is never processed, the parked reader never returns"),
 "C03-6": ("pipe closed by streamBuffer's fast path only; passive closeStream no longer closes the buffer", "the closing notice passing through the reorder heap (e.g. arrival orders 0,2c,1): Read blocks forever after the data"),
 "C04-5": ("connReceiveBufferSize derived from the local MsgOnWireSizeLimit", "a peer with the default limit sending a padded full frame (16640 bytes) to a session configured with 16401: short buffer, session torn down"),
 "C04-6": ("header nonce taken from the first 8 bytes of the tag instead of the last 8 of the message", "any AEAD method and a peer that is not the same build (wire format silently changed)"),
 "C05-5": ("client handshake drains ChangeCipherSpec and the certificate record with one raw Read", "a server data record arriving in the same segment as the reply, or the reply cut inside those records"),
 "C05-6": ("TLSConn.Read loops over zero-length records", "a message of length exactly 0: swallowed, the next message is returned in its place"),
 "C06-5": ("ServerHello assembled in a shared package-level template", "two direct handshakes overlapping inside composeServerHello: a client gets key material sealed for the other"),
 "C06-6": ("unordered flag read from the reserved byte next to it", "UDP: true (the server decodes ordered)"),
 "C07-5": ("decryptClientInfo's plaintext comes from a sync.Pool; ClientInfo.UID aliases it", "another first packet decrypted between AuthFirstPacket and the authorisation of ci.UID"),
 "C07-6": ("proxy-method field cut at the first NUL instead of trimmed", "a name with an embedded NUL whose prefix is a served method (\"ss\\x00x\")"),
 "C08-5": ("cache entries lapse lazily by arrival time +- tolerance", "a client clock ahead of the server by m and a replay 180..180+m s after the first presentation"),
 "C08-6": ("AuthFirstPacket forgets the random of every refused packet - also of a refused replay", "three presentations: accepted, refused (entry erased), accepted again"),
 "C09-5": ("HTTP path returns the offset of the start of the overflowing header line", "a GET with more than 3000 bytes of header: the partial line is consumed but not replayed"),
 "C09-6": ("first-packet buffer from a free list, returned right after AuthFirstPacket succeeds", "a valid hello rejected after authentication (unknown method / unauthorised UID) while another connection is being read: the target receives the other peer's bytes"),
 "C10-5": ("server reply flight built in a pooled bytes.Buffer that is Put before the write", "two handshakes overlapping: reply bytes of the other connection, wrong session id echo, broken third record"),
 "C10-6": ("AddRecordLayer returns a slice into a pooled buffer", "two client handshakes overlapping: a ClientHello overwritten by the other client's"),
 "C11-5": ("deobfuscate's 'extra length 0' case applies before the AEAD check", "decrypted header byte 13 equal to 0 (attacker XORs 0x10 into it on an unpadded frame): accepted without authentication"),
 "C11-6": ("a failed decode puts the pooled frame back twice", "one undecodable message, later two valid frames handled by two receive loops at once: one lost, one processed twice"),
 "C12-5": ("Session.Close takes each stream's writingM while sweeping under streamsM", "Session.Close sweeping while a Stream.Close is sending its closing frame: lock-order deadlock"),
 "C12-6": ("Stream.Write unlocks by hand and forgets to on the send-error return", "a Write that meets the fault, then any further Write/Close on that stream: blocked forever"),
 "C13-5": ("the nil placeholder of a closed stream is deleted after InactivityTimeout", "a peer frame for that stream arriving later: the stream is re-created and its numbering restarts at 0"),
 "C13-6": ("session-closing notice sent (re-obfuscated) on every connection", "an actively closed session with two or more connections: several messages numbered (0xffffffff, 0)"),
 "C14-5": ("unordered size check compares with the send buffer size (16640)", "a datagram of 16372..16640 bytes: accepted and split"),
 "C14-6": ("RouteUDP's stream table keyed on the source port only", "two sources with the same port and different addresses"),
 "C15-5": ("a failed reply write on the connection that created the session closes that session", "a sibling connection that joined meanwhile keeps key K1, the next one creates a second session with K2"),
 "C15-6": ("the database is not asked for a user's first session", "SessionsCap = 0, or credit/expiry changed between GetUser and the first GetSession"),
 "C16-5": ("commitUpdate clears the queue only after a successful upload, by key", "a last-session closure or a second round while the upload is in flight: usage lost or charged twice"),
 "C16-6": ("updateUsageQueue skips users whose counters are zero", "an idle user deleted / expired / out of credit: never reported, never cut off"),
 "C17-5": ("GetUser authenticates outside the table lock and inserts without re-check", "two first connections of one user overlapping in AuthenticateUser: second record overwrites the first"),
 "C17-6": ("updateUsageQueue holds the table read lock and takes the queue lock per entry", "two rounds and a table writer: three-party deadlock (writer-preferring RWMutex)"),
 "C18-5": ("DeleteUser uses Cursor.Seek and deletes whatever key it lands on", "DELETE of an absent UID while a larger UID exists (repeated DELETE): the other user is removed"),
 "C18-6": ("ListAllUsers copies UIDs into a [16]byte", "a UID that is not 16 bytes long: listed padded / truncated"),
 "C19-5": ("limiter waits capped at 1 s (WaitMaxDuration), result dropped", "more than one second of backlog on the shared bucket: frames pass unmetered"),
 "C19-6": ("buckets refilled every millisecond with the per-tick amount rounded up", "a configured rate that is not a multiple of 1000 B/s and a sender backlogged beyond the burst"),
 "C20-5": ("RemotePort default moved into ParseConfig", "plugin mode without RemotePort in the options: SS_REMOTE_PORT is ignored"),
 "C20-6": ("ServerName=random resolved once in ProcessRawConfig", "more than one connection: all carry the same generated name"),
 "C01-7": ("inactivity timer kept in one time.Timer; Stop()'s false result ignored, checkTimeout no longer looks at the stream count", "the timer expiring while a stream is being opened or accepted: the session is closed with \"timeout\" underneath it"),
 "C01-8": ("a stream that does not fit the accept queue is dropped (select/default) instead of waiting", "more than 1024 streams pending acceptance: the 1025th's first frame is lost, later frames park forever"),
 "C02-7": ("frames that are not next are copied outside the lock; after re-locking a frame that became next is pushed without draining when the heap is not empty", "three receive loops: frame k+2 parked, k+1 mid-copy, k delivered in the gap: stream stalls"),
 "C02-8": ("a 16 MiB budget for parked bytes that is charged payload+14 and refunded payload", "about 1.2 million frames through the heap of one long-lived stream: a frame one step out of order is refused"),
 "C03-7": ("closing-frame padding length computed in uint8 (255+1 wraps to 0)", "the random draw 0xFF (1 close in 256): the closing frame is refused as empty and never sent"),
 "C03-8": ("recvBuf.Close moved below the closing-frame send", "a reader parked on the closing side, and the connection's write failing on exactly the closing frame: the reader hangs"),
 "C04-7": ("closeStream returns its send buffer to the pool twice", "an earlier active stream close, then two overlapping senders: they share one buffer, a frame on the wire carries the other's bytes"),
 "C04-8": ("the idle-timeout path builds its closing notice in a 286-byte local buffer", "a padding draw that makes the notice larger (about half of them): no notice, connections stay open"),
 "C05-7": ("TLSConn.Read hand-written loop clears io.EOF without checking the length", "the peer closing after the header and before the last body byte: truncated record with nil error"),
 "C05-8": ("WebSocketConn write lock replaced by a flag + Cond with `if` instead of `for`", "three writers: two parked ones are woken together and write at once"),
 "C06-7": ("the server time for the window check is the whole-second value stored in the replay cache", "a client clock leading by 179..180 s with the server clock at a non-zero sub-second phase: refused"),
 "C06-8": ("UID trimmed of trailing zero bytes", "a UID ending in 0x00"),
 "C07-7": ("account cache in the local manager; a reader may store what it read before a concurrent write invalidated the entry", "lookup R1 between its read and its store, an admin write in that window, then a connection R2: accepted from the stale entry"),
 "C07-8": ("TERMINATE only in the round in which credit crosses zero", "an admin setting an active user's credit to <= 0: never terminated, later first packets join its session"),
 "C08-7": ("replay cache capped at 65536 entries, oldest evicted", "65536 other first packets inside the window, then the replay"),
 "C08-8": ("a failed reply write makes the server forget the handshake's random", "the recorded hello presented again after its connection was cut before the reply"),
 "C09-7": ("unknown-proxy-method rejection moved behind the session lookup", "a hello naming a live session of its user and a bogus method: answered, not relayed"),
 "C09-8": ("redirect dialer given an absolute Deadline computed at start-up instead of a Timeout", "any unauthenticated peer once the server has been up for 10 s: dial fails, nothing relayed"),
 "C10-7": ("switchboard.send retries on another connection after a write timeout", "a timeout after part of a record has left, then more frames on that connection: bytes that are not records"),
 "C10-8": ("write-buffer pool shared by all TLSConns + a buffer Put twice on a write error", "a failed write on one connection, then two overlapping writers on others: one Write carries the other's record"),
 "C11-7": ("inactivity measured from the last receipt, before authentication", "junk arriving less than one timeout apart: an idle session never times out"),
 "C11-8": ("AEAD branch slices off the tag before the (plain-mode) minimum-length guard", "a 22..29 byte message under an AEAD method with a small decrypted extra-length byte: negative slice bound, panic"),
 "C12-7": ("closeAll stops iterating when a connection's Close returns an error", "three connections, two failing in close succession: the third is never closed"),
 "C12-8": ("the nil placeholders of closed streams are swept every 4096 closures", "a late frame for a stream closed before the sweep: phantom stream, count stuck at 1"),
 "C13-7": ("closing frame skipped when the closing side has sent nothing (Seq == 0) - also for accepted streams", "the accepting side closing before it wrote anything"),
 "C13-8": ("Seq++ moved after the successful send", "a send that reaches the wire but reports an error while another receive loop has claimed the teardown: the retry reuses the number"),
 "C14-7": ("datagram pipe buffers pooled and returned on every EOF read", "a closed stream read twice more, then two new streams: they share one byte buffer"),
 "C14-8": ("a datagram handed directly to a waiting reader is lost when the reader's deadline passes first", "arrival at the instant the read deadline expires"),
 "C15-7": ("a closed-but-unreaped session is rebuilt in place without asking the manager", "peer drops the connection, the user is revoked, a connection names the same session id"),
 "C15-8": ("manager asked without the table lock; afterwards only the table size is compared", "A waits on the manager for id X, B creates X, C closes another session: A overwrites B's session"),
 "C16-7": ("'one upload round at a time' guard whose skip path never decrements", "one round lasting longer than the upload interval: every later round is skipped"),
 "C16-8": ("download TERMINATE at < 0 instead of <= 0", "download credit spent to exactly zero"),
 "C17-7": ("GetUser checks isTerminated under the table lock + GetSession checks isListed under sessionsM", "three admissions (one waiting to write-lock the table): lock cycle"),
 "C17-8": ("in-flight flag of the upload round not cleared on the error return", "one failed UploadStatus: no round ever runs again"),
 "C18-7": ("WriteUserInfo returns early when no optional field is set", "POST with only a UID for a new user: 201 but no record"),
 "C18-8": ("commitUpdate dereferences a nil record for a TERMINATE verdict on an inactive UID", "last session closed before the round that answers TERMINATE (credit exhausted / deleted): panic"),
 "C19-7": ("a forgotten user's valve is parked and handed back on re-activation", "rates lowered through the admin API between two activations: old rates kept"),
 "C19-8": ("the upload round deletes 'empty' records (no session, no traffic)", "the round firing between a connection's GetUser and GetSession: a second record and valve for the user"),
 "C20-7": ("handshake-failure fallback to firefox for every signature but firefox", "BrowserSig=safari and one failed handshake: the retry presents firefox"),
 "C20-8": ("connection goroutines share one transport config (pointer)", "chrome: one connection's handshake fails (legitimate fallback), a sibling that redials presents firefox too"),
 "C01-9": ("serveSession hoists newStream/localConn/err out of the accept loop; the relay goroutines capture the shared variables", "a second stream accepted before the previous stream's relay goroutines first run: stream k never relayed, stream k+1 relayed twice"),
 "C01-10": ("RouteTCP wires its unused timeout argument into stream.SetReadFromTimeout", "one-way traffic (download only) for longer than StreamTimeout: both directions of the stream are closed mid-transfer"),
 "C02-9": ("streamBuffer gets an inOrder fast path that makeStream enables when the session has one connection at that moment", "a stream created with one connection, a second connection added later, frames reordered across the two"),
 "C02-10": ("a singleplex session closes itself on arrival of a stream-closing frame", "Singleplex over two connections with the closing frame overtaking lower-numbered data: the data is refused"),
 "C03-9": ("streamBufferedPipe.Read returns n with io.EOF on a short read of a closed pipe; common.Copy checks the read error before writing", "the peer's close processed while the tail is unread: Copy drops the last chunk"),
 "C03-10": ("Stream.ReadFrom checks isClosed before the blocking read instead of after it", "ReadFrom parked in the local read, the stream closed, then local data: a frame goes out after the closing frame and is counted as written"),
 "C04-9": ("unordered Write may use the padding reserve once past the padded start; obfs pads frames with Seq <= 5 instead of < 5", "the sixth datagram of an unordered stream longer than limit-269 bytes: encoding exceeds the limit"),
 "C04-10": ("MakeSession adds 8 bytes to maxStreamUnitWrite for the plain method", "plain method, a full-size frame among the first five with one of the top 8 padding draws: limit+8 bytes on the wire"),
 "C05-9": ("WebSocketConn.Write sends at most 16480 bytes per message", "a payload of 16481..20480 bytes arrives as two reads"),
 "C05-10": ("WebSocketConn.Read's loop shadows err; a mid-message failure returns (n, nil)", "connection cut between a frame header and its last payload byte: a truncated message is delivered as complete"),
 "C06-9": ("CDN client reads the 60-byte reply with one Read of the message reader", "the reply reaching the client in more than one segment: the client aborts although the server admitted it"),
 "C06-10": ("server finds the Hidden header with a case-sensitive line scan instead of net/http", "a CDN forwarding header names in lower case: the client is treated as a visitor"),
 "C07-9": ("ecdh.Unmarshal refuses the seven small-order points by byte comparison (top bit not masked) and GenerateSharedSecret drops X25519's error", "a small-order ephemeral key with the top bit set: the all-zero shared secret is accepted"),
 "C07-10": ("WebSocket unmarshalHidden loses the shared-secret error to a shadowed err", "a small-order ephemeral key over the CDN transport: sealed under the all-zero key it authenticates"),
 "C09-9": ("readFirstPacket's HTTP branch scans lines through a bufio reader", "bytes read ahead of the request head stay in the bufio reader and never reach the redirection target"),
 "C09-10": ("Serve sets SO_LINGER 0 on accepted TCP connections", "a large reply from the redirection target to a slow visitor: the close resets the connection and truncates the tail"),
 "C10-9": ("ServerName lower-cased in ProcessRawConfig and the random keyword compared with ==", "AlternativeNames containing Random/RANDOM picked for a session: the literal keyword is sent as SNI"),
 "C10-10": ("ServerHello composed in a package-level template slice", "two server handshakes overlapping: a reply carries another connection's session id and key share"),
 "C11-9": ("TLSConn.Read checks a protocol maximum (18432) instead of the caller's buffer; the session receive buffer shrinks to MsgOnWireSizeLimit", "a record with body length between the limit and 18432: slice bounds panic in the receive loop"),
 "C11-10": ("WebSocketConn.Read reports a message that exactly fills the buffer as too large", "one binary message of exactly 20480 bytes of garbage: the session is torn down"),
 "C12-9": ("switchboard.deplex loses its defer conn.Close()", "Session.Close winning against the receive loop on a reset connection (its notice send fails): the reset connection is never closed locally"),
 "C12-10": ("TLSConn gets a write mutex that Close also takes", "a write parked on a full connection while another connection fails: closeAll blocks behind the parked writer"),
 "C13-9": ("closeStream takes writingM with TryLock; Stream.Close no longer takes it", "Close arriving while a writer is between header serialisation and Seq++: closing frame and data frame share a sequence number"),
 "C13-10": ("closeStream skips the closing frame for singleplex sessions", "Singleplex: Stream.Close returns nil with no closing frame on the wire"),
 "C14-9": ("Stream.ReadFrom defers a Put of its send buffer inside the loop and keeps the explicit Put", "two streams relaying after an earlier ReadFrom returned: both are handed the same buffer"),
 "C14-10": ("Stream.ReadFrom's read window loses the frame-header offset at its upper end (14 bytes short)", "a datagram of maxStreamUnitWrite-13..maxStreamUnitWrite bytes relayed through ReadFrom is truncated"),
 "C15-9": ("GetBypassUser replaces a record that holds no session", "two connections of a new bypass (UID, session id) both past GetBypassUser before either's GetSession: two records, two keys"),
 "C15-10": ("every listener after the first gets its own user panel", "the same user through two listening ports: cap per listener, same session id yields two sessions"),
 "C16-9": ("GetSession admits without the user's lock across the database lookup; termination no longer marks the record", "an admission overlapping a termination: a session of a terminated user stays live"),
 "C16-10": ("UploadStatus treats ExpiryTime 0 as no expiry", "a user whose ExpiryTime is 0 (1970) keeps being served after an upload round"),
 "C17-9": ("commitUpdate holds the table read lock across NumSession; CloseSession removes the record while holding the sessions lock", "the commit step overlapping the user's last session closing: lock cycle, the panel deadlocks"),
 "C17-10": ("commitUpdate terminates the record it saw at collection time", "last session closes and the user reconnects during a round that answers TERMINATE: the stale record is terminated, the live one survives"),
 "C18-9": ("admin API wrapped in http.TimeoutHandler", "a database operation slower than 5 s: the administrator gets 503 yet the write lands afterwards"),
 "C18-10": ("WriteUserInfo merges with the stored record in a separate read transaction", "an upload or another partial update committing between the read and the write is overwritten with stale values"),
 "C19-9": ("CloseSession no longer marks the record terminated; TerminateActiveUser uses closeAllSessions", "GetUser just before the user's last session ends, GetSession just after: a session on the forgotten record's valve, the next connection gets a second valve"),
 "C19-10": ("MakeValve gives buckets a capacity of max(rate, 20480)", "a user limited below 20480 B/s gets 20480/rate seconds of burst"),
 "C20-9": ("ck-client's command-line -i/-l/-p no longer override the configuration file", "LocalHost/LocalPort/RemotePort given both in the file and on the command line"),
 "C20-10": ("CDN transport takes the TLS server name from CDNOriginHost", "Transport=CDN with CDNOriginHost set: the configured ServerName is not presented"),
}
head = subprocess.check_output(["git","-C","/repo","rev-parse","--short","HEAD"]).decode().strip()
index = []
for key,(what,needs) in sorted(DESC.items()):
    P,k = key.split("-")
    root = os.environ.get("SEEDROOT", "/tmp/seed")
    koff = int(os.environ.get("SEEDOFFSET", "0"))
    if (int(k) <= koff) != (koff == 0) and koff:
        continue
    srck = int(k) - koff
    if srck < 1:
        continue
    log = os.environ.get("SEEDLOGDIR", "/tmp") + f"/seedres-{P}-{srck}.log"
    src = f"{root}/{P}/out/change{srck}"
    if not os.path.exists(log) or not os.path.isdir(src):
        continue
    txt = open(log).read()
    m = re.search(r"RESULT .*baseline_ok=(\d) demo_with=(\w+) demo_without=(\w+)", txt)
    if not m: continue
    if m.group(1) != "1" or m.group(2) != "fail" or m.group(3) != "pass":
        print("rejected (not confirmed):", key, m.groups())
        continue
    checks = re.findall(r"check (C\d+): exit=(\d+) violations=(\d+)", txt)
    clauses = sorted(set(re.findall(r"clause=([^ ]+(?: [^s][^ ]*)*?) sig=", txt)))
    dst = f"/verif/seeded/{key}"
    os.makedirs(dst, exist_ok=True)
    applied = os.environ.get("SEEDAPPLIED", "/tmp") + f"/seed-{P}-{srck}.applied.diff"
    shutil.copy(applied if os.path.exists(applied) else src+"/patch.diff", dst+"/patch.diff")
    for f in glob.glob(src+"/*_test.go")+glob.glob(src+"/NOTES.md"):
        shutil.copy(f, dst+"/"+os.path.basename(f).replace("_test.go","_test.go.txt"))
    caught = [c for c,e,v in checks if e=="1"]
    meta = {"property": P, "change": what, "needs_to_manifest": needs, "written_by": "independent sub-agent given only the property text and a scratch worktree",
            "patch_applies_to_repo_commit": head,
            "confirmed": {"builds": True, "baseline_tests_pass_with_change_x2": m.group(1)=="1", "demo_with_change": m.group(2), "demo_without_change": m.group(3),
                          "ran": f"tool/seedcheck.sh {P} {k} (fresh scratch worktree of /repo; go build ./...; go test -count=1 ./... twice; demo with and without the change; then the quick check against /repo with the patch applied, then git checkout)"},
            "checks_run": {c: {"exit": int(e), "violations": int(v)} for c,e,v in checks},
            "caught_by": caught, "clauses": clauses[:6]}
    json.dump(meta, open(dst+"/meta.json","w"), indent=1)
    index.append((key, what, needs, caught, m.group(1), m.group(2), m.group(3)))
rows = []
for d in sorted(glob.glob("/verif/seeded/C*-*")):
    m = json.load(open(d+"/meta.json"))
    c = m["confirmed"]
    rows.append((os.path.basename(d), m["change"], m["needs_to_manifest"], m["caught_by"], c["baseline_tests_pass_with_change_x2"], c["demo_with_change"], c["demo_without_change"]))
with open("/verif/seeded/INDEX.md","w") as f:
    f.write("# Seeded changes written by sub-agents (each saw only one property's text)\n\n| id | change | needs | baseline green | demo with/without | caught by |\n|---|---|---|---|---|---|\n")
    for key,what,needs,caught,b,w,wo in rows:
        f.write(f"| {key} | {what} | {needs} | {'yes' if b else 'NO'} | {w}/{wo} | {', '.join(caught) if caught else '**missed**'} |\n")
print(len(index), "seeds processed now;", len(rows), "in the index; missed:", [k for k,_,_,c,_,_,_ in rows if not c])
