#!/usr/bin/env python3
"""Collects confirmed sub-agent changes from /tmp/seed/<P>/out/change<k> into /verif/seeded/<P>-<k>/
(patch.diff rebased onto /repo HEAD, the demonstration, the agent's notes, meta.json) using the
results that tool/seedcheck.sh left in /tmp/seedres-<P>-<k>.log."""
import json, os, re, shutil, glob, subprocess
DESC = {
 "C01-1": ("streamBuffer.Write writes released payloads to the pipe after dropping recvM", "2+ connections, 3+ frames of one stream in flight, a cross-connection reorder, and a third frame arriving on another connection exactly while the released frames are being flushed"),
 "C01-2": ("recvDataFromRemote shortcut: a closing frame for a known stream closes it at once instead of going through the reorder buffer", "2+ connections and the closing frame overtaking the last data frames on a slower connection"),
 "C02-1": ("drain loop coalesces parked frames into one write but returns on the closing frame before flushing", "closing frame and at least one lower data frame both parked when the gap filler arrives (n>=3, e.g. order 1,2c,0)"),
 "C02-2": ("reorder-window check nextRecvSeq+maxReorderDistance overflows uint64", "sequence numbers within 2^20 of 2^64 and any non-identity arrival order"),
 "C03-1": ("heap-drain loop delivers a frame's payload before looking at its closing flag", "2+ connections and the closing notice overtaking data: its random padding is delivered as stream data"),
 "C03-2": ("closeStream skips the closing frame when the stream never sent a frame", "exactly zero bytes written before Close on a multiplexed session: the peer's Read never returns"),
 "C04-1": ("MakeSession clamps configured limits *below* 16640 up to 16640 (comparison direction slip)", "a configured limit < 16640 (16401 in production), a full-size payload and a padded first frame"),
 "C04-2": ("deobfuscate runt check uses <= : the smallest legal frame is refused", "payload of exactly 1 byte without padding (seq >= 5 or padding draw 0)"),
 "C05-1": ("read-ahead buffer in TLSConn.Read mishandles a header fragment left mid-buffer", "a read that ends 1-4 bytes into the next record header without filling the read-ahead buffer"),
 "C05-2": ("WebSocketConn.Read loop bounded by len(buf): oversize message returned truncated without error", "a WebSocket message strictly longer than the reader's buffer"),
 "C06-1": ("decryptClientInfo takes its plaintext buffer from a sync.Pool; ClientInfo.UID aliases it", "a second first-packet processed between AuthFirstPacket and the later uses of ci.UID (concurrent handshakes)"),
 "C06-2": ("proxy-method field read 'up to the first NUL' without stopping at byte 28", "a 12-byte proxy method name together with a non-plain encryption method"),
 "C07-1": ("timestamp window rewritten as |client-server| >= tolerance with a saturating Sub", "a correctly sealed packet stamped more than ~292 years before the server clock (or MaxInt64)"),
 "C07-2": ("credit checks dropped from AuthoriseNewSession", "user already active, credit then set to 0 through the admin API, a connection with a new session id before the next upload round"),
 "C08-1": ("replay memory split per transport (separate map for WebSocket)", "a captured TLS handshake re-wrapped as a WebSocket request (or the reverse)"),
 "C08-2": ("cleaner rebuilds the map from a snapshot taken under RLock and swaps it in", "a handshake registered between the cleaner's snapshot and its swap, then replayed"),
 "C09-1": ("readFirstPacket compares dataLength instead of dataLength+5 with the buffer size", "first byte 0x16 and a declared record length of 2996..3000: slice out of range, no recover, process dies"),
 "C09-2": ("goWeb starts both Copy goroutines before replaying the consumed prefix", "peer bytes beyond the consumed prefix already pending and the copier writing to the target before the prefix"),
 "C10-1": ("TLSConn.Write grows its pooled buffer with make() and loses the 3 header bytes", "a record payload larger than ~14 KB (bulk transfer): records go out as 00 00 00 <len>"),
 "C10-2": ("obfuscate returns 0,nil for an empty payload: a zero-length application-data record is sent", "UDP mode and the proxied service sending an empty datagram"),
 "C11-1": ("makeAESGCM helper passes the full 32-byte key for aes-128-gcm too", "a frame sealed under aes-256-gcm presented to an aes-128-gcm session with the same key (or an independent AES-128 encoder)"),
 "C11-2": ("deobfuscate returns nil for an empty input without filling the frame", "a received message of exactly 0 bytes (record 17 03 03 00 00): phantom stream / replay of the previous frame"),
 "C12-1": ("closeStream closes the receive buffer only after the closing frame was sent", "a parked reader, a concurrent Stream.Close and the connection failing while the closing frame is in flight"),
 "C12-2": ("streamBuffer.Close drains the out-of-order heap into the pipe", "2+ connections, a fault while frame k is lost on the failing connection and frames k+1.. are parked: reader gets a hole"),
 "C13-1": ("closing frame built from a copy of writingFrame: its sequence number is not consumed", "a ReadFrom that passed its unlocked closed-check, then Close, then ReadFrom sends: closing frame and data frame share (stream, seq)"),
 "C13-2": ("Write takes writingM per frame instead of per call", "a write split into several frames plus a second concurrent writer on the same stream"),
 "C14-1": ("length queue turned into a ring that is grown without unwrapping", "a stream that was read from before (head != 0) and a backlog reaching the ring size"),
 "C14-2": ("RouteUDP: loop variables hoisted and the per-stream reply goroutine uses the shared addr", "two local source addresses on one listener and a reply for the older one after a packet from the newer one"),
 "C15-1": ("userPanel.GetUser looks up under RLock, authenticates unlocked, inserts without re-check", "two first connections of a not-yet-active user overlapping in AuthenticateUser"),
 "C15-2": ("AuthoriseNewSession reads downCredit from the UpCredit key", "user already holds a session, DownCredit alone set <= 0 through the admin API, then a new session id"),
 "C16-1": ("commitUpdate skips (and then drops) queue entries of users that are no longer active", "traffic, then the user's last session closes, then an upload round"),
 "C16-2": ("TERMINATE verdict applied to the *ActiveUser remembered before UploadStatus", "the user's record replaced (last session drops, client reconnects) while the upload is in flight"),
 "C17-1": ("commitUpdate holds activeUsersM.RLock across the loop and isActive read-locks again", "a writer (GetUser/TerminateActiveUser) arriving between the two read locks: deadlock"),
 "C17-2": ("TerminateActiveUser deletes the UID unconditionally again", "second termination of a stale record after the same user became active again (dispatcher error path)"),
 "C18-1": ("writeUserInfoHlr takes its UserInfo from a sync.Pool and resets only UID", "a POST mentioning field F followed by an accepted POST that omits F"),
 "C18-2": ("token-bucket capacity becomes rate/10", "a record with UpRate or DownRate in 1..9 whose owner connects: ratelimit panics"),
 "C19-1": ("userPanel.GetUser lock narrowing without re-check (two valves for one user)", "two first connections of an inactive limited user overlapping"),
 "C19-2": ("token request clamped to the bucket capacity", "a configured rate below the frame size and full frames"),
 "C20-1": ("in-place filter of empty AlternativeNames does not step back after deleting", "two or more adjacent empty names"),
 "C20-2": ("CDN fallback reuses remote.RemoteAddr which is computed later", "Transport=CDN without CDNOriginHost: wsUrl ws:///"),
}
head = subprocess.check_output(["git","-C","/repo","rev-parse","--short","HEAD"]).decode().strip()
index = []
for key,(what,needs) in sorted(DESC.items()):
    P,k = key.split("-")
    root = os.environ.get("SEEDROOT", "/tmp/seed")
    koff = int(os.environ.get("SEEDOFFSET", "0"))
    if (int(k) <= koff) != (koff == 0) and koff:
        continue
    srck = int(k) - koff
    if srck < 1:
        continue
    log = f"/tmp/seedres-{P}-{srck}.log"
    src = f"{root}/{P}/out/change{srck}"
    if not os.path.exists(log) or not os.path.isdir(src):
        continue
    txt = open(log).read()
    m = re.search(r"RESULT .*baseline_ok=(\d) demo_with=(\w+) demo_without=(\w+)", txt)
    if not m: continue
    checks = re.findall(r"check (C\d+): exit=(\d+) violations=(\d+)", txt)
    clauses = sorted(set(re.findall(r"clause=([^ ]+(?: [^s][^ ]*)*?) sig=", txt)))
    dst = f"/verif/seeded/{key}"
    os.makedirs(dst, exist_ok=True)
    applied = f"/tmp/seed-{P}-{srck}.applied.diff"
    shutil.copy(applied if os.path.exists(applied) else src+"/patch.diff", dst+"/patch.diff")
    for f in glob.glob(src+"/*_test.go")+glob.glob(src+"/NOTES.md"):
        shutil.copy(f, dst+"/"+os.path.basename(f).replace("_test.go","_test.go.txt"))
    caught = [c for c,e,v in checks if e=="1"]
    meta = {"property": P, "change": what, "needs_to_manifest": needs, "written_by": "independent sub-agent given only the property text and a scratch worktree",
            "patch_applies_to_repo_commit": head,
            "confirmed": {"builds": True, "baseline_tests_pass_with_change_x2": m.group(1)=="1", "demo_with_change": m.group(2), "demo_without_change": m.group(3),
                          "ran": f"tool/seedcheck.sh {P} {k} (fresh scratch worktree of /repo; go build ./...; go test -count=1 ./... twice; demo with and without the change; then the quick check against /repo with the patch applied, then git checkout)"},
            "checks_run": {c: {"exit": int(e), "violations": int(v)} for c,e,v in checks},
            "caught_by": caught, "clauses": clauses[:6]}
    json.dump(meta, open(dst+"/meta.json","w"), indent=1)
    index.append((key, what, needs, caught, m.group(1), m.group(2), m.group(3)))
rows = []
for d in sorted(glob.glob("/verif/seeded/C*-*")):
    m = json.load(open(d+"/meta.json"))
    c = m["confirmed"]
    rows.append((os.path.basename(d), m["change"], m["needs_to_manifest"], m["caught_by"], c["baseline_tests_pass_with_change_x2"], c["demo_with_change"], c["demo_without_change"]))
with open("/verif/seeded/INDEX.md","w") as f:
    f.write("# Seeded changes written by sub-agents (each saw only one property's text)\n\n| id | change | needs | baseline green | demo with/without | caught by |\n|---|---|---|---|---|---|\n")
    for key,what,needs,caught,b,w,wo in rows:
        f.write(f"| {key} | {what} | {needs} | {'yes' if b else 'NO'} | {w}/{wo} | {', '.join(caught) if caught else '**missed**'} |\n")
print(len(index), "seeds processed now;", len(rows), "in the index; missed:", [k for k,_,_,c,_,_,_ in rows if not c])
