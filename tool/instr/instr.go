// Package instr rewrites Cloak sources so that every synchronisation operation, channel operation,
// goroutine start, clock access and random draw goes through the cooperative runtime (vrt).
// It works on the AST only (no type information): import paths are redirected to shim packages
// with the same package names, `go` statements and channel operations are rewritten to vrt calls,
// and memory points are inserted before writes through selectors, indexes, dereferences and to
// package-level variables. Constructs it cannot own (select, range over a channel is not
// detectable without types, unbuffered channels are rejected at run time) make it fail loudly.
package instr

import (
	"bytes"
	"fmt"
	"go/ast"
	"go/format"
	"go/parser"
	"go/token"
	"os"
	"path/filepath"
	"strconv"
	"strings"
)

const VrtPath = "github.com/cbeuw/Cloak/internal/vrt"

var importMap = map[string]string{
	"sync":                      VrtPath + "/sync",
	"sync/atomic":               VrtPath + "/atomic",
	"time":                      VrtPath + "/time",
	"crypto/rand":               VrtPath + "/crand",
	"math/rand/v2":              VrtPath + "/mrand",
	"github.com/juju/ratelimit": "github.com/cbeuw/Cloak/internal/vthird/ratelimit",
}

type Stats struct {
	Files, Imports, GoStmts, ChanOps, MemPoints, MapRanges, CaptPoints, TxPoints int
}

// Identifiers (struct fields, variables, parameters) declared with a map type somewhere in the
// package are collected by name; a range statement over one of them is rewritten to a
// deterministic iteration (Go randomises map iteration order, which the explorer must own).

func isMapExpr(e ast.Expr) bool {
	switch x := e.(type) {
	case *ast.MapType:
		return true
	case *ast.CompositeLit:
		_, ok := x.Type.(*ast.MapType)
		return ok
	case *ast.CallExpr:
		if id, ok := x.Fun.(*ast.Ident); ok && id.Name == "make" && len(x.Args) > 0 {
			_, ok := x.Args[0].(*ast.MapType)
			return ok
		}
	}
	return false
}

func collectMapNames(f *ast.File, into map[string]bool) {
	ast.Inspect(f, func(n ast.Node) bool {
		switch x := n.(type) {
		case *ast.Field:
			if _, ok := x.Type.(*ast.MapType); ok {
				for _, nm := range x.Names {
					into[nm.Name] = true
				}
			} else {
				for _, nm := range x.Names {
					into["!"+nm.Name] = true // also declared with a non-map type somewhere: ambiguous
				}
			}
		case *ast.ValueSpec:
			if x.Type != nil {
				if _, ok := x.Type.(*ast.MapType); ok {
					for _, nm := range x.Names {
						into[nm.Name] = true
					}
				}
			}
			for i, v := range x.Values {
				if isMapExpr(v) && i < len(x.Names) {
					into[x.Names[i].Name] = true
				}
			}
		case *ast.AssignStmt:
			for i, v := range x.Rhs {
				if isMapExpr(v) && i < len(x.Lhs) {
					if id, ok := x.Lhs[i].(*ast.Ident); ok {
						into[id.Name] = true
					}
				}
			}
		}
		return true
	})
}

// PackageVars collects the names of package-level variables declared in the .go files of dir
// (and, as a side effect, the package's map-typed names into the returned second map).
func PackageVars(dir string) (map[string]bool, error) {
	vars := map[string]bool{}
	ents, err := os.ReadDir(dir)
	if err != nil {
		return nil, err
	}
	fset := token.NewFileSet()
	for _, e := range ents {
		if e.IsDir() || !strings.HasSuffix(e.Name(), ".go") || strings.HasSuffix(e.Name(), "_test.go") {
			continue
		}
		f, err := parser.ParseFile(fset, filepath.Join(dir, e.Name()), nil, parser.SkipObjectResolution)
		if err != nil {
			return nil, err
		}
		mn := map[string]bool{}
		collectMapNames(f, mn)
		for k := range mn {
			vars["map:"+k] = true // map-typed names share the table under a prefix
		}
		for _, d := range f.Decls {
			gd, ok := d.(*ast.GenDecl)
			if !ok || gd.Tok != token.VAR {
				continue
			}
			for _, sp := range gd.Specs {
				for _, n := range sp.(*ast.ValueSpec).Names {
					if n.Name != "_" {
						vars[n.Name] = true
					}
				}
			}
		}
	}
	return vars, nil
}

type rewriter struct {
	fset    *token.FileSet
	file    string
	pkgVars map[string]bool
	st      *Stats
	needVrt bool
	err     error
	// local variables of the function being rewritten that one of its `go func(){...}` literals uses
	// (shared between the spawning function and the goroutines, or between goroutines)
	captured map[*ast.Object]bool
}

// goCaptured collects the variables declared in fd (parameters included) that are free in the body
// of a function literal started with `go` inside fd.
func goCaptured(fd *ast.FuncDecl) map[*ast.Object]bool {
	set := map[*ast.Object]bool{}
	ast.Inspect(fd.Body, func(n ast.Node) bool {
		g, ok := n.(*ast.GoStmt)
		if !ok {
			return true
		}
		lit, ok := g.Call.Fun.(*ast.FuncLit)
		if !ok {
			return true
		}
		ast.Inspect(lit.Body, func(m ast.Node) bool {
			id, ok := m.(*ast.Ident)
			if !ok || id.Obj == nil || id.Obj.Kind != ast.Var || id.Name == "_" {
				return true
			}
			dp := id.Obj.Pos()
			if dp >= fd.Pos() && dp < fd.End() && !(dp >= lit.Pos() && dp < lit.End()) {
				set[id.Obj] = true
			}
			return true
		})
		return true
	})
	return set
}

func baseIdent(e ast.Expr) *ast.Ident {
	for {
		switch x := e.(type) {
		case *ast.Ident:
			return x
		case *ast.ParenExpr:
			e = x.X
		case *ast.IndexExpr:
			e = x.X
		case *ast.SliceExpr:
			e = x.X
		case *ast.SelectorExpr:
			e = x.X
		case *ast.StarExpr:
			e = x.X
		default:
			return nil
		}
	}
}

// capUses lists the captured variables a statement's own expressions mention (not those of nested
// blocks or function literals, which are visited as statements themselves) and whether the mention
// may write: assignment target, ++/--, or handed to a call as x, x[a:b] or &x.
func (r *rewriter) capUses(s ast.Stmt) (objs []*ast.Object, writes map[*ast.Object]bool) {
	if len(r.captured) == 0 {
		return nil, nil
	}
	writes = map[*ast.Object]bool{}
	seen := map[*ast.Object]bool{}
	note := func(id *ast.Ident, w bool) {
		if id == nil || id.Obj == nil || !r.captured[id.Obj] {
			return
		}
		if dp := id.Obj.Pos(); dp >= s.Pos() && dp < s.End() {
			return // declared by this very statement: not yet in scope in front of it
		}
		if !seen[id.Obj] {
			seen[id.Obj] = true
			objs = append(objs, id.Obj)
		}
		if w {
			writes[id.Obj] = true
		}
	}
	var walk func(e ast.Expr)
	walkCall := func(c *ast.CallExpr) {
		if sel, ok := c.Fun.(*ast.SelectorExpr); ok {
			walk(sel.X)
		} else {
			walk(c.Fun)
		}
		for _, a := range c.Args {
			switch x := a.(type) {
			case *ast.Ident:
				note(x, x.Obj != nil && sliceLike(x.Obj)) // the callee may write through a slice or map
			case *ast.SliceExpr:
				note(baseIdent(x), true)
				walk(x.Low)
				walk(x.High)
			case *ast.UnaryExpr:
				if x.Op == token.AND {
					note(baseIdent(x.X), true)
				} else {
					walk(a)
				}
			default:
				walk(a)
			}
		}
	}
	walk = func(e ast.Expr) {
		if e == nil {
			return
		}
		ast.Inspect(e, func(n ast.Node) bool {
			switch x := n.(type) {
			case *ast.FuncLit:
				return false
			case *ast.CallExpr:
				walkCall(x)
				return false
			case *ast.Ident:
				note(x, false)
			}
			return true
		})
	}
	target := func(l ast.Expr) {
		note(baseIdent(l), true)
		if ix, ok := l.(*ast.IndexExpr); ok {
			walk(ix.Index)
		}
	}
	var simple func(s ast.Stmt)
	simple = func(s ast.Stmt) {
		switch x := s.(type) {
		case *ast.AssignStmt:
			for _, l := range x.Lhs {
				target(l)
			}
			for _, e := range x.Rhs {
				walk(e)
			}
		case *ast.IncDecStmt:
			target(x.X)
		case *ast.ExprStmt:
			walk(x.X)
		case *ast.SendStmt:
			walk(x.Chan)
			walk(x.Value)
		case *ast.ReturnStmt:
			for _, e := range x.Results {
				walk(e)
			}
		case *ast.DeferStmt:
			walkCall(x.Call)
		case *ast.GoStmt:
			walkCall(x.Call)
		case *ast.DeclStmt:
			if gd, ok := x.Decl.(*ast.GenDecl); ok {
				for _, sp := range gd.Specs {
					if vs, ok := sp.(*ast.ValueSpec); ok {
						for _, v := range vs.Values {
							walk(v)
						}
					}
				}
			}
		case *ast.IfStmt:
			if x.Init != nil {
				simple(x.Init)
			}
			walk(x.Cond)
		case *ast.ForStmt:
			if x.Init != nil {
				simple(x.Init)
			}
			walk(x.Cond)
			if x.Post != nil {
				simple(x.Post)
			}
		case *ast.RangeStmt:
			walk(x.X)
			if x.Tok == token.ASSIGN {
				target(x.Key)
				if x.Value != nil {
					target(x.Value)
				}
			}
		case *ast.SwitchStmt:
			if x.Init != nil {
				simple(x.Init)
			}
			walk(x.Tag)
		case *ast.TypeSwitchStmt:
			if x.Init != nil {
				simple(x.Init)
			}
			simple(x.Assign)
		case *ast.LabeledStmt:
			simple(x.Stmt)
		}
	}
	simple(s)
	return objs, writes
}

// sliceLike: the variable's declaration shows a slice, array or map type (make, literal, or a
// declared type); anything else handed to a call is passed by value or guards itself.
func sliceLike(o *ast.Object) bool {
	isSL := func(t ast.Expr) bool {
		switch t.(type) {
		case *ast.ArrayType, *ast.MapType:
			return true
		}
		return false
	}
	switch d := o.Decl.(type) {
	case *ast.Field:
		return isSL(d.Type)
	case *ast.ValueSpec:
		if d.Type != nil {
			return isSL(d.Type)
		}
		for i, n := range d.Names {
			if n.Name == o.Name && i < len(d.Values) {
				return sliceValue(d.Values[i])
			}
		}
	case *ast.AssignStmt:
		if len(d.Lhs) == len(d.Rhs) {
			for i, l := range d.Lhs {
				if id, ok := l.(*ast.Ident); ok && id.Name == o.Name {
					return sliceValue(d.Rhs[i])
				}
			}
		}
	}
	return false
}

func sliceValue(v ast.Expr) bool {
	switch x := v.(type) {
	case *ast.CompositeLit:
		switch x.Type.(type) {
		case *ast.ArrayType, *ast.MapType:
			return true
		}
	case *ast.CallExpr:
		if id, ok := x.Fun.(*ast.Ident); ok && id.Name == "make" && len(x.Args) > 0 {
			switch x.Args[0].(type) {
			case *ast.ArrayType, *ast.MapType:
				return true
			}
		}
	case *ast.SliceExpr:
		return true
	}
	return false
}

func (r *rewriter) site(p token.Pos) string {
	pos := r.fset.Position(p)
	return fmt.Sprintf("%s:%d", r.file, pos.Line)
}

func vrtCall(fn string, args ...ast.Expr) *ast.CallExpr {
	return &ast.CallExpr{Fun: &ast.SelectorExpr{X: ast.NewIdent("vrt"), Sel: ast.NewIdent(fn)}, Args: args}
}

func strLit(s string) ast.Expr { return &ast.BasicLit{Kind: token.STRING, Value: strconv.Quote(s)} }

func isSimpleOperand(e ast.Expr) bool {
	switch x := e.(type) {
	case *ast.BasicLit, *ast.FuncLit:
		return true
	case *ast.Ident:
		return x.Name == "nil" || x.Name == "true" || x.Name == "false"
	}
	return false
}

// rewriteGo turns `go f(a, b)` into a block that evaluates the operands now and starts a managed thread.
func (r *rewriter) rewriteGo(g *ast.GoStmt) ast.Stmt {
	r.st.GoStmts++
	r.needVrt = true
	call := g.Call
	var lhs, rhs []ast.Expr
	newArgs := make([]ast.Expr, len(call.Args))
	for i, a := range call.Args {
		if isSimpleOperand(a) || (call.Ellipsis.IsValid() && i == len(call.Args)-1) {
			newArgs[i] = a
			continue
		}
		id := ast.NewIdent(fmt.Sprintf("vrtArg%d", i))
		lhs = append(lhs, id)
		rhs = append(rhs, a)
		newArgs[i] = id
	}
	fun := call.Fun
	if _, isLit := fun.(*ast.FuncLit); !isLit {
		// method values / function values are evaluated at go time
		id := ast.NewIdent("vrtFn")
		lhs = append(lhs, id)
		rhs = append(rhs, fun)
		fun = id
	}
	inner := &ast.CallExpr{Fun: fun, Args: newArgs, Ellipsis: call.Ellipsis}
	body := &ast.BlockStmt{List: []ast.Stmt{&ast.ExprStmt{X: inner}}}
	spawn := &ast.ExprStmt{X: vrtCall("Go", strLit(r.site(g.Pos())), &ast.FuncLit{Type: &ast.FuncType{Params: &ast.FieldList{}}, Body: body})}
	blk := &ast.BlockStmt{}
	if len(lhs) > 0 {
		blk.List = append(blk.List, &ast.AssignStmt{Lhs: lhs, Tok: token.DEFINE, Rhs: rhs})
	}
	blk.List = append(blk.List, spawn)
	return blk
}

func (r *rewriter) rewriteSend(s *ast.SendStmt) ast.Stmt {
	r.st.ChanOps++
	r.needVrt = true
	do := &ast.FuncLit{Type: &ast.FuncType{Params: &ast.FieldList{}}, Body: &ast.BlockStmt{List: []ast.Stmt{&ast.SendStmt{Chan: s.Chan, Value: s.Value}}}}
	return &ast.ExprStmt{X: vrtCall("Send", s.Chan, do)}
}

// rewriteSelect turns
//
//	select { case v := <-a: A; case b <- x: B; default: D }
//
// into
//
//	if vrt.Cur() == nil { <the original statement> } else {
//		vrtC0 := a; vrtC1 := b; vrtV1 := x
//		switch vrt.Select(true, vrt.SelRecv(vrtC0), vrt.SelSend(vrtC1)) {
//		case 0: v := vrt.RecvNow(vrtC0); A
//		case 1: vrt.SendNow(vrtC1, func() { vrtC1 <- vrtV1 }); B
//		case -1: D
//		}
//	}
//
// (break inside a clause leaves the switch exactly as it left the select).
func (r *rewriter) rewriteSelect(x *ast.SelectStmt) ast.Stmt {
	r.needVrt = true
	r.st.ChanOps++
	// a private copy of the statement for the free-running branch: print and re-parse
	var buf bytes.Buffer
	if err := format.Node(&buf, r.fset, x); err != nil {
		r.err = fmt.Errorf("%s: select: %v", r.site(x.Pos()), err)
		return x
	}
	// (parsed into the same file set: its positions lie beyond the real file, so no comment of the real
	// file can be attached inside the copy)
	cf, err := parser.ParseFile(r.fset, "", "package p\nfunc _() {\n"+buf.String()+"\n}", parser.SkipObjectResolution)
	if err != nil {
		r.err = fmt.Errorf("%s: select: re-parse: %v", r.site(x.Pos()), err)
		return x
	}
	orig := cf.Decls[0].(*ast.FuncDecl).Body.List[0].(*ast.SelectStmt)
	for _, c := range orig.Body.List {
		cc := c.(*ast.CommClause)
		cc.Body = r.stmts(cc.Body)
	}
	pre := &ast.BlockStmt{}
	var selArgs []ast.Expr
	hasDefault := "false"
	sw := &ast.SwitchStmt{Body: &ast.BlockStmt{}}
	idx := 0
	for _, c := range x.Body.List {
		cc := c.(*ast.CommClause)
		body := r.stmts(cc.Body)
		if cc.Comm == nil {
			hasDefault = "true"
			sw.Body.List = append(sw.Body.List, &ast.CaseClause{List: []ast.Expr{&ast.BasicLit{Kind: token.INT, Value: "-1"}}, Body: body})
			continue
		}
		chID := ast.NewIdent(fmt.Sprintf("vrtC%d", idx))
		var first ast.Stmt
		switch cm := cc.Comm.(type) {
		case *ast.SendStmt:
			vID := ast.NewIdent(fmt.Sprintf("vrtV%d", idx))
			pre.List = append(pre.List, &ast.AssignStmt{Lhs: []ast.Expr{chID, vID}, Tok: token.DEFINE, Rhs: []ast.Expr{r.expr(cm.Chan), r.expr(cm.Value)}})
			selArgs = append(selArgs, vrtCall("SelSend", chID))
			do := &ast.FuncLit{Type: &ast.FuncType{Params: &ast.FieldList{}}, Body: &ast.BlockStmt{List: []ast.Stmt{&ast.SendStmt{Chan: chID, Value: vID}}}}
			first = &ast.ExprStmt{X: vrtCall("SendNow", chID, do)}
		case *ast.ExprStmt:
			u := cm.X.(*ast.UnaryExpr)
			pre.List = append(pre.List, &ast.AssignStmt{Lhs: []ast.Expr{chID}, Tok: token.DEFINE, Rhs: []ast.Expr{r.expr(u.X)}})
			selArgs = append(selArgs, vrtCall("SelRecv", chID))
			first = &ast.ExprStmt{X: vrtCall("RecvNow", chID)}
		case *ast.AssignStmt:
			u := cm.Rhs[0].(*ast.UnaryExpr)
			pre.List = append(pre.List, &ast.AssignStmt{Lhs: []ast.Expr{chID}, Tok: token.DEFINE, Rhs: []ast.Expr{r.expr(u.X)}})
			selArgs = append(selArgs, vrtCall("SelRecv", chID))
			fn := "RecvNow"
			if len(cm.Lhs) == 2 {
				fn = "RecvNow2"
			}
			first = &ast.AssignStmt{Lhs: cm.Lhs, Tok: cm.Tok, Rhs: []ast.Expr{vrtCall(fn, chID)}}
		}
		sw.Body.List = append(sw.Body.List, &ast.CaseClause{List: []ast.Expr{&ast.BasicLit{Kind: token.INT, Value: strconv.Itoa(idx)}}, Body: append([]ast.Stmt{first}, body...)})
		idx++
	}
	// a thread that is being unwound gets -2: it leaves here (and the clause keeps the switch a
	// terminating statement where the select was one)
	sw.Body.List = append(sw.Body.List, &ast.CaseClause{Body: []ast.Stmt{
		&ast.ExprStmt{X: vrtCall("SelectAbort")},
		&ast.ExprStmt{X: &ast.CallExpr{Fun: ast.NewIdent("panic"), Args: []ast.Expr{strLit("vrt: unreachable")}}},
	}})
	sw.Tag = vrtCall("Select", append([]ast.Expr{ast.NewIdent(hasDefault)}, selArgs...)...)
	pre.List = append(pre.List, sw)
	cond := &ast.BinaryExpr{X: vrtCall("Cur"), Op: token.EQL, Y: ast.NewIdent("nil")}
	return &ast.IfStmt{Cond: cond, Body: &ast.BlockStmt{List: []ast.Stmt{orig}}, Else: pre}
}

// txCall: the statement calls <x>.db.View / Update / Batch / Begin (a bbolt transaction), not counting
// calls inside nested function literals or nested blocks (those statements are visited on their own).
func txCall(s ast.Stmt) bool {
	switch s.(type) {
	case *ast.AssignStmt, *ast.ExprStmt, *ast.ReturnStmt, *ast.DeclStmt:
	default:
		return false
	}
	found := false
	ast.Inspect(s, func(n ast.Node) bool {
		switch x := n.(type) {
		case *ast.FuncLit:
			return false
		case *ast.CallExpr:
			if sel, ok := x.Fun.(*ast.SelectorExpr); ok {
				switch sel.Sel.Name {
				case "View", "Update", "Batch", "Begin":
					if in, ok := sel.X.(*ast.SelectorExpr); ok && in.Sel.Name == "db" {
						found = true
					} else if id, ok := sel.X.(*ast.Ident); ok && id.Name == "db" {
						found = true
					}
				}
			}
		}
		return true
	})
	return found
}

func (r *rewriter) memTarget(e ast.Expr) bool {
	switch x := e.(type) {
	case *ast.SelectorExpr, *ast.IndexExpr, *ast.StarExpr:
		return true
	case *ast.ParenExpr:
		return r.memTarget(x.X)
	case *ast.Ident:
		return r.pkgVars[x.Name]
	}
	return false
}

func (r *rewriter) memPoint(p token.Pos) ast.Stmt {
	r.st.MemPoints++
	r.needVrt = true
	return &ast.ExprStmt{X: vrtCall("MemPoint", strLit(r.site(p)))}
}

// stmts rewrites a statement list in place, inserting memory points.
func (r *rewriter) stmts(list []ast.Stmt) []ast.Stmt {
	var out []ast.Stmt
	for _, s := range list {
		switch x := s.(type) {
		case *ast.AssignStmt:
			if x.Tok != token.DEFINE {
				for _, l := range x.Lhs {
					if r.memTarget(l) {
						out = append(out, r.memPoint(x.Pos()))
						break
					}
				}
			}
		case *ast.IncDecStmt:
			if r.memTarget(x.X) {
				out = append(out, r.memPoint(x.Pos()))
			}
		case *ast.ExprStmt:
			if c, ok := x.X.(*ast.CallExpr); ok {
				if id, ok := c.Fun.(*ast.Ident); ok && id.Name == "copy" && len(c.Args) == 2 {
					out = append(out, r.memPoint(x.Pos()))
				}
			}
		}
		if txCall(s) {
			// a database transaction begins here: a scheduling point in front of it (the database's own lock is
			// outside the instrumented code, so two transactions of one call would otherwise be atomic together)
			r.st.TxPoints++
			r.needVrt = true
			out = append(out, &ast.ExprStmt{X: vrtCall("TxPoint", strLit(r.site(s.Pos())))})
		}
		if objs, writes := r.capUses(s); len(objs) > 0 {
			for _, o := range objs {
				r.st.CaptPoints++
				r.needVrt = true
				w := "false"
				if writes[o] {
					w = "true"
				}
				out = append(out, &ast.ExprStmt{X: vrtCall("MemVar", &ast.UnaryExpr{Op: token.AND, X: ast.NewIdent(o.Name)}, ast.NewIdent(w), strLit(r.site(s.Pos())+":"+o.Name))})
			}
		}
		out = append(out, r.stmt(s))
	}
	return out
}

func (r *rewriter) stmt(s ast.Stmt) ast.Stmt {
	switch x := s.(type) {
	case *ast.GoStmt:
		r.exprsIn(x.Call)
		return r.rewriteGo(x)
	case *ast.SendStmt:
		x.Chan = r.expr(x.Chan)
		x.Value = r.expr(x.Value)
		return r.rewriteSend(x)
	case *ast.SelectStmt:
		return r.rewriteSelect(x)
	case *ast.BlockStmt:
		x.List = r.stmts(x.List)
	case *ast.IfStmt:
		if x.Init != nil {
			x.Init = r.stmt(x.Init)
		}
		x.Cond = r.expr(x.Cond)
		x.Body.List = r.stmts(x.Body.List)
		if x.Else != nil {
			x.Else = r.stmt(x.Else)
		}
	case *ast.ForStmt:
		if x.Init != nil {
			x.Init = r.stmt(x.Init)
		}
		if x.Cond != nil {
			x.Cond = r.expr(x.Cond)
		}
		if x.Post != nil {
			x.Post = r.stmt(x.Post)
		}
		x.Body.List = r.stmts(x.Body.List)
	case *ast.RangeStmt:
		x.X = r.expr(x.X)
		x.Body.List = r.stmts(x.Body.List)
		if r.isMapRange(x.X) {
			return r.rewriteMapRange(x)
		}
		if pureExpr(x.X) {
			// not recognised as a map: checked at run time (panics under the scheduler if it is one)
			r.needVrt = true
			x.X = vrtCall("RangeCheck", x.X)
		}
	case *ast.SwitchStmt:
		if x.Init != nil {
			x.Init = r.stmt(x.Init)
		}
		if x.Tag != nil {
			x.Tag = r.expr(x.Tag)
		}
		for _, c := range x.Body.List {
			cc := c.(*ast.CaseClause)
			for i := range cc.List {
				cc.List[i] = r.expr(cc.List[i])
			}
			cc.Body = r.stmts(cc.Body)
		}
	case *ast.TypeSwitchStmt:
		if x.Init != nil {
			x.Init = r.stmt(x.Init)
		}
		x.Assign = r.stmt(x.Assign)
		for _, c := range x.Body.List {
			cc := c.(*ast.CaseClause)
			cc.Body = r.stmts(cc.Body)
		}
	case *ast.LabeledStmt:
		x.Stmt = r.stmt(x.Stmt)
	case *ast.AssignStmt:
		// v, ok := <-ch
		if len(x.Lhs) == 2 && len(x.Rhs) == 1 {
			if u, ok := x.Rhs[0].(*ast.UnaryExpr); ok && u.Op == token.ARROW {
				r.st.ChanOps++
				r.needVrt = true
				x.Rhs[0] = vrtCall("Recv2", r.expr(u.X))
				return x
			}
		}
		for i := range x.Rhs {
			x.Rhs[i] = r.expr(x.Rhs[i])
		}
		for i := range x.Lhs {
			x.Lhs[i] = r.expr(x.Lhs[i])
		}
	case *ast.ExprStmt:
		x.X = r.expr(x.X)
	case *ast.ReturnStmt:
		for i := range x.Results {
			x.Results[i] = r.expr(x.Results[i])
		}
	case *ast.DeferStmt:
		r.exprsIn(x.Call)
	case *ast.DeclStmt:
		if gd, ok := x.Decl.(*ast.GenDecl); ok {
			for _, sp := range gd.Specs {
				if vs, ok := sp.(*ast.ValueSpec); ok {
					for i := range vs.Values {
						vs.Values[i] = r.expr(vs.Values[i])
					}
				}
			}
		}
	case *ast.IncDecStmt:
		x.X = r.expr(x.X)
	}
	return s
}

func pureExpr(e ast.Expr) bool {
	switch x := e.(type) {
	case *ast.Ident:
		return true
	case *ast.SelectorExpr:
		return pureExpr(x.X)
	case *ast.ParenExpr:
		return pureExpr(x.X)
	}
	return false
}

func (r *rewriter) isMapRange(e ast.Expr) bool {
	switch x := e.(type) {
	case *ast.Ident:
		return r.pkgVars["map:"+x.Name] && !r.pkgVars["map:!"+x.Name]
	case *ast.SelectorExpr:
		return pureExpr(x.X) && r.pkgVars["map:"+x.Sel.Name] && !r.pkgVars["map:!"+x.Sel.Name]
	case *ast.ParenExpr:
		return r.isMapRange(x.X)
	}
	return false
}

// rewriteMapRange turns `for k, v := range m { body }` into an iteration over the sorted keys that
// skips entries deleted meanwhile (a non-map m fails to compile: vrt.SortedKeys wants a map).
func (r *rewriter) rewriteMapRange(x *ast.RangeStmt) ast.Stmt {
	r.needVrt = true
	r.st.MapRanges++
	kid := ast.NewIdent("vrtK")
	var pre []ast.Stmt
	blank := func(e ast.Expr) bool {
		if e == nil {
			return true
		}
		id, ok := e.(*ast.Ident)
		return ok && id.Name == "_"
	}
	tok := x.Tok
	if tok == token.ILLEGAL {
		tok = token.DEFINE
	}
	if !blank(x.Value) {
		pre = append(pre,
			&ast.AssignStmt{Lhs: []ast.Expr{ast.NewIdent("vrtV"), ast.NewIdent("vrtOk")}, Tok: token.DEFINE, Rhs: []ast.Expr{&ast.IndexExpr{X: x.X, Index: kid}}},
			&ast.IfStmt{Cond: &ast.UnaryExpr{Op: token.NOT, X: ast.NewIdent("vrtOk")}, Body: &ast.BlockStmt{List: []ast.Stmt{&ast.BranchStmt{Tok: token.CONTINUE}}}},
			&ast.AssignStmt{Lhs: []ast.Expr{x.Value}, Tok: tok, Rhs: []ast.Expr{ast.NewIdent("vrtV")}})
	} else {
		pre = append(pre,
			&ast.IfStmt{Init: &ast.AssignStmt{Lhs: []ast.Expr{ast.NewIdent("_"), ast.NewIdent("vrtOk")}, Tok: token.DEFINE, Rhs: []ast.Expr{&ast.IndexExpr{X: x.X, Index: kid}}},
				Cond: &ast.UnaryExpr{Op: token.NOT, X: ast.NewIdent("vrtOk")}, Body: &ast.BlockStmt{List: []ast.Stmt{&ast.BranchStmt{Tok: token.CONTINUE}}}})
	}
	if !blank(x.Key) {
		pre = append(pre, &ast.AssignStmt{Lhs: []ast.Expr{x.Key}, Tok: tok, Rhs: []ast.Expr{kid}})
	}
	body := &ast.BlockStmt{List: append(pre, x.Body.List...)}
	return &ast.RangeStmt{Key: ast.NewIdent("_"), Value: kid, Tok: token.DEFINE, X: vrtCall("SortedKeys", x.X), Body: body}
}

func (r *rewriter) exprsIn(c *ast.CallExpr) {
	c.Fun = r.expr(c.Fun)
	for i := range c.Args {
		c.Args[i] = r.expr(c.Args[i])
	}
}

// expr rewrites channel receives and close() inside an expression, and descends into function literals.
func (r *rewriter) expr(e ast.Expr) ast.Expr {
	switch x := e.(type) {
	case nil:
		return nil
	case *ast.UnaryExpr:
		x.X = r.expr(x.X)
		if x.Op == token.ARROW {
			r.st.ChanOps++
			r.needVrt = true
			return vrtCall("Recv", x.X)
		}
	case *ast.CallExpr:
		r.exprsIn(x)
		if id, ok := x.Fun.(*ast.Ident); ok && id.Name == "close" && len(x.Args) == 1 {
			r.st.ChanOps++
			r.needVrt = true
			do := &ast.FuncLit{Type: &ast.FuncType{Params: &ast.FieldList{}}, Body: &ast.BlockStmt{List: []ast.Stmt{&ast.ExprStmt{X: &ast.CallExpr{Fun: ast.NewIdent("close"), Args: []ast.Expr{x.Args[0]}}}}}}
			return vrtCall("Close", x.Args[0], do)
		}
	case *ast.FuncLit:
		x.Body.List = r.stmts(x.Body.List)
	case *ast.BinaryExpr:
		x.X = r.expr(x.X)
		x.Y = r.expr(x.Y)
	case *ast.ParenExpr:
		x.X = r.expr(x.X)
	case *ast.SelectorExpr:
		x.X = r.expr(x.X)
	case *ast.IndexExpr:
		x.X = r.expr(x.X)
		x.Index = r.expr(x.Index)
	case *ast.SliceExpr:
		x.X = r.expr(x.X)
		x.Low, x.High, x.Max = r.expr(x.Low), r.expr(x.High), r.expr(x.Max)
	case *ast.StarExpr:
		x.X = r.expr(x.X)
	case *ast.TypeAssertExpr:
		x.X = r.expr(x.X)
	case *ast.KeyValueExpr:
		x.Value = r.expr(x.Value)
	case *ast.CompositeLit:
		for i := range x.Elts {
			x.Elts[i] = r.expr(x.Elts[i])
		}
	}
	return e
}

// File instruments one source file; returns the new source.
func File(path, rel string, pkgVars map[string]bool, st *Stats) ([]byte, error) {
	fset := token.NewFileSet()
	f, err := parser.ParseFile(fset, path, nil, parser.ParseComments)
	if err != nil {
		return nil, err
	}
	r := &rewriter{fset: fset, file: rel, pkgVars: pkgVars, st: st}
	st.Files++
	hasVrt := false
	for _, im := range f.Imports {
		p, _ := strconv.Unquote(im.Path.Value)
		if np, ok := importMap[p]; ok {
			if im.Name != nil && im.Name.Name == "." {
				return nil, fmt.Errorf("%s: dot import of %s", rel, p)
			}
			im.Path.Value = strconv.Quote(np)
			im.EndPos = 0
			st.Imports++
		}
		if p == VrtPath {
			hasVrt = true
		}
	}
	for _, d := range f.Decls {
		if fd, ok := d.(*ast.FuncDecl); ok && fd.Body != nil {
			// only variables that some statement of the function may write after they were declared
			// can be raced on; read-only captures get no points
			r.captured = goCaptured(fd)
			written := map[*ast.Object]bool{}
			ast.Inspect(fd.Body, func(n ast.Node) bool {
				if st, ok := n.(ast.Stmt); ok {
					_, w := r.capUses(st)
					for o := range w {
						written[o] = true
					}
				}
				return true
			})
			r.captured = written
			fd.Body.List = r.stmts(fd.Body.List)
			r.captured = nil
		}
		if gd, ok := d.(*ast.GenDecl); ok && gd.Tok == token.VAR {
			for _, sp := range gd.Specs {
				vs := sp.(*ast.ValueSpec)
				for i := range vs.Values {
					vs.Values[i] = r.expr(vs.Values[i])
				}
			}
		}
	}
	if r.err != nil {
		return nil, r.err
	}
	var buf bytes.Buffer
	if err := format.Node(&buf, fset, f); err != nil {
		return nil, fmt.Errorf("%s: %v", rel, err)
	}
	src := buf.Bytes()
	if r.needVrt && !hasVrt {
		// add the vrt import textually after the package clause (keeps comments/positions simple)
		idx := bytes.Index(src, []byte("\nimport "))
		ins := []byte("\nimport vrt " + strconv.Quote(VrtPath) + "\n")
		if idx < 0 {
			// no imports at all: after the package line
			pk := bytes.Index(src, []byte("\npackage "))
			if bytes.HasPrefix(src, []byte("package ")) {
				pk = -1
			}
			nl := bytes.IndexByte(src[pk+1:], '\n') + pk + 1
			src = append(src[:nl:nl], append(ins, src[nl:]...)...)
		} else {
			src = append(src[:idx:idx], append(ins, src[idx:]...)...)
		}
	}
	out, err := format.Source(src)
	if err != nil {
		return nil, fmt.Errorf("%s: reformat: %v", rel, err)
	}
	return out, nil
}
