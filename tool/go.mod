module veriftool

go 1.23
